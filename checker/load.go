package main

// Loading of /repo's current source: go/packages (LoadAllSyntax) per build
// configuration, SSA construction, CHA call graph, and the indexes the rules
// share.  Nothing in /repo is executed.

import (
	"fmt"
	"go/ast"
	"go/token"
	"go/types"
	"os"
	"sort"
	"strings"

	"golang.org/x/tools/go/callgraph"
	"golang.org/x/tools/go/callgraph/cha"
	"golang.org/x/tools/go/callgraph/vta"
	"golang.org/x/tools/go/packages"
	"golang.org/x/tools/go/ssa"
	"golang.org/x/tools/go/ssa/ssautil"
)

const modulePath = "github.com/ddddddO/gtree"

// goBinDir holds the Go toolchain that can load the repository (go.mod says go 1.24; the default go is older).
const goBinDir = "/opt/veriftools/go1.26.8/bin"

// Config names one build configuration of the repository.
type Config struct {
	Name     string
	Tags     string
	Env      []string
	Patterns []string
	// packages of the module that must be present after loading
	WantPkgs []string
}

var (
	cfgD = Config{Name: "D", Patterns: []string{".", "./markdown", "./cmd/gtree"},
		WantPkgs: []string{modulePath, modulePath + "/markdown", modulePath + "/cmd/gtree"}}
	cfgW = Config{Name: "W", Tags: "tinywasm", Patterns: []string{"."},
		WantPkgs: []string{modulePath, modulePath + "/markdown"}}
	cfgJ = Config{Name: "J", Tags: "tinywasm", Env: []string{"GOOS=js", "GOARCH=wasm"}, Patterns: []string{"./cmd/gtree-wasm"},
		WantPkgs: []string{modulePath, modulePath + "/markdown", modulePath + "/cmd/gtree-wasm"}}
	cfgWin = Config{Name: "D-windows", Env: []string{"GOOS=windows", "GOARCH=amd64"}, Patterns: []string{".", "./markdown", "./cmd/gtree"},
		WantPkgs: []string{modulePath, modulePath + "/markdown", modulePath + "/cmd/gtree"}}
	cfgMac = Config{Name: "D-darwin", Env: []string{"GOOS=darwin", "GOARCH=arm64"}, Patterns: []string{".", "./markdown", "./cmd/gtree"},
		WantPkgs: []string{modulePath, modulePath + "/markdown", modulePath + "/cmd/gtree"}}
)

// Prog is one loaded configuration.
type Prog struct {
	Cfg     Config
	Fset    *token.FileSet
	Pkgs    []*packages.Package          // initial packages
	ModPkgs map[string]*packages.Package // module packages by path (incl. deps of the initial ones)
	SSA     *ssa.Program
	SSAPkgs map[string]*ssa.Package

	ModFuncs []*ssa.Function // module functions with bodies (incl. closures, instantiations), sorted
	funcByID map[string]*ssa.Function

	cha *callgraph.Graph
	vta *callgraph.Graph

	// lazily computed
	calleesCache map[ssa.CallInstruction][]*ssa.Function
	callersCache map[*ssa.Function][]ssa.CallInstruction
	posFile      map[*ssa.Function]string

	RenameNotes []string // functions / fields analysed under their inventoried names (rename.go)
}

func loadConfig(repo string, c Config) (*Prog, error) {
	fset := token.NewFileSet()
	env := append(os.Environ(), "GOFLAGS=-mod=mod", "GOPROXY=off", "GOSUMDB=off", "GOTOOLCHAIN=local", "GOWORK=off", "CGO_ENABLED=0",
		"PATH="+goBinDir+":"+os.Getenv("PATH"))
	env = append(env, c.Env...)
	pc := &packages.Config{
		Mode:  packages.LoadAllSyntax,
		Dir:   repo,
		Fset:  fset,
		Env:   env,
		Tests: false,
	}
	if c.Tags != "" {
		pc.BuildFlags = []string{"-tags=" + c.Tags}
	}
	pkgs, err := packages.Load(pc, c.Patterns...)
	if err != nil {
		return nil, fmt.Errorf("config %s: load: %v", c.Name, err)
	}
	if len(pkgs) == 0 {
		return nil, fmt.Errorf("config %s: no packages loaded", c.Name)
	}
	p := &Prog{Cfg: c, Fset: fset, Pkgs: pkgs, ModPkgs: map[string]*packages.Package{}, SSAPkgs: map[string]*ssa.Package{},
		funcByID: map[string]*ssa.Function{}, calleesCache: map[ssa.CallInstruction][]*ssa.Function{}}
	var errs []string
	packages.Visit(pkgs, nil, func(pk *packages.Package) {
		for _, e := range pk.Errors {
			errs = append(errs, fmt.Sprintf("%s: %v", pk.PkgPath, e))
		}
		if pk.PkgPath == modulePath || strings.HasPrefix(pk.PkgPath, modulePath+"/") {
			p.ModPkgs[pk.PkgPath] = pk
		}
	})
	if len(errs) > 0 {
		sort.Strings(errs)
		if len(errs) > 8 {
			errs = errs[:8]
		}
		return nil, fmt.Errorf("config %s: type/load errors:\n  %s", c.Name, strings.Join(errs, "\n  "))
	}
	for _, w := range c.WantPkgs {
		if p.ModPkgs[w] == nil {
			return nil, fmt.Errorf("config %s: expected package %s not loaded", c.Name, w)
		}
	}
	prog, _ := ssautil.AllPackages(pkgs, ssa.InstantiateGenerics)
	prog.Build()
	p.SSA = prog
	for path, pk := range p.ModPkgs {
		sp := prog.Package(pk.Types)
		if sp == nil {
			return nil, fmt.Errorf("config %s: no SSA package for %s", c.Name, path)
		}
		p.SSAPkgs[path] = sp
	}
	p.RenameNotes = resolveRenames(p)
	all := ssautil.AllFunctions(prog)
	for fn := range all {
		if fn.Blocks == nil {
			continue
		}
		if !p.InModule(fn) {
			continue
		}
		if fn.TypeParams().Len() > 0 && len(fn.TypeArgs()) == 0 {
			continue // generic origin: its instantiations are analysed instead
		}
		p.ModFuncs = append(p.ModFuncs, fn)
	}
	sort.Slice(p.ModFuncs, func(i, j int) bool { return p.FuncID(p.ModFuncs[i]) < p.FuncID(p.ModFuncs[j]) })
	for _, fn := range p.ModFuncs {
		p.funcByID[p.FuncID(fn)] = fn
	}
	p.cha = cha.CallGraph(prog)
	return p, nil
}

// VTA builds (once) the VTA call graph seeded with CHA.
func (p *Prog) VTA() *callgraph.Graph {
	if p.vta == nil {
		p.vta = vta.CallGraph(ssautil.AllFunctions(p.SSA), p.cha)
	}
	return p.vta
}

func pkgOfFunc(fn *ssa.Function) *ssa.Package {
	for f := fn; f != nil; f = f.Parent() {
		if f.Pkg != nil {
			return f.Pkg
		}
		if o := f.Origin(); o != nil && o.Pkg != nil {
			return o.Pkg
		}
	}
	return nil
}

// InModule reports whether fn is source code of the module (not a synthetic wrapper).
func (p *Prog) InModule(fn *ssa.Function) bool {
	pk := pkgOfFunc(fn)
	if pk == nil || pk.Pkg == nil {
		return false
	}
	path := pk.Pkg.Path()
	if path != modulePath && !strings.HasPrefix(path, modulePath+"/") {
		return false
	}
	switch {
	case fn.Synthetic == "":
	case strings.HasPrefix(fn.Synthetic, "instance of"):
	case strings.HasPrefix(fn.Synthetic, "range-over-func"):
	case fn.Synthetic == "package initializer":
	default:
		return false // wrappers, thunks, bound-method closures
	}
	return true
}

// PkgPath returns the import path of the package fn belongs to.
func (p *Prog) PkgPath(fn *ssa.Function) string {
	if pk := pkgOfFunc(fn); pk != nil && pk.Pkg != nil {
		return pk.Pkg.Path()
	}
	return ""
}

// FuncID is a stable, line-free name: pkg-relative, with receiver, closures as $n.
func (p *Prog) FuncID(fn *ssa.Function) string {
	s := rawFuncID(fn)
	if len(canonFuncs) > 0 {
		top := outermost(fn)
		if o := top.Origin(); o != nil {
			top = o
		}
		if id, ok := canonFuncs[top]; ok {
			raw := rawFuncID(top)
			if strings.HasPrefix(s, raw) {
				s = id + s[len(raw):]
			}
		}
	}
	return s
}

// Func finds a module function by FuncID; nil if absent.
func (p *Prog) Func(id string) *ssa.Function { return p.funcByID[id] }

// FuncsMatching returns module functions whose FuncID satisfies pred, sorted.
func (p *Prog) FuncsMatching(pred func(id string, fn *ssa.Function) bool) []*ssa.Function {
	var out []*ssa.Function
	for _, fn := range p.ModFuncs {
		if pred(p.FuncID(fn), fn) {
			out = append(out, fn)
		}
	}
	return out
}

// Pos renders a position relative to the repo root.
func (p *Prog) Pos(pos token.Pos) string {
	if !pos.IsValid() {
		return "-"
	}
	ps := p.Fset.Position(pos)
	f := ps.Filename
	if i := strings.Index(f, "/gtree@"); i >= 0 {
		f = f[i+1:]
	}
	for _, root := range []string{repoRoot + "/"} {
		f = strings.TrimPrefix(f, root)
	}
	return fmt.Sprintf("%s:%d", f, ps.Line)
}

// InstrPos gives the best position for an instruction (falls back to the function).
func (p *Prog) InstrPos(in ssa.Instruction) string {
	if in.Pos().IsValid() {
		return p.Pos(in.Pos())
	}
	if v, ok := in.(ssa.Value); ok {
		for _, r := range *v.Referrers() {
			if r.Pos().IsValid() {
				return p.Pos(r.Pos())
			}
		}
	}
	// nearest instruction in the same block with a position
	b := in.Block()
	for _, o := range b.Instrs {
		if o.Pos().IsValid() {
			return p.Pos(o.Pos())
		}
	}
	return p.Pos(in.Parent().Pos())
}

// Callees returns the module-or-external functions a call may invoke (static callee, or CHA targets).
func (p *Prog) Callees(call ssa.CallInstruction) []*ssa.Function {
	if c, ok := p.calleesCache[call]; ok {
		return c
	}
	var out []*ssa.Function
	if sc := call.Common().StaticCallee(); sc != nil {
		out = []*ssa.Function{sc}
	} else if !call.Common().IsInvoke() {
		// call of a function value: CHA would answer "every function with this signature"
		// (including main for func()); the rules treat function values that occur as operands in
		// reachable code as reachable instead, which covers closures, method values and callbacks.
		out = nil
	} else if n := p.cha.Nodes[call.Parent()]; n != nil {
		seen := map[*ssa.Function]bool{}
		for _, e := range n.Out {
			if e.Site == call && !seen[e.Callee.Func] {
				seen[e.Callee.Func] = true
				out = append(out, e.Callee.Func)
			}
		}
		sort.Slice(out, func(i, j int) bool { return out[i].String() < out[j].String() })
	}
	p.calleesCache[call] = out
	return out
}

// ModCallees is Callees restricted to module source functions, resolving wrappers to their targets.
func (p *Prog) ModCallees(call ssa.CallInstruction) []*ssa.Function {
	var out []*ssa.Function
	for _, f := range p.Callees(call) {
		if p.InModule(f) {
			out = append(out, f)
		} else if f.Synthetic != "" && pkgOfFunc(f) == nil || (f.Synthetic != "" && p.PkgPath(f) != "" && strings.HasPrefix(p.PkgPath(f), modulePath)) {
			// wrapper / thunk / bound method: follow one level
			for _, b := range f.Blocks {
				for _, in := range b.Instrs {
					if c, ok := in.(ssa.CallInstruction); ok {
						for _, g := range p.Callees(c) {
							if p.InModule(g) {
								out = append(out, g)
							}
						}
					}
				}
			}
		}
	}
	return out
}

// Callers returns the call instructions in module code that may invoke fn (CHA).
func (p *Prog) Callers(fn *ssa.Function) []ssa.CallInstruction {
	if p.callersCache == nil {
		p.callersCache = map[*ssa.Function][]ssa.CallInstruction{}
		for _, f := range p.ModFuncs {
			for _, b := range f.Blocks {
				for _, in := range b.Instrs {
					if c, ok := in.(ssa.CallInstruction); ok {
						for _, g := range p.ModCallees(c) {
							p.callersCache[g] = append(p.callersCache[g], c)
						}
					}
				}
			}
		}
	}
	return p.callersCache[fn]
}

// FileOf returns the *ast.File containing pos in the module packages.
func (p *Prog) FileOf(pos token.Pos) (*ast.File, *packages.Package) {
	for _, pk := range p.ModPkgs {
		for _, f := range pk.Syntax {
			if f.FileStart <= pos && pos <= f.FileEnd {
				return f, pk
			}
		}
	}
	return nil, nil
}

// LibPaths are the import paths of library (non-CLI) packages of the module.
func isLibPath(path string) bool {
	return path == modulePath || path == modulePath+"/markdown"
}

func isCLIPath(path string) bool { return path == modulePath+"/cmd/gtree" }

// named returns the named type behind pointers, or nil.
func namedOf(t types.Type) *types.Named {
	for {
		switch u := t.(type) {
		case *types.Pointer:
			t = u.Elem()
		case *types.Named:
			return u
		case *types.Alias:
			t = types.Unalias(u)
		default:
			return nil
		}
	}
}

func typeName(t types.Type) string {
	if n := namedOf(t); n != nil {
		if old, ok := canonTypes[n.Obj()]; ok {
			return old
		}
		if o := n.Origin(); o != nil {
			if old, ok := canonTypes[o.Obj()]; ok {
				return old
			}
		}
		return n.Obj().Name()
	}
	return t.String()
}
