package main

// NIL-4: index / slice / type-assertion / division obligations.
//
// The obligation source for indexing is the compiler: `go build -gcflags=<module>/...=-d=ssa/check_bce/debug=1`
// lists every bounds check its prove pass could not eliminate.  Nothing of gtree is executed; the
// compiler's output replays from the build cache.

import (
	"bytes"
	"fmt"
	"go/ast"
	"go/token"
	"go/types"
	"os"
	"os/exec"
	"path/filepath"
	"regexp"
	"sort"
	"strconv"
	"strings"

	"golang.org/x/tools/go/packages"
	"golang.org/x/tools/go/ssa"
)

type bceSite struct {
	file string // absolute
	line int
	col  int
	kind string
}

var bceRe = regexp.MustCompile(`^(.*\.go):(\d+):(\d+): Found (IsInBounds|IsSliceInBounds)`)

func runBCE(repo string, c Config) ([]bceSite, error) {
	args := []string{"build", "-gcflags=" + modulePath + "/...=-d=ssa/check_bce/debug=1", "-o", os.DevNull}
	if c.Tags != "" {
		args = append(args, "-tags="+c.Tags)
	}
	args = append(args, c.Patterns...)
	cmd := exec.Command("go", args...)
	cmd.Dir = repo
	cmd.Env = append(os.Environ(), "GOFLAGS=-mod=mod", "GOPROXY=off", "GOSUMDB=off", "GOTOOLCHAIN=local", "GOWORK=off", "CGO_ENABLED=0")
	cmd.Env = append(cmd.Env, c.Env...)
	var out bytes.Buffer
	cmd.Stdout, cmd.Stderr = &out, &out
	if err := cmd.Run(); err != nil {
		return nil, fmt.Errorf("go build (bounds-check listing) failed: %v\n%s", err, out.String())
	}
	var sites []bceSite
	seen := map[string]bool{}
	for _, line := range strings.Split(out.String(), "\n") {
		m := bceRe.FindStringSubmatch(strings.TrimSpace(line))
		if m == nil {
			continue
		}
		if seen[line] {
			continue
		}
		seen[line] = true
		ln, _ := strconv.Atoi(m[2])
		col, _ := strconv.Atoi(m[3])
		f := m[1]
		if !filepath.IsAbs(f) {
			f = filepath.Join(repo, f)
		}
		f = filepath.Clean(f)
		// bounds checks inside generic standard-library code instantiated by the module (slices.Sort → zsortordered.go)
		// are the library's, not the module's: only files of the repository are the module's obligations
		if rel, err := filepath.Rel(repo, f); err != nil || strings.HasPrefix(rel, "..") {
			continue
		}
		if _, err := os.Stat(f); err != nil {
			continue
		}
		sites = append(sites, bceSite{f, ln, col, m[4]})
	}
	return sites, nil
}

// invariants: index expressions that are safe because of a data-structure invariant, one reason each.
// Keyed by function id + expression text; the entry only applies while the structural side
// conditions named in the recognisers below still hold.
var bceInvariants = map[string]string{
}

func ruleNIL4(w *World) []Ob {
	l := &obs{rule: "NIL-4"}
	for _, cfgp := range []struct {
		c Config
		p *Prog
	}{{cfgD, w.D()}, {cfgW, w.W()}} {
		p := cfgp.p
		l.cfg = cfgp.c.Name
		sites, err := runBCE(w.Repo, cfgp.c)
		if err != nil {
			l.undecided("-", "compiler bounds-check listing", "-", err.Error(), "bce")
			continue
		}
		sort.Slice(sites, func(i, j int) bool {
			if sites[i].file != sites[j].file {
				return sites[i].file < sites[j].file
			}
			if sites[i].line != sites[j].line {
				return sites[i].line < sites[j].line
			}
			return sites[i].col < sites[j].col
		})
		num := map[string]numbered{}
		for _, s := range sites {
			if cfgp.c.Name == "W" && fileInD(w, s.file) {
				continue
			}
			file, pk := fileByName(p, s.file)
			if file == nil {
				l.undecided("-", fmt.Sprintf("bounds check in %s", filepath.Base(s.file)), fmt.Sprintf("%s:%d", filepath.Base(s.file), s.line), "source file not among the loaded packages", "bce")
				continue
			}
			expr, fd, path := indexExprAt(p, file, s)
			fid := "-"
			if fd != nil {
				fid = funcDeclID(pk.Types, fd)
			}
			if num[fid] == nil {
				num[fid] = numbered{}
			}
			pos := fmt.Sprintf("%s:%d", strings.TrimPrefix(s.file, w.Repo+"/"), s.line)
			if expr == nil {
				// an inlined copy: the position is that of a call to a module function
				if call := enclosingModuleCall(pk, file, s, p); call != "" {
					l.ok(fid, num[fid].name("inlined bounds check of "+call), pos, "the compiler repeats the callee's check at the inlined call site; the obligation is discharged in the callee", false, "bce-inlined")
				} else {
					l.undecided(fid, num[fid].name("bounds check"), pos, "no index or slice expression found at the reported position", "bce")
				}
				continue
			}
			text := types.ExprString(expr)
			construct := num[fid].name("index " + text)
			if why, ok := dischargeIndex(p, pk, expr, fd, path); ok {
				l.ok(fid, construct, pos, why, true, "bce")
				continue
			}
			var lb token.Pos
			switch e := expr.(type) {
			case *ast.IndexExpr:
				lb = e.Lbrack
			case *ast.SliceExpr:
				lb = e.Lbrack
			}
			if in := ssaIndexAt(p, lb); in != nil {
				if why, ok := dischargeIndexSSA(p, in); ok {
					l.ok(fid, construct, pos, why, true, "bce")
					continue
				}
			}
			if why, ok := bceInvariants[fid+" | "+text]; ok {
				l.ok(fid, construct, pos, "invariant (named): "+why, true, "bce")
				continue
			}
			l.bad(fid, construct, pos, "the compiler cannot prove this index in range and no recognised guard (range over the same slice, len test, make(len)) or named invariant covers it: possible run-time panic", "bce")
		}
	}
	// results of container/list navigation are nil on an empty list / at the ends
	eachModFunc(w, func(p *Prog, fn *ssa.Function) {
		if scopeOf(p, fn) == "cli" {
			return
		}
		l.cfg = p.Cfg.Name
		nc := newNilCtx(p)
		num := numbered{}
		allInstrs(fn, func(in ssa.Instruction) {
			c, ok := in.(*ssa.Call)
			if !ok {
				return
			}
			switch calleeFullName(c.Common()) {
			case "(*container/list.List).Back", "(*container/list.List).Front", "(*container/list.Element).Next", "(*container/list.Element).Prev":
			default:
				return
			}
			construct := num.name("possibly nil " + calleeString(c.Common()))
			var bad []string
			for _, r := range *c.Referrers() {
				switch x := r.(type) {
				case *ssa.FieldAddr:
					if !guardedNonNil(c, x) {
						bad = append(bad, p.InstrPos(x))
					}
				case *ssa.Field:
					if !guardedNonNil(c, x) {
						bad = append(bad, p.InstrPos(x))
					}
				}
			}
			_ = nc
			if len(bad) > 0 {
				l.bad(p.FuncID(fn), construct, p.InstrPos(c), "the element returned by the list (nil when the list is empty) is dereferenced at "+strings.Join(bad, ", ")+" without a nil test", "listnil")
			} else {
				l.ok(p.FuncID(fn), construct, p.InstrPos(c), "dereferenced only after a nil test (or only handed to list methods)", true, "listnil")
			}
		})
	})
	// type assertions and divisions (SSA)
	eachModFunc(w, func(p *Prog, fn *ssa.Function) {
		if scopeOf(p, fn) == "cli" {
			return
		}
		l.cfg = p.Cfg.Name
		fid := p.FuncID(fn)
		num := numbered{}
		allInstrs(fn, func(in ssa.Instruction) {
			switch x := in.(type) {
			case *ssa.TypeAssert:
				if x.CommaOk {
					return
				}
				construct := num.name("assert " + describeValue(x.X) + ".(" + relType(x.AssertedType) + ")")
				if why, ok := dischargeAssert(p, x); ok {
					l.ok(fid, construct, p.InstrPos(x), why, true, "assert")
				} else {
					l.bad(fid, construct, p.InstrPos(x), "non-comma-ok type assertion whose operand is not proven to hold the asserted type: "+why, "assert")
				}
			case *ssa.BinOp:
				if x.Op != token.QUO && x.Op != token.REM {
					return
				}
				if b, ok := x.Type().Underlying().(*types.Basic); !ok || b.Info()&types.IsInteger == 0 {
					return
				}
				construct := num.name("divide " + describeValue(x.X) + " " + x.Op.String() + " " + describeValue(x.Y))
				if n, ok := constInt(x.Y); ok && n != 0 {
					l.ok(fid, construct, p.InstrPos(x), "constant non-zero divisor", false, "div")
					return
				}
				if why, ok := divisorNonZero(x); ok {
					l.ok(fid, construct, p.InstrPos(x), why, true, "div")
				} else {
					l.bad(fid, construct, p.InstrPos(x), "integer division whose divisor is not compared with zero on a dominating branch", "div")
				}
			}
		})
	})
	return l.list
}

func fileByName(p *Prog, name string) (*ast.File, *packages.Package) {
	for _, pk := range p.ModPkgs {
		for i, f := range pk.CompiledGoFiles {
			if filepath.Clean(f) == name && i < len(pk.Syntax) {
				return pk.Syntax[i], pk
			}
		}
	}
	return nil, nil
}

// indexExprAt finds the IndexExpr/SliceExpr whose '[' is at the reported position.
func indexExprAt(p *Prog, file *ast.File, s bceSite) (ast.Expr, *ast.FuncDecl, []ast.Node) {
	var found ast.Expr
	var fdFound *ast.FuncDecl
	var pathFound []ast.Node
	var stack []ast.Node
	var curFD *ast.FuncDecl
	ast.Inspect(file, func(n ast.Node) bool {
		if n == nil {
			stack = stack[:len(stack)-1]
			return true
		}
		stack = append(stack, n)
		if fd, ok := n.(*ast.FuncDecl); ok {
			curFD = fd
		}
		var lb token.Pos
		switch x := n.(type) {
		case *ast.IndexExpr:
			lb = x.Lbrack
		case *ast.SliceExpr:
			lb = x.Lbrack
		default:
			return true
		}
		ps := p.Fset.Position(lb)
		if ps.Line == s.line && ps.Column == s.col {
			found = n.(ast.Expr)
			fdFound = curFD
			pathFound = append([]ast.Node{}, stack...)
		}
		return true
	})
	if found == nil {
		// the enclosing function, for naming
		ast.Inspect(file, func(n ast.Node) bool {
			if fd, ok := n.(*ast.FuncDecl); ok {
				a, b := p.Fset.Position(fd.Pos()).Line, p.Fset.Position(fd.End()).Line
				if a <= s.line && s.line <= b {
					fdFound = fd
				}
			}
			return true
		})
	}
	return found, fdFound, pathFound
}

func enclosingModuleCall(pk *packages.Package, file *ast.File, s bceSite, p *Prog) string {
	name := ""
	ast.Inspect(file, func(n ast.Node) bool {
		call, ok := n.(*ast.CallExpr)
		if !ok {
			return true
		}
		a, b := p.Fset.Position(call.Pos()), p.Fset.Position(call.End())
		if a.Line > s.line || b.Line < s.line {
			return true
		}
		if a.Line == s.line && a.Column > s.col || b.Line == s.line && b.Column < s.col {
			return true
		}
		var id *ast.Ident
		switch f := call.Fun.(type) {
		case *ast.Ident:
			id = f
		case *ast.SelectorExpr:
			id = f.Sel
		}
		if id != nil {
			if fn, ok := pk.TypesInfo.Uses[id].(*types.Func); ok && fn.Pkg() != nil {
				if strings.HasPrefix(fn.Pkg().Path(), modulePath) {
					name = fn.Name()
				} else if name == "" {
					// an inlined function of another package (bytes.Buffer.Bytes → b.buf[b.off:]): that package's own
					// invariant, not an index expression of the module
					name = fn.Pkg().Path() + "." + fn.Name() + " (library code inlined here)"
				}
			}
		}
		return true
	})
	return name
}

// dischargeIndex applies the structural recognisers.
func dischargeIndex(p *Prog, pk *packages.Package, e ast.Expr, fd *ast.FuncDecl, path []ast.Node) (string, bool) {
	ix, ok := e.(*ast.IndexExpr)
	if !ok {
		// slice expression l[0:1] etc.: guarded by a len test on the same operand
		if sl, ok := e.(*ast.SliceExpr); ok {
			return dischargeSlice(p, pk, sl, path)
		}
		return "", false
	}
	xs := types.ExprString(ix.X)
	// R2: strings.Split(s, sep)[0]
	if call, ok := ix.X.(*ast.CallExpr); ok {
		if isPkgFunc(pk, call.Fun, "strings", "Split") && isConstInt(pk, ix.Index, 0) && len(call.Args) == 2 {
			if tv, ok := pk.TypesInfo.Types[call.Args[1]]; ok && tv.Value != nil && tv.Value.ExactString() != `""` {
				return "strings.Split with a non-empty separator always returns at least one element", true
			}
			if guardNonEmpty(pk, call.Args[0], path) {
				return "strings.Split(s, \"\")[0] under a dominating len(s) != 0 test: a non-empty string splits into at least one element", true
			}
			return "", false
		}
	}
	idx, ok := ix.Index.(*ast.Ident)
	if !ok {
		return "", false
	}
	obj := pk.TypesInfo.Uses[idx]
	if obj == nil {
		return "", false
	}
	// follow `i := i` copies (captured loop variables)
	keyObj := obj
	if fd != nil {
		ast.Inspect(fd.Body, func(n ast.Node) bool {
			as, ok := n.(*ast.AssignStmt)
			if !ok || as.Tok != token.DEFINE || len(as.Lhs) != 1 || len(as.Rhs) != 1 {
				return true
			}
			l, ok1 := as.Lhs[0].(*ast.Ident)
			r, ok2 := as.Rhs[0].(*ast.Ident)
			if ok1 && ok2 && pk.TypesInfo.Defs[l] == obj {
				if ro := pk.TypesInfo.Uses[r]; ro != nil && countAssignments(pk, fd, obj) == 0 {
					keyObj = ro
				}
			}
			return true
		})
	}
	// enclosing range statements (innermost first)
	for i := len(path) - 1; i >= 0; i-- {
		rs, ok := path[i].(*ast.RangeStmt)
		if !ok {
			continue
		}
		k, ok := rs.Key.(*ast.Ident)
		if !ok || pk.TypesInfo.Defs[k] != keyObj {
			continue
		}
		rx := types.ExprString(rs.X)
		if rx == xs {
			if why := modifiedInBody(p, pk, rs.Body, ix.X); why != "" {
				return "", false
			}
			return "index is the key of `for " + k.Name + " := range " + rx + "` over the same slice, which the loop body does not modify", true
		}
		// R5: X was made with len(rangeExpr)
		if fd != nil && madeWithLenOf(pk, fd, ix.X, rs.X) {
			if why := modifiedInBody(p, pk, rs.Body, rs.X); why == "" {
				return "index ranges over " + rx + " and " + xs + " was allocated with make(…, len(" + rx + "))", true
			}
		}
	}
	// R6: X[len(X)-1] via an identifier defined once, with X = v.parent.children under v.parent != nil
	if fd != nil {
		if def := singleDefinition(pk, fd, keyObj); def != nil {
			if be, ok := def.(*ast.BinaryExpr); ok && be.Op == token.SUB && isConstInt(pk, be.Y, 1) {
				if call, ok := be.X.(*ast.CallExpr); ok && len(call.Args) == 1 {
					if id, ok := call.Fun.(*ast.Ident); ok && id.Name == "len" && types.ExprString(call.Args[0]) == xs {
						if strings.HasSuffix(xs, ".parent.children") {
							base := strings.TrimSuffix(xs, ".children")
							if guardNotNilReturn(pk, fd, base) {
								return "last element X[len(X)-1] of " + xs + " after " + base + " != nil was established; invariant (PAIR-2): a node with a parent is an element of parent.children, so the slice is non-empty", true
							}
						}
					}
				}
			}
		}
	}
	return "", false
}

func dischargeSlice(p *Prog, pk *packages.Package, sl *ast.SliceExpr, path []ast.Node) (string, bool) {
	// l[a:b] with constant bounds b ≤ n under a guard len(l) != 0 (b ≤ 1) on the same operand
	hi := int64(-1)
	if sl.High != nil {
		if tv, ok := pk.TypesInfo.Types[sl.High]; ok && tv.Value != nil {
			if v, err := strconv.ParseInt(tv.Value.ExactString(), 10, 64); err == nil {
				hi = v
			}
		}
	}
	if hi == 1 || hi == 0 {
		if hi == 0 || guardNonEmptyEarlyReturn(pk, sl.X, path) {
			return "constant slice bound ≤ 1 after len(x) == 0 returned early", true
		}
	}
	return "", false
}

func isPkgFunc(pk *packages.Package, fun ast.Expr, pkg, name string) bool {
	sel, ok := fun.(*ast.SelectorExpr)
	if !ok {
		return false
	}
	f, ok := pk.TypesInfo.Uses[sel.Sel].(*types.Func)
	return ok && f.Pkg() != nil && f.Pkg().Path() == pkg && f.Name() == name
}

func isConstInt(pk *packages.Package, e ast.Expr, n int64) bool {
	tv, ok := pk.TypesInfo.Types[e]
	if !ok || tv.Value == nil {
		return false
	}
	return tv.Value.ExactString() == strconv.FormatInt(n, 10)
}

// guardNonEmpty: an enclosing if statement whose condition is len(s) != 0 / len(s) > 0 / s != "" and
// the expression lies in its then-branch.
func guardNonEmpty(pk *packages.Package, s ast.Expr, path []ast.Node) bool {
	want := types.ExprString(s)
	for i := len(path) - 1; i >= 1; i-- {
		iff, ok := path[i-1].(*ast.IfStmt)
		if !ok || path[i] != ast.Node(iff.Body) {
			continue
		}
		if condNonEmpty(pk, iff.Cond, want) {
			return true
		}
	}
	return false
}

func condNonEmpty(pk *packages.Package, cond ast.Expr, want string) bool {
	be, ok := cond.(*ast.BinaryExpr)
	if !ok {
		return false
	}
	if be.Op == token.LAND {
		return condNonEmpty(pk, be.X, want) || condNonEmpty(pk, be.Y, want)
	}
	isLen := func(e ast.Expr) bool {
		c, ok := e.(*ast.CallExpr)
		if !ok || len(c.Args) != 1 {
			return false
		}
		id, ok := c.Fun.(*ast.Ident)
		return ok && id.Name == "len" && types.ExprString(c.Args[0]) == want
	}
	switch {
	case isLen(be.X) && isConstInt(pk, be.Y, 0) && (be.Op == token.NEQ || be.Op == token.GTR):
		return true
	case isLen(be.Y) && isConstInt(pk, be.X, 0) && (be.Op == token.NEQ || be.Op == token.LSS):
		return true
	case isLen(be.X) && isConstInt(pk, be.Y, 1) && be.Op == token.GEQ:
		return true
	}
	if types.ExprString(be.X) == want && be.Op == token.NEQ {
		if tv, ok := pk.TypesInfo.Types[be.Y]; ok && tv.Value != nil && tv.Value.ExactString() == `""` {
			return true
		}
	}
	return false
}

// guardNonEmptyEarlyReturn: a preceding statement `if len(x) == 0 { return … }` in an enclosing block.
func guardNonEmptyEarlyReturn(pk *packages.Package, x ast.Expr, path []ast.Node) bool {
	want := types.ExprString(x)
	for i := len(path) - 1; i >= 1; i-- {
		blk, ok := path[i-1].(*ast.BlockStmt)
		if !ok {
			continue
		}
		for _, st := range blk.List {
			if st == path[i] {
				break
			}
			iff, ok := st.(*ast.IfStmt)
			if !ok || iff.Else != nil || len(iff.Body.List) == 0 {
				continue
			}
			if _, isRet := iff.Body.List[len(iff.Body.List)-1].(*ast.ReturnStmt); !isRet {
				continue
			}
			be, ok := iff.Cond.(*ast.BinaryExpr)
			if !ok || be.Op != token.EQL {
				continue
			}
			if c, ok := be.X.(*ast.CallExpr); ok && len(c.Args) == 1 {
				if id, ok := c.Fun.(*ast.Ident); ok && id.Name == "len" && types.ExprString(c.Args[0]) == want && isConstInt(pk, be.Y, 0) {
					return true
				}
			}
		}
	}
	return false
}

// guardNotNilReturn: the function starts (top-level statements) with `if <base> == nil { return … }`.
func guardNotNilReturn(pk *packages.Package, fd *ast.FuncDecl, base string) bool {
	for _, st := range fd.Body.List {
		iff, ok := st.(*ast.IfStmt)
		if !ok {
			continue
		}
		be, ok := iff.Cond.(*ast.BinaryExpr)
		if !ok || be.Op != token.EQL {
			continue
		}
		if types.ExprString(be.X) == base && types.ExprString(be.Y) == "nil" && len(iff.Body.List) > 0 {
			if _, isRet := iff.Body.List[len(iff.Body.List)-1].(*ast.ReturnStmt); isRet {
				return true
			}
		}
	}
	return false
}

func countAssignments(pk *packages.Package, fd *ast.FuncDecl, obj types.Object) int {
	n := 0
	ast.Inspect(fd.Body, func(nd ast.Node) bool {
		switch x := nd.(type) {
		case *ast.AssignStmt:
			if x.Tok == token.DEFINE {
				return true
			}
			for _, l := range x.Lhs {
				if id, ok := l.(*ast.Ident); ok && pk.TypesInfo.Uses[id] == obj {
					n++
				}
			}
		case *ast.IncDecStmt:
			if id, ok := x.X.(*ast.Ident); ok && pk.TypesInfo.Uses[id] == obj {
				n++
			}
		}
		return true
	})
	return n
}

func singleDefinition(pk *packages.Package, fd *ast.FuncDecl, obj types.Object) ast.Expr {
	var def ast.Expr
	n := 0
	ast.Inspect(fd.Body, func(nd ast.Node) bool {
		as, ok := nd.(*ast.AssignStmt)
		if !ok {
			return true
		}
		for i, l := range as.Lhs {
			id, ok := l.(*ast.Ident)
			if !ok {
				continue
			}
			if pk.TypesInfo.Defs[id] == obj || pk.TypesInfo.Uses[id] == obj {
				n++
				if len(as.Lhs) == len(as.Rhs) {
					def = as.Rhs[i]
				}
			}
		}
		return true
	})
	if n == 1 && countAssignments(pk, fd, obj) == 0 {
		return def
	}
	return nil
}

// modifiedInBody: does the loop body assign to x (or a prefix of it), or call a module function
// on x's base object that writes the indexed field?
func modifiedInBody(p *Prog, pk *packages.Package, body *ast.BlockStmt, x ast.Expr) string {
	xs := types.ExprString(x)
	base := xs
	if i := strings.Index(base, "."); i >= 0 {
		base = base[:i]
	}
	field := ""
	if sel, ok := x.(*ast.SelectorExpr); ok {
		field = sel.Sel.Name
	}
	why := ""
	ast.Inspect(body, func(n ast.Node) bool {
		switch s := n.(type) {
		case *ast.AssignStmt:
			for _, l := range s.Lhs {
				ls := types.ExprString(l)
				if ls == xs || strings.HasPrefix(xs, ls+".") || strings.HasPrefix(ls, xs+"[") && false {
					why = "assignment to " + ls
				}
			}
		case *ast.CallExpr:
			// method call on the base object, or base passed as argument, to a module function writing the field
			var fn *types.Func
			var recv string
			switch f := s.Fun.(type) {
			case *ast.SelectorExpr:
				if o, ok := pk.TypesInfo.Uses[f.Sel].(*types.Func); ok {
					fn = o
					recv = types.ExprString(f.X)
				}
			case *ast.Ident:
				if o, ok := pk.TypesInfo.Uses[f].(*types.Func); ok {
					fn = o
				}
			}
			if fn == nil || fn.Pkg() == nil || !strings.HasPrefix(fn.Pkg().Path(), modulePath) {
				return true
			}
			touches := recv == base
			for _, a := range s.Args {
				if types.ExprString(a) == base {
					touches = true
				}
			}
			if touches && field != "" {
				if sf := p.SSA.FuncValue(fn); sf != nil && writesFieldTransitively(p, sf, field, map[*ssa.Function]bool{}) {
					why = "call of " + fn.Name() + " on " + base + " which writes ." + field
				}
			}
		}
		return true
	})
	return why
}

func writesFieldTransitively(p *Prog, fn *ssa.Function, field string, seen map[*ssa.Function]bool) bool {
	if seen[fn] || fn.Blocks == nil {
		return false
	}
	seen[fn] = true
	found := false
	allInstrs(fn, func(in ssa.Instruction) {
		if found {
			return
		}
		switch x := in.(type) {
		case *ssa.Store:
			if fa, ok := x.Addr.(*ssa.FieldAddr); ok {
				if _, f, _ := fieldOf(fa); f == field {
					found = true
				}
			}
		case ssa.CallInstruction:
			for _, g := range p.ModCallees(x) {
				if writesFieldTransitively(p, g, field, seen) {
					found = true
				}
			}
		}
	})
	return found
}

func madeWithLenOf(pk *packages.Package, fd *ast.FuncDecl, x, ranged ast.Expr) bool {
	xs, rs := types.ExprString(x), types.ExprString(ranged)
	ok := false
	n := 0
	ast.Inspect(fd.Body, func(nd ast.Node) bool {
		as, isAs := nd.(*ast.AssignStmt)
		if !isAs || len(as.Lhs) != len(as.Rhs) {
			return true
		}
		for i, l := range as.Lhs {
			if types.ExprString(l) != xs {
				continue
			}
			n++
			call, isCall := as.Rhs[i].(*ast.CallExpr)
			if !isCall || len(call.Args) != 2 {
				continue
			}
			if id, isID := call.Fun.(*ast.Ident); !isID || id.Name != "make" {
				continue
			}
			if lc, isLen := call.Args[1].(*ast.CallExpr); isLen && len(lc.Args) == 1 {
				if id, isID := lc.Fun.(*ast.Ident); isID && id.Name == "len" && types.ExprString(lc.Args[0]) == rs {
					ok = true
				}
			}
		}
		return true
	})
	return ok && n == 1
}

// dischargeAssert: x.(T) without comma-ok.
func dischargeAssert(p *Prog, ta *ssa.TypeAssert) (string, bool) {
	v := resolve(ta.X)
	// field Value of a container/list element
	if ld, isL := isLoad(stripConv(v)); isL {
		if fa, isFA := ld.(*ssa.FieldAddr); isFA {
			if tn, f, _ := fieldOf(fa); tn == "Element" && f == "Value" {
				return listHoldsOnly(p, ta)
			}
		}
	}
	if ex, isEx := v.(*ssa.Extract); isEx {
		if c2, isC := ex.Tuple.(*ssa.Call); isC && ex.Index == 0 {
			switch calleeFullName(c2.Common()) {
			case "(*sync.Map).Load", "(*sync.Map).LoadOrStore", "(*sync.Map).LoadAndDelete", "(*sync.Map).Swap":
				return syncMapHoldsOnly(p, ta)
			}
		}
	}
	call, ok := v.(*ssa.Call)
	if !ok {
		return "operand is " + describeValue(ta.X), false
	}
	com := call.Common()
	name := calleeFullName(com)
	if name == "(*container/list.List).Remove" {
		return listHoldsOnly(p, ta)
	}
	if false {
		n, bad := 0, ""
		for _, fn := range p.ModFuncs {
			allInstrs(fn, func(in ssa.Instruction) {
				c, ok := in.(ssa.CallInstruction)
				if !ok {
					return
				}
				switch calleeFullName(c.Common()) {
				case "(*container/list.List).PushBack", "(*container/list.List).PushFront":
					n++
					mi, ok := c.Common().Args[1].(*ssa.MakeInterface)
					if !ok || !types.Identical(mi.X.Type(), ta.AssertedType) {
						bad = "a value of another type is pushed at " + p.InstrPos(in)
					}
				case "(*container/list.List).InsertBefore", "(*container/list.List).InsertAfter", "(*container/list.List).PushBackList", "(*container/list.List).PushFrontList":
					bad = "list insertion not analysed at " + p.InstrPos(in)
				}
			})
		}
		if bad == "" && n > 0 {
			return fmt.Sprintf("all %d insertion(s) into container/list lists in the module push a %s", n, relType(ta.AssertedType)), true
		}
		return bad, false
	}
	if name == "(*sync.Pool).Get" {
		// every sync.Pool in the module has a New function returning the asserted type and receives only that type through Put
		okNew, bad := false, ""
		for _, fn := range p.ModFuncs {
			allInstrs(fn, func(in ssa.Instruction) {
				switch x := in.(type) {
				case *ssa.Store:
					if fa, ok := x.Addr.(*ssa.FieldAddr); ok {
						if tn, f, _ := fieldOf(fa); tn == "Pool" && f == "New" {
							if mk, ok := stripConv(x.Val).(*ssa.MakeClosure); ok {
								allInstrs(mk.Fn.(*ssa.Function), func(in2 ssa.Instruction) {
									if r, ok := in2.(*ssa.Return); ok {
										if mi, ok := rr(r)[0].(*ssa.MakeInterface); ok && types.Identical(mi.X.Type(), ta.AssertedType) {
											okNew = true
										} else {
											bad = "Pool.New returns another type"
										}
									}
								})
							} else if f2, ok := stripConv(x.Val).(*ssa.Function); ok {
								allInstrs(f2, func(in2 ssa.Instruction) {
									if r, ok := in2.(*ssa.Return); ok {
										if mi, ok := rr(r)[0].(*ssa.MakeInterface); ok && types.Identical(mi.X.Type(), ta.AssertedType) {
											okNew = true
										} else {
											bad = "Pool.New returns another type"
										}
									}
								})
							}
						}
					}
				case ssa.CallInstruction:
					if calleeFullName(x.Common()) == "(*sync.Pool).Put" {
						if mi, ok := x.Common().Args[1].(*ssa.MakeInterface); !ok || !types.Identical(mi.X.Type(), ta.AssertedType) {
							bad = "a value of another type is Put at " + p.InstrPos(in)
						}
					}
				}
			})
		}
		if okNew && bad == "" {
			return "sync.Pool whose New and every Put supply a " + relType(ta.AssertedType), true
		}
		if bad == "" {
			bad = "no Pool.New of the asserted type found"
		}
		return bad, false
	}
	callees := p.ModCallees(call)
	if len(callees) == 0 {
		return "callee " + calleeString(com) + " is not a module function", false
	}
	for _, f := range callees {
		idx := 0
		okAll, n := true, 0
		allInstrs(f, func(in ssa.Instruction) {
			r, ok := in.(*ssa.Return)
			if !ok || len(rr(r)) <= idx {
				return
			}
			n++
			rv := rr(r)[idx]
			mi, ok := rv.(*ssa.MakeInterface)
			if !ok || !types.Identical(mi.X.Type(), ta.AssertedType) {
				// index into a typed slice etc.: accept when the static type of the underlying value is identical
				if ci, ok := rv.(*ssa.ChangeInterface); ok {
					_ = ci
				}
				okAll = false
			}
		})
		if !okAll || n == 0 {
			return "callee " + relFunc(f) + " does not return a " + relType(ta.AssertedType) + " on every path", false
		}
	}
	return "every return of " + calleeString(com) + " wraps a value of exactly the asserted type", true
}

// divisorNonZero: the divisor (a load of some variable/field) is compared with a constant on a
// dominating branch in a way that excludes zero.
func divisorNonZero(b *ssa.BinOp) (string, bool) {
	d := b.Y
	for _, g := range guardsOf(b.Block()) {
		c, pol := flattenCond(g.Cond, g.Pol)
		cmp, ok := c.(*ssa.BinOp)
		if !ok {
			continue
		}
		var other ssa.Value
		op := cmp.Op
		if sameValueAt(cmp.X, g, d, b) {
			other = cmp.Y
		} else if sameValueAt(cmp.Y, g, d, b) {
			other = cmp.X
			op = flipOp(op)
		} else {
			continue
		}
		k, ok := constInt(other)
		if !ok {
			continue
		}
		if !pol {
			op = negateOp(op)
		}
		// now: d op k holds
		switch {
		case op == token.NEQ && k == 0, op == token.GTR && k >= 0, op == token.GEQ && k >= 1, op == token.LSS && k <= 0, op == token.LEQ && k <= -1, op == token.EQL && k != 0:
			return fmt.Sprintf("a dominating branch establishes divisor %s %d", op, k), true
		}
	}
	return "", false
}

func flipOp(op token.Token) token.Token {
	switch op {
	case token.LSS:
		return token.GTR
	case token.GTR:
		return token.LSS
	case token.LEQ:
		return token.GEQ
	case token.GEQ:
		return token.LEQ
	}
	return op
}

func negateOp(op token.Token) token.Token {
	switch op {
	case token.EQL:
		return token.NEQ
	case token.NEQ:
		return token.EQL
	case token.LSS:
		return token.GEQ
	case token.GEQ:
		return token.LSS
	case token.GTR:
		return token.LEQ
	case token.LEQ:
		return token.GTR
	}
	return op
}


// listHoldsOnly: every element put into any container/list in the module has the asserted type.
func listHoldsOnly(p *Prog, ta *ssa.TypeAssert) (string, bool) {
	n, bad := 0, ""
	for _, fn := range p.ModFuncs {
		allInstrs(fn, func(in ssa.Instruction) {
			c, ok := in.(ssa.CallInstruction)
			if !ok {
				return
			}
			switch calleeFullName(c.Common()) {
			case "(*container/list.List).PushBack", "(*container/list.List).PushFront":
				n++
				mi, ok := c.Common().Args[1].(*ssa.MakeInterface)
				if !ok || !types.Identical(mi.X.Type(), ta.AssertedType) {
					bad = "a value of another type is pushed at " + p.InstrPos(in)
				}
			case "(*container/list.List).InsertBefore", "(*container/list.List).InsertAfter", "(*container/list.List).PushBackList", "(*container/list.List).PushFrontList":
				bad = "list insertion not analysed at " + p.InstrPos(in)
			}
		})
	}
	if bad == "" && n > 0 {
		return fmt.Sprintf("all %d insertion(s) into container/list lists in the module push a %s", n, relType(ta.AssertedType)), true
	}
	if bad == "" {
		bad = "no list insertion found"
	}
	return bad, false
}

// syncMapHoldsOnly: every value stored into any sync.Map in the module has the asserted type.
func syncMapHoldsOnly(p *Prog, ta *ssa.TypeAssert) (string, bool) {
	n, bad := 0, ""
	for _, fn := range p.ModFuncs {
		allInstrs(fn, func(in ssa.Instruction) {
			c, ok := in.(ssa.CallInstruction)
			if !ok {
				return
			}
			switch calleeFullName(c.Common()) {
			case "(*sync.Map).Store", "(*sync.Map).LoadOrStore", "(*sync.Map).Swap":
				n++
				mi, ok := c.Common().Args[2].(*ssa.MakeInterface)
				if !ok || !types.Identical(mi.X.Type(), ta.AssertedType) {
					bad = "a value of another type is stored at " + p.InstrPos(in)
				}
			case "(*sync.Map).CompareAndSwap":
				bad = "CompareAndSwap not analysed at " + p.InstrPos(in)
			}
		})
	}
	if bad == "" && n > 0 {
		return fmt.Sprintf("all %d store(s) into sync.Map values in the module store a %s", n, relType(ta.AssertedType)), true
	}
	if bad == "" {
		bad = "no sync.Map store found"
	}
	return bad, false
}
