package main

// SSA-level recognisers for NIL-4: tried when the syntactic recognisers of rules_bce.go do not apply.  They
// reason over dominating branch conditions (guardsOf), so the spelling of the guard (if / else / switch / early
// return / && chain / local alias) does not matter.

import (
	"go/token"
	"fmt"
	"go/types"

	"golang.org/x/tools/go/ssa"
)

// ssaIndexAt finds the IndexAddr / Index instruction whose '[' is at the given position.
func ssaIndexAt(p *Prog, lbrack token.Pos) ssa.Instruction {
	var found ssa.Instruction
	for _, fn := range p.ModFuncs {
		if fn.Pos() == token.NoPos {
			continue
		}
		allInstrs(fn, func(in ssa.Instruction) {
			switch in.(type) {
			case *ssa.IndexAddr, *ssa.Index, *ssa.Slice:
				if in.Pos() == lbrack && found == nil {
					found = in
				}
			}
		})
		if found != nil {
			break
		}
	}
	return found
}

func indexOperands(in ssa.Instruction) (x, idx ssa.Value) {
	switch i := in.(type) {
	case *ssa.IndexAddr:
		return i.X, i.Index
	case *ssa.Index:
		return i.X, i.Index
	}
	return nil, nil
}

func lenArg(v ssa.Value) ssa.Value {
	if c, ok := stripConv(v).(*ssa.Call); ok {
		if b, ok := c.Common().Value.(*ssa.Builtin); ok && b.Name() == "len" && len(c.Common().Args) == 1 {
			return c.Common().Args[0]
		}
	}
	return nil
}

// sameSliceAt: a and b denote the same slice value at instruction use (identical value, or two loads of the same
// cell with no store in between).
func sameSliceAt(a, b ssa.Value, use ssa.Instruction) bool {
	a, b = stripConv(a), stripConv(b)
	if a == b {
		return true
	}
	la, ok1 := isLoad(a)
	lb, ok2 := isLoad(b)
	if ok1 && ok2 {
		k1, k2 := cellKey(la), cellKey(lb)
		if k1 != "" && k1 == k2 {
			return true
		}
	}
	return false
}

// nonEmptyAt: a dominating condition establishes len(s) >= 1 (or s != "") at use.
func nonEmptyAt(s ssa.Value, use ssa.Instruction) bool {
	for _, g := range guardsOf(use.Block()) {
		c, pol := flattenCond(g.Cond, g.Pol)
		b, ok := c.(*ssa.BinOp)
		if !ok {
			continue
		}
		op := b.Op
		x, y := b.X, b.Y
		if lenArg(y) != nil || isEmptyStringConst(x) {
			x, y = y, x
			op = flipOp(op)
		}
		if !pol {
			op = negateOp(op)
		}
		if la := lenArg(x); la != nil && sameValueAt(la, g, s, use) {
			if k, isC := constInt(y); isC {
				switch {
				case op == token.NEQ && k == 0, op == token.GTR && k >= 0, op == token.GEQ && k >= 1:
					return true
				}
			}
		}
		if isEmptyStringConst(y) && op == token.NEQ && sameValueAt(x, g, s, use) {
			return true
		}
	}
	return false
}

func isEmptyStringConst(v ssa.Value) bool {
	s, ok := constString(v)
	return ok && s == ""
}

// nonNegative: v is a loop counter that starts at a non-negative constant and only grows (phi of constants >= 0
// and itself + constant >= 0), or such a counter plus a non-negative constant (the rotated range loop counts from -1
// and adds 1 before use).
func nonNegative(v ssa.Value, depth int) bool {
	if depth > 3 {
		return false
	}
	v = stripConv(v)
	if k, ok := constInt(v); ok {
		return k >= 0
	}
	switch x := v.(type) {
	case *ssa.Phi:
		for _, e := range x.Edges {
			if k, ok := constInt(e); ok {
				if k < 0 {
					return false
				}
				continue
			}
			b, ok := e.(*ssa.BinOp)
			if !ok || b.Op != token.ADD {
				return false
			}
			k, isC := constInt(b.Y)
			if !isC || k < 0 || stripConv(b.X) != ssa.Value(x) {
				return false
			}
		}
		return true
	case *ssa.BinOp:
		if x.Op == token.ADD {
			if k, isC := constInt(x.Y); isC && k >= 1 {
				if ph, ok := stripConv(x.X).(*ssa.Phi); ok {
					// phi(-1, this)
					okAll := true
					for _, e := range ph.Edges {
						if c, isK := constInt(e); isK {
							if c < -k {
								okAll = false
							}
						} else if stripConv(e) != ssa.Value(x) {
							okAll = false
						}
					}
					return okAll
				}
				return nonNegative(x.X, depth+1)
			}
		}
	}
	return false
}

func dischargeIndexSSA(p *Prog, in ssa.Instruction) (string, bool) {
	bcePrig = p
	if sl, ok := in.(*ssa.Slice); ok {
		return dischargeSliceSSA(sl)
	}
	x, idx := indexOperands(in)
	if x == nil {
		return "", false
	}
	fn := in.Parent()
	// A: strings.Split(s, sep)[0]
	if c, ok := stripConv(x).(*ssa.Call); ok && calleeFullName(c.Common()) == "strings.Split" {
		if k, isC := constInt(idx); isC && k == 0 {
			if sep, isS := constString(c.Common().Args[1]); isS && sep != "" {
				return "strings.Split with a non-empty separator always returns at least one element", true
			}
			if nonEmptyAt(c.Common().Args[0], in) {
				return "strings.Split(s, \"\")[0] where a dominating condition establishes that s is not empty: a non-empty string splits into at least one element", true
			}
		}
		return "", false
	}
	// B: S[len(S)-1] where S = P.children, P = (something).parent proven non-nil
	if b, ok := stripConv(idx).(*ssa.BinOp); ok && b.Op == token.SUB {
		if k, isC := constInt(b.Y); isC && k == 1 {
			if s2 := lenArg(b.X); s2 != nil && sameSliceAt(x, s2, in) {
				if addr, isL := isLoad(stripConv(x)); isL {
					if fa, isFA := addr.(*ssa.FieldAddr); isFA && fieldName(fa.X.Type(), fa.Field) == "children" {
						par := fa.X
						pv := resolve(par)
						if pa, isPL := isLoad(stripConv(pv)); isPL {
							if pfa, ok := pa.(*ssa.FieldAddr); ok && fieldName(pfa.X.Type(), pfa.Field) == "parent" && (guardedNonNil(par, in) || guardedNonNil(pv, in)) {
								return "last element S[len(S)-1] of a node's parent.children under a dominating parent != nil; invariant (PAIR-2): a node with a parent is an element of parent.children, so the slice is non-empty", true
							}
						}
					}
				}
			}
		}
	}
	// C: counted loop: a dominating idx < len(S) on the same slice, idx never negative, S's cell not written between
	for _, g := range guardsOf(in.Block()) {
		c, pol := flattenCond(g.Cond, g.Pol)
		b, ok := c.(*ssa.BinOp)
		if !ok {
			continue
		}
		op, l, r := b.Op, b.X, b.Y
		if lenArg(l) != nil {
			l, r = r, l
			op = flipOp(op)
		}
		if !pol {
			op = negateOp(op)
		}
		if op != token.LSS || stripConv(l) != stripConv(idx) {
			continue
		}
		s2 := lenArg(r)
		if s2 == nil || !sameValueAt(s2, g, x, in) || !nonNegative(idx, 0) {
			continue
		}
		// calls between the test and the use must not write the slice's field
		field := ""
		if addr, isL := isLoad(stripConv(x)); isL {
			if fa, isFA := addr.(*ssa.FieldAddr); isFA {
				field = fieldName(fa.X.Type(), fa.Field)
			}
		}
		writes := false
		if field != "" {
			for blk := range blockReach(g.Succ, map[*ssa.BasicBlock]bool{}) {
				if !canReach(blk, in.Block()) {
					continue
				}
				for _, i2 := range blk.Instrs {
					if ci, isCall := i2.(ssa.CallInstruction); isCall {
						for _, callee := range p.ModCallees(ci) {
							if writesFieldTransitively(p, callee, field, map[*ssa.Function]bool{}) {
								writes = true
							}
						}
					}
				}
			}
		}
		if !writes {
			return "a dominating test idx < len(S) on the same slice, an index that starts at a non-negative constant and only grows, and no write of the slice between test and use", true
		}
	}
	// F: S[i] with i := slices.Index*(S, …) (or IndexFunc) on the same slice, on the side where i is not negative: the
	//    library returns -1 or a valid index of S
	if ic, ok := stripNum(idx).(*ssa.Call); ok && ic.Common().StaticCallee() != nil && len(ic.Common().Args) >= 1 {
		name := ic.Common().StaticCallee().String()
		if o := ic.Common().StaticCallee().Origin(); o != nil {
			name = o.String()
		}
		switch name {
		case "slices.IndexFunc", "slices.Index":
			if sameSliceAt(x, ic.Common().Args[0], in) {
				for _, g := range guardsOf(in.Block()) {
					c, pol := flattenCond(g.Cond, g.Pol)
					b, ok := c.(*ssa.BinOp)
					if !ok || stripNum(b.X) != ssa.Value(ic) {
						continue
					}
					k, isK := constInt(b.Y)
					if !isK {
						continue
					}
					op := b.Op
					if !pol {
						op = negateOp(op)
					}
					if (op == token.GEQ && k == 0) || (op == token.GTR && k == -1) || (op == token.NEQ && k == -1) {
						return name + " returns -1 or a valid index of the slice it searched; the use is on the non-negative side and indexes the same slice", true
					}
				}
			}
		}
	}
	// E: a fixed-size table indexed under a dominating call of a range predicate on the index
	//    (`if !style.valid() { return }; table[style]` with valid = `s >= 0 && int(s) < len(table)`)
	{
		var n int64 = -1
		t := x.Type()
		if pt, ok := t.Underlying().(*types.Pointer); ok {
			t = pt.Elem()
		}
		if at, ok := t.Underlying().(*types.Array); ok {
			n = at.Len()
		}
		if n > 0 {
			// the index is a small enumeration: every value it can take (constants returned by module functions, handed
			// down through parameters at every call site) lies inside the table
			if iv := p.bounds(stripNum(idx), nil, 0); iv.lo >= 0 && iv.hi < n {
				return fmt.Sprintf("a fixed-size table of %d entries indexed by a value that interval analysis over all its sources bounds to %d..%d", n, iv.lo, iv.hi), true
			}
			for _, g := range guardsOf(in.Block()) {
				c, pol := flattenCond(g.Cond, g.Pol)
				call, ok := c.(*ssa.Call)
				if !ok || !pol || call.Common().StaticCallee() == nil {
					continue
				}
				args := callArgs(call.Common())
				if len(args) != 1 || (stripNum(args[0]) != stripNum(idx) && !sameVar(stripNum(args[0]), stripNum(idx))) {
					continue
				}
				if rng, ok := predicateRange(p, call.Common().StaticCallee()); ok && rng.lo >= 0 && rng.hi < n {
					return fmt.Sprintf("a fixed-size table of %d entries indexed on the true side of %s, which holds only for %d ≤ index ≤ %d", n, relFunc(call.Common().StaticCallee()), rng.lo, rng.hi), true
				}
			}
		}
	}
	// D: index getter of a copy under construction: recv.F[i] with i the parameter
	if why, ok := indexGetterInvariant(p, fn, in); ok {
		return why, true
	}
	return "", false
}

// indexGetterInvariant: a method `recv.F[i]` (i its parameter) whose every call site passes a loop counter that
// starts at 0 and steps by 1 and, earlier in the same block, calls on the same receiver a method that appends exactly
// one element to recv.F.  With a receiver whose F is empty when the loop starts (a freshly created copy node —
// assumed, see DESIGN) len(F) == i+1 at the call.
func indexGetterInvariant(p *Prog, fn *ssa.Function, in ssa.Instruction) (string, bool) {
	x, idx := indexOperands(in)
	if fn.Signature.Recv() == nil || len(fn.Params) < 2 {
		return "", false
	}
	prm, ok := stripConv(idx).(*ssa.Parameter)
	if !ok || prm.Parent() != fn {
		return "", false
	}
	addr, isL := isLoad(stripConv(x))
	if !isL {
		return "", false
	}
	fa, ok := addr.(*ssa.FieldAddr)
	if !ok || stripConv(fa.X) != ssa.Value(fn.Params[0]) {
		return "", false
	}
	field := fieldName(fa.X.Type(), fa.Field)
	pi := paramIndex(fn, prm)
	callers := p.Callers(fn)
	if len(callers) == 0 {
		return "", false
	}
	for _, ci := range callers {
		call, ok := ci.(*ssa.Call)
		if !ok || pi >= len(call.Common().Args) {
			return "", false
		}
		iv := call.Common().Args[pi]
		if !counterFromZero(iv) {
			return "", false
		}
		recv := call.Common().Args[0]
		appended := false
		for _, i2 := range call.Block().Instrs {
			if i2 == ssa.Instruction(call) {
				break
			}
			c2, ok := i2.(*ssa.Call)
			if !ok || c2.Common().StaticCallee() == nil || len(c2.Common().Args) == 0 {
				continue
			}
			if sameVar(c2.Common().Args[0], recv) && appendsOneTo(c2.Common().StaticCallee(), field) {
				appended = true
			}
		}
		if !appended {
			return "", false
		}
	}
	return "index getter recv." + field + "[i]: every call site passes the loop counter (from 0, step 1) right after appending exactly one element to recv." + field + " in the same iteration, so len == i+1 on a copy that starts empty (the traversal pairing is SIB-4's)", true
}

// counterFromZero: phi(0, self+1), or phi(-1, self)+1 (rotated range loop).
func counterFromZero(v ssa.Value) bool {
	v = stripConv(v)
	if ph, ok := v.(*ssa.Phi); ok {
		zero, step := false, false
		for _, e := range ph.Edges {
			if k, isC := constInt(e); isC {
				if k != 0 {
					return false
				}
				zero = true
				continue
			}
			b, ok := e.(*ssa.BinOp)
			if !ok || b.Op != token.ADD || stripConv(b.X) != ssa.Value(ph) {
				return false
			}
			if k, isC := constInt(b.Y); !isC || k != 1 {
				return false
			}
			step = true
		}
		return zero && step
	}
	if b, ok := v.(*ssa.BinOp); ok && b.Op == token.ADD {
		if k, isC := constInt(b.Y); isC && k == 1 {
			if ph, ok := stripConv(b.X).(*ssa.Phi); ok {
				start, back := false, false
				for _, e := range ph.Edges {
					if c, isK := constInt(e); isK {
						if c != -1 {
							return false
						}
						start = true
					} else if stripConv(e) == ssa.Value(b) {
						back = true
					} else {
						return false
					}
				}
				return start && back
			}
		}
	}
	return false
}

// appendsOneTo: fn stores append(recv.field, <one element>) into recv.field and has no other store to it.
func appendsOneTo(fn *ssa.Function, field string) bool {
	if fn.Blocks == nil || len(fn.Params) == 0 {
		return false
	}
	n, good := 0, 0
	allInstrs(fn, func(in ssa.Instruction) {
		st, ok := in.(*ssa.Store)
		if !ok {
			return
		}
		fa, ok := st.Addr.(*ssa.FieldAddr)
		if !ok || fieldName(fa.X.Type(), fa.Field) != field {
			return
		}
		n++
		if stripConv(fa.X) != ssa.Value(fn.Params[0]) {
			return
		}
		c, ok := st.Val.(*ssa.Call)
		if !ok {
			return
		}
		b, ok := c.Common().Value.(*ssa.Builtin)
		if !ok || b.Name() != "append" || len(c.Common().Args) != 2 {
			return
		}
		if a0, isL := isLoad(stripConv(c.Common().Args[0])); !isL || cellKey(a0) != cellKey(fa) {
			return
		}
		if sl, ok := c.Common().Args[1].(*ssa.Slice); ok {
			if al, ok := sl.X.(*ssa.Alloc); ok {
				if arr, ok := al.Type().(*types.Pointer).Elem().Underlying().(*types.Array); ok && arr.Len() == 1 {
					good++
				}
			}
		}
	})
	return n == 1 && good == 1
}

// dischargeSliceSSA: S[:h] (or S[l:h] with constant l = 0) where h = len(S) - k for a constant k >= 0 and a dominating
// condition establishes h >= 0; or S[:k] with a dominating len(S) >= k.
// boundedByGuards: at instruction `at`, dominating guards establish 0 <= v and v <= len(S) (or v < len(S)).
func boundedByGuards(v ssa.Value, S ssa.Value, at ssa.Instruction) bool {
	v = stripNum(v)
	if k, isK := constInt(v); isK && k == 0 {
		return true
	}
	lower, upper := false, false
	for _, g := range guardsOf(at.Block()) {
		c, pol := flattenCond(g.Cond, g.Pol)
		b, ok := c.(*ssa.BinOp)
		if !ok {
			continue
		}
		op, x, y := b.Op, b.X, b.Y
		if !pol {
			op = negateOp(op)
		}
		if stripNum(y) == v && stripNum(x) != v {
			x, y = y, x
			op = flipOp(op)
		}
		if stripNum(x) != v {
			continue
		}
		if k, isK := constInt(y); isK {
			if (op == token.GEQ && k >= 0) || (op == token.GTR && k >= -1) {
				lower = true
			}
		}
		if la := lenArg(y); la != nil && sameSliceAt(S, la, at) {
			if op == token.LSS || op == token.LEQ {
				upper = true
			}
		}
	}
	if !lower {
		lower = nonNegative(v, 0)
	}
	return lower && upper
}

// sliceBoundFromCallers: the bound is a parameter of an unexported method; at every call site the argument is 0,
// len(S)-1 tested non-negative, or i+1 for a loop variable that runs from len(S)-1 down to 0 — S being the same field
// of the receiver handed to the call.  All of these lie between 0 and len(S).
func sliceBoundFromCallers(p *Prog, sl *ssa.Slice, bound ssa.Value) bool {
	prm, ok := stripNum(bound).(*ssa.Parameter)
	if !ok || p == nil {
		return false
	}
	fn := prm.Parent()
	if fn.Object() != nil && fn.Object().Exported() {
		return false
	}
	ld, isL := isLoad(stripConv(sl.X))
	if !isL {
		return false
	}
	fa, isFA := ld.(*ssa.FieldAddr)
	if !isFA || len(fn.Params) == 0 || !sameVar(fa.X, fn.Params[0]) {
		return false
	}
	pi := paramIndex(fn, prm)
	callers := p.Callers(fn)
	if len(callers) == 0 || pi < 0 {
		return false
	}
	isLenOfField := func(v ssa.Value, recv ssa.Value) bool {
		la := lenArg(v)
		if la == nil {
			return false
		}
		l2, ok := isLoad(stripConv(la))
		if !ok {
			return false
		}
		f2, ok := l2.(*ssa.FieldAddr)
		return ok && f2.Field == fa.Field && sameVar(f2.X, recv)
	}
	for _, ci := range callers {
		args := callArgs(ci.Common())
		if pi >= len(args) {
			return false
		}
		a := stripNum(args[pi])
		recv := args[0]
		okArg := false
		if k, isK := constInt(a); isK && k == 0 {
			okArg = true
		}
		if bo, isB := a.(*ssa.BinOp); isB {
			k, isK := constInt(bo.Y)
			switch {
			case bo.Op == token.SUB && isK && k >= 0 && isLenOfField(bo.X, recv):
				// len(S)-k, tested non-negative
				for _, g := range guardsOf(ci.(ssa.Instruction).Block()) {
					c, pol := flattenCond(g.Cond, g.Pol)
					cb, ok := c.(*ssa.BinOp)
					if !ok || stripNum(cb.X) != ssa.Value(bo) {
						continue
					}
					op := cb.Op
					if !pol {
						op = negateOp(op)
					}
					if z, isZ := constInt(cb.Y); isZ && ((op == token.GEQ && z >= 0) || (op == token.GTR && z >= -1)) {
						okArg = true
					}
				}
			case bo.Op == token.ADD && isK && k == 1:
				// i+1 with i := len(S)-1 … 0
				if ph, isPhi := stripNum(bo.X).(*ssa.Phi); isPhi {
					fromTop, stepsDown := false, false
					for _, e := range ph.Edges {
						if eb, isEB := stripNum(e).(*ssa.BinOp); isEB && eb.Op == token.SUB {
							if kk, isKK := constInt(eb.Y); isKK && kk == 1 {
								if isLenOfField(eb.X, recv) {
									fromTop = true
								}
								if stripNum(eb.X) == ssa.Value(ph) {
									stepsDown = true
								}
							}
						}
					}
					okArg = fromTop && stepsDown
				}
			}
		}
		if !okArg {
			return false
		}
	}
	return true
}

var bcePrig *Prog

func dischargeSliceSSA(sl *ssa.Slice) (string, bool) {
	if sl.Max != nil {
		return "", false
	}
	if bcePrig != nil && (sl.Low == nil || sl.High == nil) && (sl.Low != nil || sl.High != nil) {
		b := sl.Low
		if b == nil {
			b = sl.High
		}
		if sliceBoundFromCallers(bcePrig, sl, b) {
			return "the bound is a parameter of an unexported method and every call site passes 0, len(S)-1 (tested non-negative) or i+1 of a loop that runs from len(S)-1 down to 0", true
		}
	}
	// S[a:] / S[:b] / S[a:b] with each bound tested to lie between 0 and len(S) by dominating guards
	{
		okLow := sl.Low == nil || boundedByGuards(sl.Low, sl.X, sl)
		okHigh := sl.High == nil || boundedByGuards(sl.High, sl.X, sl)
		if okLow && okHigh && (sl.Low == nil || sl.High == nil) {
			if sl.Low != nil || sl.High != nil {
				return "the slice bound is tested against 0 and len(S) by dominating guards", true
			}
		}
	}
	if sl.Low != nil {
		if k, ok := constInt(sl.Low); !ok || k != 0 {
			return "", false
		}
	}
	if sl.High == nil {
		return "whole-slice expression", true
	}
	h := stripConv(sl.High)
	if b, ok := h.(*ssa.BinOp); ok && b.Op == token.SUB {
		if k, isC := constInt(b.Y); isC && k >= 0 {
			if s2 := lenArg(b.X); s2 != nil && sameSliceAt(sl.X, s2, sl) {
				if k == 0 {
					return "S[:len(S)]", true
				}
				// h >= 0 established?
				for _, g := range guardsOf(sl.Block()) {
					c, pol := flattenCond(g.Cond, g.Pol)
					cb, ok := c.(*ssa.BinOp)
					if !ok || stripConv(cb.X) != h {
						continue
					}
					op := cb.Op
					if !pol {
						op = negateOp(op)
					}
					if z, isZ := constInt(cb.Y); isZ {
						if (op == token.GEQ && z >= 0) || (op == token.GTR && z >= -1) {
							return "S[:len(S)-k] under a dominating test that len(S)-k is not negative", true
						}
					}
				}
			}
		}
	}
	return "", false
}
