package main

// PARSE / SPLIT — ordering facts of the line parser and of the massive-mode splitter that the code
// states as beliefs (comments: "learn the indentation once from the first indented line").

import (
	"go/token"
	"go/types"
	"strings"

	"golang.org/x/tools/go/ssa"
)

func init() {
	register(&Rule{ID: "PARSE-1", Doc: "parser state is learnt only from validated candidates: the store of the indentation unit (Parser.spaces) is dominated by the test that everything before the bullet is indentation; the indent character (Parser.sep) is learnt only while unset (guard p.sep == \"\") and reset only on a row without indentation", Run: rulePARSE1})
	register(&Rule{ID: "SPLIT-1", Doc: "the splitter discards nothing: a pending block is sent whenever it is non-empty (the send is guarded by nothing but 'line starts a root block', len(block) != 0 and cancellation), and the last block is sent after the loop", Run: ruleSPLIT1})
}

func rulePARSE1(w *World) []Ob {
	p := w.D()
	l := &obs{rule: "PARSE-1", cfg: "D"}
	fn := separateRowBody(p)
	if fn == nil {
		l.undecided("(*markdown.Parser).separateRow", "parser state", "-", "function not found", "learn")
		return l.list
	}
	fid := p.FuncID(fn)
	// the purity test: strings.Count(before, sep) != len(before)
	var purity *ssa.If
	allInstrs(fn, func(in ssa.Instruction) {
		iff, ok := in.(*ssa.If)
		if !ok {
			return
		}
		c, _ := flattenCond(iff.Cond, true)
		b, ok := c.(*ssa.BinOp)
		if !ok || (b.Op != token.NEQ && b.Op != token.EQL) {
			return
		}
		isCount := func(v ssa.Value) bool {
			cc, ok := v.(*ssa.Call)
			return ok && calleeFullName(cc.Common()) == "strings.Count"
		}
		isLen := func(v ssa.Value) bool {
			cc, ok := v.(*ssa.Call)
			return ok && isBuiltinCall(cc, "len")
		}
		if (isCount(b.X) && isLen(b.Y)) || (isCount(b.Y) && isLen(b.X)) {
			purity = iff
		}
	})
	nSpaces, nSep := 0, 0
	allInstrs(fn, func(in ssa.Instruction) {
		st, ok := in.(*ssa.Store)
		if !ok {
			return
		}
		fa, ok := st.Addr.(*ssa.FieldAddr)
		if !ok {
			return
		}
		tn, f, _ := fieldOf(fa)
		if tn != "Parser" {
			return
		}
		switch f {
		case "spaces":
			nSpaces++
			construct := "indentation unit learnt after the all-indentation test"
			switch {
			case purity == nil:
				l.bad(fid, construct, p.InstrPos(st), "the test that the text before the bullet consists of the indent character only (strings.Count(before, sep) vs len(before)) was not found", "learn")
			case purity.Block().Dominates(st.Block()) || (purity.Block().Idom() != nil && purity.Block().Idom().Dominates(st.Block()) && !canReachWithout(fn.Blocks[0], st.Block(), purity.Block().Idom())):
				l.ok(fid, construct, p.InstrPos(st), "the store of Parser.spaces can only be reached through the all-indentation test", true, "learn")
			default:
				l.bad(fid, construct, p.InstrPos(st), "Parser.spaces is stored before the candidate split was validated: a bullet character inside the item text can teach the parser a wrong indentation unit, and well-formed documents are then rejected", "learn")
			}
		case "sep":
			nSep++
			if s, isC := constString(st.Val); isC && s == "" {
				construct := "indent character reset only on an unindented row"
				okG := false
				for _, g := range guardsOf(st.Block()) {
					c, pol := flattenCond(g.Cond, g.Pol)
					if _, neg, ok := lenAtom(c); ok && (pol == neg) {
						okG = true // len(before) == 0 established
					}
				}
				if okG {
					l.ok(fid, construct, p.InstrPos(st), "p.sep = \"\" under len(before) == 0", true, "learn")
				} else {
					l.bad(fid, construct, p.InstrPos(st), "the indent character is reset on a row that has indentation", "learn")
				}
				return
			}
			construct := "indent character learnt once"
			okG := false
			for _, g := range guardsOf(st.Block()) {
				c, pol := flattenCond(g.Cond, g.Pol)
				b, ok := c.(*ssa.BinOp)
				if !ok {
					continue
				}
				_, f1, ok1 := fieldOfLoad(b.X)
				s, isC := constString(b.Y)
				if ok1 && f1 == "sep" && isC && s == "" && ((b.Op == token.EQL) == pol) {
					okG = true
				}
			}
			if okG {
				l.ok(fid, construct, p.InstrPos(st), "p.sep is assigned only where p.sep == \"\"", true, "learn")
			} else {
				l.bad(fid, construct, p.InstrPos(st), "the indent character is overwritten on every indented row: a row indented with the other character is then compared only with itself, so mixing tabs and spaces across rows is no longer rejected", "learn")
			}
		}
	})
	if nSpaces == 0 {
		l.undecided(fid, "indentation unit learnt after the all-indentation test", p.Pos(fn.Pos()), "no store to Parser.spaces found", "learn")
	}
	if nSep < 2 {
		l.undecided(fid, "indent character learnt once", p.Pos(fn.Pos()), "stores to Parser.sep not found", "learn")
	}
	// validateSpaces is consulted before a candidate is accepted
	okV := false
	skipped := ""
	allInstrs(fn, func(in ssa.Instruction) {
		r, ok := in.(*ssa.Return)
		if !ok || len(rr(r)) != 3 || !isNilConst(rr(r)[2]) {
			return
		}
		// every successful return — not just one — has gone through the indentation count and validateSpaces: a
		// shortcut for "an indentation seen before" accepts rows the full test rejects and skips what it learns
		validated, counted := false, false
		allInstrs(fn, func(in2 ssa.Instruction) {
			c, ok := in2.(*ssa.Call)
			if !ok {
				return
			}
			if c.Common().StaticCallee() != nil && fname(c.Common().StaticCallee()) == "validateSpaces" && guardedNil(c, r) {
				validated = true
			}
			if calleeFullName(c.Common()) == "strings.Count" && (c.Block() == r.Block() || c.Block().Dominates(r.Block())) {
				counted = true
			}
		})
		_ = counted
		if validated {
			okV = true
		} else if skipped == "" {
			skipped = p.InstrPos(r)
		}
	})
	if skipped != "" {
		okV = false
	}
	if okV {
		l.ok(fid, "a candidate is accepted only after validateSpaces", p.Pos(fn.Pos()), "the successful return lies on the nil side of validateSpaces(spaceCount)", true, "learn")
	} else {
		l.bad(fid, "a candidate is accepted only after validateSpaces", p.Pos(fn.Pos()), "separateRow returns success without validateSpaces having accepted the indentation"+map[bool]string{true: " (the successful return at " + skipped + " bypasses the indentation count or validateSpaces)", false: ""}[skipped != ""], "learn")
	}
	return l.list
}

// canReachWithout: is 'to' reachable from 'from' without passing through 'avoid'?
func canReachWithout(from, to, avoid *ssa.BasicBlock) bool {
	if from == avoid {
		return false
	}
	return blockReach(from, map[*ssa.BasicBlock]bool{avoid: true})[to]
}

func ruleSPLIT1(w *World) []Ob {
	p := w.D()
	l := &obs{rule: "SPLIT-1", cfg: "D"}
	// the splitter loop: the function that scans lines and asks isRootBlockBeginning
	var fn *ssa.Function
	for _, f := range libFuncs(p) {
		hasScan, hasRootTest := false, false
		allInstrs(f, func(in ssa.Instruction) {
			if c, ok := in.(*ssa.Call); ok {
				if calleeFullName(c.Common()) == "(*bufio.Scanner).Scan" {
					hasScan = true
				}
				if c.Common().StaticCallee() != nil && fname(c.Common().StaticCallee()) == "isRootBlockBeginning" {
					hasRootTest = true
				}
			}
		})
		if hasScan && hasRootTest {
			fn = f
		}
	}
	if fn == nil {
		l.undecided("gtree.split", "splitter", "-", "no function that scans lines and tests isRootBlockBeginning was found", "split")
		return l.list
	}
	fid := p.FuncID(fn)
	var scan *ssa.Call
	allInstrs(fn, func(in ssa.Instruction) {
		if c, ok := in.(*ssa.Call); ok && calleeFullName(c.Common()) == "(*bufio.Scanner).Scan" {
			scan = c
		}
	})
	if scan == nil {
		l.undecided(fid, "splitter", p.Pos(fn.Pos()), "scan loop not found", "split")
		return l.list
	}
	nIn, nAfter := 0, 0
	allInstrs(fn, func(in ssa.Instruction) {
		sel, ok := in.(*ssa.Select)
		if !ok {
			return
		}
		var sent ssa.Value
		for _, st := range sel.States {
			if st.Dir == types.SendOnly {
				if b, ok := st.Send.Type().Underlying().(*types.Basic); ok && b.Info()&types.IsString != 0 {
					sent = st.Send
				}
			}
		}
		if sent == nil {
			return
		}
		exit := exitOf(scan)
		afterLoop := exit != nil && (sel.Block() == exit || exit.Dominates(sel.Block()))
		var extra []string
		for _, g := range guardsOf(sel.Block()) {
			c, pol := flattenCond(g.Cond, g.Pol)
			switch x := c.(type) {
			case *ssa.Call:
				if x == scan {
					continue
				}
				if x.Common().StaticCallee() != nil && fname(x.Common().StaticCallee()) == "isRootBlockBeginning" && pol {
					if isScanLine(x.Common().Args[0]) {
						continue
					}
					extra = append(extra, "isRootBlockBeginning applied to "+describeValue(x.Common().Args[0])+" instead of the current line")
					continue
				}
			case *ssa.BinOp:
				if _, neg, ok := lenAtom(x); ok && pol != neg {
					if lc, isC := x.X.(*ssa.Call); isC && sameVar(lc.Common().Args[0], sent) {
						continue
					}
					// the block is kept as bytes and sent as string(buf): len(buf) != 0 is the same test
					if cv, isCv := sent.(*ssa.Convert); isCv {
						if lc, isC := x.X.(*ssa.Call); isC && (lc.Common().Args[0] == cv.X || sameVar(lc.Common().Args[0], cv.X)) {
							continue
						}
					}
				}
				// builder.Len() != 0 on the builder whose String() is sent
				if lc, isC := x.X.(*ssa.Call); isC && isBuilderMethod(lc, "Len") && builderOf(sent) != nil && sameObject(lc.Common().Args[0], builderOf(sent)) {
					if k, isK := constInt(x.Y); isK && k == 0 && ((x.Op == token.NEQ || x.Op == token.GTR) == pol) {
						continue
					}
				}
				// block != "" is the same test as len(block) != 0
				if (x.Op == token.NEQ && pol) || (x.Op == token.EQL && !pol) {
					if (isEmptyStringConst(x.Y) && sameVar(x.X, sent)) || (isEmptyStringConst(x.X) && sameVar(x.Y, sent)) {
						continue
					}
				}
				// arm index of the non-blocking cancellation poll
				if ex, ok := x.X.(*ssa.Extract); ok {
					if _, isSel := ex.Tuple.(*ssa.Select); isSel && ex.Index == 0 {
						continue
					}
				}
				// sc.Err() == nil after the loop
				if tv, nonNil, ok := nilTest(x, pol); ok && !nonNil && isErrorType(tv.Type()) {
					continue
				}
			}
			extra = append(extra, describeValue(c)+"="+map[bool]string{true: "true", false: "false"}[pol])
		}
		construct := "pending block sent when a new root block begins"
		if afterLoop {
			nAfter++
			construct = "last block sent after the loop"
		} else {
			nIn++
		}
		if len(extra) > 0 {
			l.bad(fid, construct, p.InstrPos(sel), "whether the accumulated block is sent also depends on "+strings.Join(extra, "; ")+": lines the user wrote can be discarded without an error", "split")
		} else {
			l.ok(fid, construct, p.InstrPos(sel), "sent under nothing but (new root line ∧ block non-empty) / end of input, with cancellation as the only alternative", true, "split")
		}
	})
	if nIn == 0 {
		l.bad(fid, "pending block sent when a new root block begins", p.Pos(fn.Pos()), "no send of the pending block inside the line loop", "split")
	}
	if nAfter == 0 {
		l.bad(fid, "last block sent after the loop", p.Pos(fn.Pos()), "no send of the last block after the line loop", "split")
	}
	// every line is appended to the block
	appended := false
	allInstrs(fn, func(in ssa.Instruction) {
		b, ok := in.(*ssa.BinOp)
		if !ok || b.Op != token.ADD {
			return
		}
		appendsLine := false
		if c, ok := b.Y.(*ssa.Call); ok && (calleeFullName(c.Common()) == "fmt.Sprintln" || calleeFullName(c.Common()) == "fmt.Sprintf") {
			appendsLine = true
		}
		if s, ok := constString(b.Y); ok && s == "\n" {
			// (block + line) + "\n"
			if inner, ok := b.X.(*ssa.BinOp); ok && inner.Op == token.ADD {
				if tc, ok := inner.Y.(*ssa.Call); ok && calleeFullName(tc.Common()) == "(*bufio.Scanner).Text" {
					appendsLine = true
				}
			}
		}
		if inner, ok := b.Y.(*ssa.BinOp); ok && inner.Op == token.ADD {
			// block + (line + "\n")
			if s, ok := constString(inner.Y); ok && s == "\n" {
				appendsLine = true
			}
		}
		if appendsLine {
			if scan.Block().Dominates(b.Block()) {
				onlyPoll := true
				for _, g := range guardsOf(b.Block()) {
					c2, _ := flattenCond(g.Cond, g.Pol)
					switch y := c2.(type) {
					case *ssa.Call:
						if y != scan {
							onlyPoll = false
						}
					case *ssa.BinOp:
						if ex, ok := y.X.(*ssa.Extract); ok {
							if _, isSel := ex.Tuple.(*ssa.Select); isSel {
								continue
							}
						}
						onlyPoll = false
					}
				}
				if onlyPoll {
					appended = true
				}
			}
		}
	})
	// path form: the block variable (a string phi at the loop head) receives, on every way round the loop, a value that
	// ends with the current line — the old block plus the line, or (when a new block starts) the line alone
	if !appended {
		var endsWithLine func(v ssa.Value, d int) bool
		isLineText := func(v ssa.Value) bool {
			c, ok := stripConv(v).(*ssa.Call)
			if !ok {
				return false
			}
			switch calleeFullName(c.Common()) {
			case "fmt.Sprintln", "fmt.Sprintf", "fmt.Sprint":
				if len(c.Common().Args) == 0 {
					return false
				}
				if els, ok := variadicElems(c.Common().Args[len(c.Common().Args)-1]); ok {
					for _, e := range els {
						if isScanLine(stripConv(e)) {
							return calleeFullName(c.Common()) == "fmt.Sprintln"
						}
					}
				}
			}
			return false
		}
		endsWithLine = func(v ssa.Value, d int) bool {
			if d > 5 {
				return false
			}
			v = stripConv(v)
			if isLineText(v) {
				return true
			}
			switch x := v.(type) {
			case *ssa.BinOp:
				if x.Op != token.ADD {
					return false
				}
				if isLineText(x.Y) {
					return true
				}
				// (… + line) + "\n"
				if s, ok := constString(x.Y); ok && s == "\n" {
					if inner, ok := stripConv(x.X).(*ssa.BinOp); ok && inner.Op == token.ADD && isScanLine(inner.Y) {
						return true
					}
					if isScanLine(x.X) {
						return true
					}
				}
				// … + (line + "\n")
				if inner, ok := stripConv(x.Y).(*ssa.BinOp); ok && inner.Op == token.ADD {
					if s, ok := constString(inner.Y); ok && s == "\n" && isScanLine(inner.X) {
						return true
					}
				}
			case *ssa.Phi:
				for _, e := range x.Edges {
					if !endsWithLine(e, d+1) {
						return false
					}
				}
				return len(x.Edges) > 0
			case *ssa.Call:
				// bytes: append(append(buf, line...), '\n')
				if isBuiltinCall(x, "append") && len(x.Common().Args) == 2 {
					if elems, ok := variadicElems(x.Common().Args[1]); ok && len(elems) == 1 {
						if k, isK := constInt(stripConv(elems[0])); isK && k == 10 {
							if inner, ok := stripConv(x.Common().Args[0]).(*ssa.Call); ok && isBuiltinCall(inner, "append") && len(inner.Common().Args) == 2 && isScanLine(inner.Common().Args[1]) {
								return true
							}
						}
					}
				}
			}
			return false
		}
		head := scan.Block()
		for _, in := range head.Instrs {
			ph, ok := in.(*ssa.Phi)
			if !ok {
				continue
			}
			if b, isB := ph.Type().Underlying().(*types.Basic); (!isB || b.Info()&types.IsString == 0) && !isByteSlice(ph.Type()) {
				continue
			}
			nBack, okAll := 0, true
			for i, e := range ph.Edges {
				if i >= len(head.Preds) || !canReach(head, head.Preds[i]) {
					continue // entry edge
				}
				nBack++
				if !endsWithLine(e, 0) {
					okAll = false
				}
			}
			if nBack > 0 && okAll {
				appended = true
			}
		}
	}
	// the same with a strings.Builder / bytes.Buffer accumulator: WriteString(line) followed by a newline write
	// (or Fprintln into it), guarded by nothing but the loop and the cancellation poll
	allInstrs(fn, func(in ssa.Instruction) {
		c, ok := in.(*ssa.Call)
		if !ok || appended || !scan.Block().Dominates(c.Block()) {
			return
		}
		line := false
		switch {
		case (isBuilderMethod(c, "WriteString") || isBuilderMethod(c, "Write")) && len(c.Common().Args) == 2:
			if isScanLine(c.Common().Args[1]) {
				// a newline is written to the same builder later in the same block
				for _, in2 := range c.Block().Instrs[instrIndex(c)+1:] {
					c2, ok := in2.(*ssa.Call)
					if !ok || len(c2.Common().Args) != 2 || !sameObject(c2.Common().Args[0], c.Common().Args[0]) {
						continue
					}
					if isBuilderMethod(c2, "WriteByte") || isBuilderMethod(c2, "WriteRune") {
						if k, isK := constInt(stripConv(c2.Common().Args[1])); isK && k == 10 {
							line = true
						}
					}
					if isBuilderMethod(c2, "WriteString") {
						if s, isS := constString(c2.Common().Args[1]); isS && s == "\n" {
							line = true
						}
					}
				}
			}
		case calleeFullName(c.Common()) == "fmt.Fprintln" && len(c.Common().Args) == 2:
			if els, ok := variadicElems(c.Common().Args[1]); ok && len(els) == 1 {
				if isScanLine(stripConv(els[0])) {
					line = true
				}
			}
		}
		if !line {
			return
		}
		onlyPoll := true
		for _, g := range guardsOf(c.Block()) {
			c2, _ := flattenCond(g.Cond, g.Pol)
			switch y := c2.(type) {
			case *ssa.Call:
				if y != scan {
					onlyPoll = false
				}
			case *ssa.BinOp:
				if ex, ok := y.X.(*ssa.Extract); ok {
					if _, isSel := ex.Tuple.(*ssa.Select); isSel {
						continue
					}
				}
				onlyPoll = false
			}
		}
		if onlyPoll {
			appended = true
		}
	})
	if appended {
		l.ok(fid, "every line is appended to the current block", p.Pos(fn.Pos()), "block += Sprintln(line) unconditionally in the loop body", true, "split")
	} else {
		l.bad(fid, "every line is appended to the current block", p.Pos(fn.Pos()), "a scanned line is not always appended to the pending block", "split")
	}
	return l.list
}

// separateRowBody: the function that holds the per-bullet logic of the parser — separateRow itself, or the helper it
// calls for each candidate bullet and whose successful result it returns unchanged.
func separateRowBody(p *Prog) *ssa.Function {
	sep := p.Func("(*markdown.Parser).separateRow")
	if sep == nil {
		return nil
	}
	var body *ssa.Function
	allInstrs(sep, func(in ssa.Instruction) {
		c, ok := in.(*ssa.Call)
		if !ok || c.Common().StaticCallee() == nil || !p.InModule(c.Common().StaticCallee()) {
			return
		}
		g := c.Common().StaticCallee()
		if recvTypeName(g) != "Parser" || g == sep || g.Signature.Results().Len() != sep.Signature.Results().Len() {
			return
		}
		// the success return of sep hands back g's first results
		allInstrs(sep, func(in2 ssa.Instruction) {
			r, ok := in2.(*ssa.Return)
			if !ok {
				return
			}
			vals := rr(r)
			if len(vals) < 2 {
				return
			}
			all := true
			for i := 0; i < len(vals)-1; i++ {
				ex, isEx := vals[i].(*ssa.Extract)
				if !isEx || ex.Tuple != ssa.Value(c) || ex.Index != i {
					all = false
				}
			}
			if all {
				body = g
			}
		})
	})
	if body != nil {
		return body
	}
	return sep
}

// isScanLine: v is the line the scanner holds — sc.Text() or sc.Bytes(), possibly converted.
func isScanLine(v ssa.Value) bool {
	v = resolve(v)
	for {
		switch x := v.(type) {
		case *ssa.Convert:
			v = resolve(x.X)
			continue
		case *ssa.ChangeType:
			v = resolve(x.X)
			continue
		}
		break
	}
	tc, ok := v.(*ssa.Call)
	if !ok {
		return false
	}
	n := calleeFullName(tc.Common())
	return n == "(*bufio.Scanner).Text" || n == "(*bufio.Scanner).Bytes"
}

// isBuilderMethod: a call of (*strings.Builder).<name> or (*bytes.Buffer).<name>.
func isBuilderMethod(c *ssa.Call, name string) bool {
	n := calleeFullName(c.Common())
	return n == "(*strings.Builder)."+name || n == "(*bytes.Buffer)."+name
}

// builderOf: v is builder.String(); returns the builder (its address).
func builderOf(v ssa.Value) ssa.Value {
	c, ok := stripConv(resolve(v)).(*ssa.Call)
	if !ok {
		return nil
	}
	if isBuilderMethod(c, "String") && len(c.Common().Args) == 1 {
		return c.Common().Args[0]
	}
	// a local closure that hands the builder's content out (and resets it): `take := func() string { b := block.String();
	// block.Reset(); return b }` — the builder is the captured variable, seen from the enclosing function
	if mc, isMC := resolve(c.Common().Value).(*ssa.MakeClosure); isMC {
		f := mc.Fn.(*ssa.Function)
		var out ssa.Value
		allInstrs(f, func(in ssa.Instruction) {
			r, isR := in.(*ssa.Return)
			if !isR || len(rr(r)) != 1 {
				return
			}
			sc, isC := stripConv(resolve(rr(r)[0])).(*ssa.Call)
			if !isC || !isBuilderMethod(sc, "String") || len(sc.Common().Args) != 1 {
				return
			}
			if fv, isFV := sc.Common().Args[0].(*ssa.FreeVar); isFV {
				for i, q := range f.FreeVars {
					if q == fv && i < len(mc.Bindings) {
						out = mc.Bindings[i]
					}
				}
			}
		})
		return out
	}
	return nil
}
