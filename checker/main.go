// gtcheck decides structural clauses of the gtree properties C01–C17 by static analysis of the
// source currently in the repository (type-checked syntax, SSA, dominance, call graph).  It never
// builds or runs gtree.  See /verif/DESIGN.md.
package main

import (
	"encoding/json"
	"flag"
	"fmt"
	"os"
	"path/filepath"
	"runtime/debug"
	"sort"
	"strconv"
	"strings"
	"time"
)

var repoRoot = "/repo"

// World holds what is loaded for one invocation.
type World struct {
	Repo  string
	Tier  string
	progs map[string]*Prog
	cache map[string][]Ob
	// statistics for the evidence
	loaded []string
}

func (w *World) prog(c Config) *Prog {
	if p, ok := w.progs[c.Name]; ok {
		return p
	}
	p, err := loadConfig(w.Repo, c)
	if err != nil {
		fatal("load failed: %v", err)
	}
	if len(p.ModFuncs) < 50 && c.Name != "J" {
		fatal("config %s: only %d module functions found; refusing to pass vacuously", c.Name, len(p.ModFuncs))
	}
	w.progs[c.Name] = p
	w.loaded = append(w.loaded, fmt.Sprintf("%s: %d module packages, %d module functions (of %d in program)", c.Name, len(p.ModPkgs), len(p.ModFuncs), len(p.cha.Nodes)))
	return p
}

func (w *World) D() *Prog { return w.prog(cfgD) }
func (w *World) W() *Prog { return w.prog(cfgW) }
func (w *World) J() *Prog { return w.prog(cfgJ) }

func fatal(format string, a ...any) {
	fmt.Fprintf(os.Stderr, "gtcheck: "+format+"\n", a...)
	fmt.Printf("CHECK-ERROR %s\n", fmt.Sprintf(format, a...))
	os.Exit(2)
}

// Rule is one static rule; Run returns its obligations over the loaded source.
type Rule struct {
	ID  string
	Doc string
	Run func(w *World) []Ob
}

var rules = map[string]*Rule{}

func register(r *Rule) {
	if rules[r.ID] != nil {
		panic("duplicate rule " + r.ID)
	}
	rules[r.ID] = r
}

func (w *World) run(id string) []Ob {
	if o, ok := w.cache[id]; ok {
		return o
	}
	r := rules[id]
	if r == nil {
		fatal("unknown rule %s", id)
	}
	o := r.Run(w)
	for i := range o {
		if o[i].Rule == "" {
			o[i].Rule = id
		}
		o[i].StatusText = o[i].Status.String()
	}
	sortObs(o)
	w.cache[id] = o
	return o
}

// Use selects a rule (optionally a subset of its obligations) for a property.
type Use struct {
	Rule   string
	Filter func(o Ob) bool
	Floors map[string]int // role -> minimum number of obligations that must exist
	Why    string
}

type PropSpec struct {
	ID          string
	Uses        []Use
	Decides     string
	NotDecided  string
	Assumptions []string
}

var props = map[string]*PropSpec{}

func main() {
	var (
		prop     = flag.String("prop", "", "property id (C01..C17)")
		tier     = flag.String("tier", "quick", "quick|thorough")
		repo     = flag.String("repo", "/repo", "repository root")
		evdir    = flag.String("evidence", "", "directory for evidence/<id>.json (default: none)")
		replay   = flag.String("replay", "", "replay file written by an earlier run")
		known    = flag.String("known", "", "known findings file")
		listr    = flag.Bool("list", false, "list rules and properties")
		ruleOnly = flag.String("rule", "", "run a single rule and dump all its obligations (debugging)")
		verbose  = flag.Bool("v", false, "print every obligation")
	)
	genInv := flag.Bool("gen-inventory", false, "print inventory_data.go for the repository as it is now")
	flag.Parse()
	if *genInv {
		os.Setenv("PATH", goBinDir+":"+os.Getenv("PATH"))
		repoRoot = *repo
		if err := genInventory(*repo); err != nil {
			fmt.Fprintln(os.Stderr, err)
			os.Exit(2)
		}
		return
	}
	// go/packages resolves "go" through this process's PATH
	os.Setenv("PATH", goBinDir+":"+os.Getenv("PATH"))
	os.Unsetenv("GOWORK")
	defer func() {
		if r := recover(); r != nil {
			fmt.Fprintf(os.Stderr, "gtcheck: panic: %v\n%s\n", r, debug.Stack())
			fmt.Printf("CHECK-ERROR panic: %v\n", r)
			os.Exit(2)
		}
	}()
	if *listr {
		ids := sortedKeys(rules)
		for _, id := range ids {
			fmt.Printf("%-8s %s\n", id, rules[id].Doc)
		}
		for _, id := range sortedKeys(props) {
			var rs []string
			for _, u := range props[id].Uses {
				rs = append(rs, u.Rule)
			}
			fmt.Printf("%s: %s\n", id, strings.Join(rs, " "))
		}
		return
	}
	abs, err := filepath.Abs(*repo)
	if err != nil {
		fatal("%v", err)
	}
	repoRoot = abs
	w := &World{Repo: abs, Tier: *tier, progs: map[string]*Prog{}, cache: map[string][]Ob{}}

	if *ruleOnly != "" {
		for _, o := range w.run(*ruleOnly) {
			fmt.Printf("%-9s %s  [%s] %s\n    %s\n", o.Status, o.Key(), o.Pos, o.Role, o.Detail)
		}
		return
	}

	onlyKey := ""
	if *replay != "" {
		b, err := os.ReadFile(*replay)
		if err != nil {
			fatal("%v", err)
		}
		var rp struct{ Property, Key, Tier string }
		if err := json.Unmarshal(b, &rp); err != nil {
			fatal("replay file: %v", err)
		}
		*prop, onlyKey = rp.Property, rp.Key
		if rp.Tier != "" {
			*tier = rp.Tier
			w.Tier = rp.Tier
		}
	}
	spec := props[*prop]
	if spec == nil {
		fatal("unknown property %q", *prop)
	}
	seed := int64(0)
	if s := os.Getenv("VERIF_SEED"); s != "" {
		seed, _ = strconv.ParseInt(s, 10, 64)
	}
	start := time.Now()

	knownList, _, err := loadKnown(*known)
	if err != nil {
		fatal("known findings: %v", err)
	}
	knownByKey := map[string]knownFinding{}
	for _, k := range knownList {
		if k.Property == spec.ID {
			knownByKey[k.Key] = k
		}
	}

	var all []Ob
	perRule := map[string]int{}
	uses := spec.Uses
	// the soundness assumptions of all analyses (no unsafe / reflect / cgo / linkname in the library)
	uses = append(append([]Use{}, uses...), Use{Rule: "EFF-7", Filter: func(o Ob) bool { return o.Role == "pkg" }})
	if *tier == "thorough" {
		uses = append(uses, Use{Rule: "CFG-1"})
	}
	for _, u := range uses {
		got := w.run(u.Rule)
		roleCount := map[string]int{}
		n := 0
		for _, o := range got {
			if u.Filter != nil && !u.Filter(o) {
				continue
			}
			all = append(all, o)
			roleCount[o.Role]++
			n++
		}
		perRule[u.Rule] += n
		for _, role := range sortedKeys(u.Floors) {
			if roleCount[role] < u.Floors[role] {
				all = append(all, Ob{Rule: u.Rule, Cfg: "D", Func: "-", Construct: "vacuity floor: role " + role,
					Status: Undecided, StatusText: "undecided", Nontrivial: true,
					Detail: fmt.Sprintf("rule %s found %d obligation(s) of role %q, fewer than the vacuity floor %d (about half of what was confirmed by reading on the pinned tree); the anchor was lost or the construct removed", u.Rule, roleCount[role], role, u.Floors[role])})
			}
		}
	}
	// de-duplicate identical keys (a rule used twice with overlapping filters)
	seen := map[string]bool{}
	var uniq []Ob
	for _, o := range all {
		k := o.Key()
		if seen[k] {
			continue
		}
		seen[k] = true
		uniq = append(uniq, o)
	}
	all = uniq
	sortObs(all)

	var viol, knownHit, discharged, nontrivial int
	var samples []any
	var lines []string
	replayDir := ""
	if *evdir != "" {
		replayDir = filepath.Join(*evdir, "replay", spec.ID)
		os.RemoveAll(replayDir)
	}
	distinct := map[string]bool{}
	for _, o := range all {
		if onlyKey != "" && o.Key() != onlyKey {
			continue
		}
		if o.Nontrivial {
			distinct[o.Key()] = true
		}
		switch o.Status {
		case OK:
			discharged++
		default:
			if k, ok := knownByKey[o.Key()]; ok && o.Status == Violation {
				knownHit++
				lines = append(lines, fmt.Sprintf("KNOWN-FINDING: property=%s %s (%s; %s)", spec.ID, k.What, o.Key(), o.Pos))
				continue
			}
			viol++
			rp := "-"
			if replayDir != "" {
				rp = filepath.Join(replayDir, safeName(o.Rule+"-"+o.Func+"-"+o.Construct)+".json")
				_ = writeJSON(rp, map[string]string{"property": spec.ID, "key": o.Key(), "tier": *tier, "rule": o.Rule, "pos": o.Pos, "detail": o.Detail})
			}
			kind := "violated"
			if o.Status == Undecided {
				kind = "UNDECIDED (anchor lost or shape not recognised; treated as failure)"
			}
			lines = append(lines, fmt.Sprintf("%s: %s rule %s %s in %s [%s]: %s", o.Pos, kind, o.Rule, o.Construct, o.Func, o.Cfg, o.Detail))
			if len(o.Path) > 0 {
				lines = append(lines, "    path: "+strings.Join(o.Path, " -> "))
			}
			lines = append(lines, fmt.Sprintf("VIOLATION property=%s replay=%s", spec.ID, rp))
		}
	}
	nontrivial = len(distinct)
	// samples: up to 3 per rule, violations first
	perRuleSample := map[string]int{}
	for pass := 0; pass < 2; pass++ {
		for _, o := range all {
			if (pass == 0) != (o.Status != OK) {
				continue
			}
			if perRuleSample[o.Rule] >= 3 && o.Status == OK {
				continue
			}
			perRuleSample[o.Rule]++
			samples = append(samples, o)
		}
	}
	if *verbose {
		for _, o := range all {
			fmt.Printf("  %-9s %s [%s] %s\n", o.Status, o.Key(), o.Pos, o.Detail)
		}
	}
	for _, l := range lines {
		fmt.Println(l)
	}
	var ruleDocs []string
	for _, u := range uses {
		ruleDocs = append(ruleDocs, u.Rule+": "+rules[u.Rule].Doc)
	}
	sort.Strings(w.loaded)
	ev := evidence{
		PropertyID: spec.ID, Tier: *tier, Seed: seed, Level: "other",
		Coverage: map[string]any{
			"explanation": "Static analysis of the source in " + abs + " (go/packages + go/ssa + dominance + CHA call graph; nothing is executed). Decides: " + spec.Decides + " NOT decided: " + spec.NotDecided,
			"rule":        "an obligation is one rule instantiated at one construct (function + call/send/store/branch …) found in the current source; it is non-trivial when discharging it needed dominance, dataflow or call-graph work (not a mere presence test); distinct = distinct rule|function|construct keys",
			"rules":       ruleDocs,
			"obligations": len(all), "discharged": discharged, "known_findings": knownHit,
			"evaluations": len(all), "distinct_nontrivial": nontrivial,
			"per_rule": perRule, "analysed": w.loaded, "samples": samples,
			"exhaustive": true,
		},
		Assumptions: append([]string{
			"go/packages, go/types, go/ssa (x/tools v0.50.0) represent the program faithfully; reflection, unsafe, cgo and linkname are absent from the module (asserted by rule EFF-7's scan)",
			"calls leaving the module behave as classified in the effect table (effects.go)",
		}, spec.Assumptions...),
		WallS: time.Since(start).Seconds(), Violations: viol,
	}
	if *evdir != "" && onlyKey == "" {
		if err := writeJSON(filepath.Join(*evdir, spec.ID+".json"), ev); err != nil {
			fatal("%v", err)
		}
	}
	fmt.Printf("%s %s: %d obligations, %d discharged, %d known finding(s), %d violation(s)/undecided; %.1fs\n", spec.ID, *tier, len(all), discharged, knownHit, viol, time.Since(start).Seconds())
	if viol > 0 {
		os.Exit(1)
	}
}
