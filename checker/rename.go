package main

// Rename resolution.  Rules anchor on unexported functions and struct fields by name ("isRoot", "children").
// A pure rename is behaviour-preserving and must not make a rule lose its anchor, so the names confirmed on
// the reviewed tree are kept as an inventory (inventory_data.go, generated with -gen-inventory): function id →
// (receiver, signature) and struct → ordered (field name, field type).  When an inventoried function is
// missing from the loaded program and exactly one function that is *not* in the inventory has the same
// package, receiver and signature, that function is taken to be the renamed one: it gets the old id and the
// old name for every rule (FuncID, fname).  Likewise a struct whose field types match the inventory position
// by position but whose names differ has its fields reported under the old names (fieldName).  Anything
// ambiguous is left alone — the rule then reports its anchor as lost, as before.

import (
	"fmt"
	"go/ast"
	"go/types"
	"sort"
	"strings"

	"golang.org/x/tools/go/packages"
	"golang.org/x/tools/go/ssa"
)

type invFunc struct {
	Recv, Sig string
	Ord       int // declaration order within the configuration (file name, then offset)
}
type invField struct{ Name, Type string }

// canonical names for renamed functions (all loaded programs)
var canonFuncs = map[*ssa.Function]string{}

// canonical field names: struct type string -> current name -> old name
var canonFields = map[string]map[string]string{}

func relTypeString(t types.Type) string {
	return types.TypeString(t, func(pk *types.Package) string {
		if pk.Path() == modulePath {
			return "gtree"
		}
		return strings.TrimPrefix(pk.Path(), modulePath+"/")
	})
}

func funcShape(fn *ssa.Function) invFunc {
	sig := fn.Signature
	recv := ""
	if sig.Recv() != nil {
		recv = relTypeString(sig.Recv().Type())
	}
	anon := func(t *types.Tuple) *types.Tuple {
		var vs []*types.Var
		for i := 0; i < t.Len(); i++ {
			vs = append(vs, types.NewVar(0, nil, "", t.At(i).Type()))
		}
		return types.NewTuple(vs...)
	}
	return invFunc{Recv: recv, Sig: relTypeString(types.NewSignatureType(nil, nil, nil, anon(sig.Params()), anon(sig.Results()), sig.Variadic()))}
}

// topLevelFuncs: source-level functions and methods of the module (no closures, no instantiations, no wrappers).
func topLevelFuncs(p *Prog) []*ssa.Function {
	seen := map[*ssa.Function]bool{}
	var out []*ssa.Function
	add := func(fn *ssa.Function) {
		if fn == nil || seen[fn] || fn.Synthetic != "" || fn.Parent() != nil || fn.Blocks == nil {
			return
		}
		seen[fn] = true
		out = append(out, fn)
	}
	for _, sp := range p.SSAPkgs {
		for _, m := range sp.Members {
			switch x := m.(type) {
			case *ssa.Function:
				add(x)
			case *ssa.Type:
				for _, t := range []types.Type{x.Type(), types.NewPointer(x.Type())} {
					ms := p.SSA.MethodSets.MethodSet(t)
					for i := 0; i < ms.Len(); i++ {
						if f := p.SSA.MethodValue(ms.At(i)); f != nil {
							if f.Synthetic != "" {
								// wrapper for a promoted or value-receiver method: not source
								continue
							}
							add(f)
						}
					}
				}
			}
		}
	}
	// declaration order: file name, then offset
	sort.Slice(out, func(i, j int) bool {
		a, b := p.Fset.Position(out[i].Pos()), p.Fset.Position(out[j].Pos())
		if a.Filename != b.Filename {
			return a.Filename < b.Filename
		}
		return a.Offset < b.Offset
	})
	return out
}

func rawFuncID(fn *ssa.Function) string {
	s := fn.String()
	s = strings.ReplaceAll(s, modulePath+"/", "")
	s = strings.ReplaceAll(s, modulePath+".", "gtree.")
	s = strings.ReplaceAll(s, modulePath, "gtree")
	return s
}

func invConfigName(c Config) string {
	if strings.HasPrefix(c.Name, "D") {
		return "D"
	}
	return c.Name
}

// resolveRenames fills canonFuncs / canonFields for p.
func resolveRenames(p *Prog) []string {
	var notes []string
	inv := inventoryFuncs[invConfigName(p.Cfg)]
	if inv != nil {
		tops := topLevelFuncs(p)
		present := map[string]bool{}
		for _, f := range tops {
			present[rawFuncID(f)] = true
		}
		var missing []string
		for id := range inv {
			if !present[id] {
				missing = append(missing, id)
			}
		}
		sort.Slice(missing, func(i, j int) bool { return inv[missing[i]].Ord < inv[missing[j]].Ord })
		pkgOf := func(id string) string {
			if i := strings.LastIndex(id, "."); i >= 0 {
				return id[:i]
			}
			return id
		}
		type shapeKey struct{ pkg, recv, sig string }
		missBy := map[shapeKey][]string{}
		var order []shapeKey
		for _, id := range missing {
			k := shapeKey{pkgOf(id), inv[id].Recv, inv[id].Sig}
			if len(missBy[k]) == 0 {
				order = append(order, k)
			}
			missBy[k] = append(missBy[k], id)
		}
		candBy := map[shapeKey][]*ssa.Function{}
		for _, f := range tops { // tops is in declaration order
			rid := rawFuncID(f)
			if _, known := inv[rid]; known {
				continue
			}
			sh := funcShape(f)
			k := shapeKey{pkgOf(rid), sh.Recv, sh.Sig}
			candBy[k] = append(candBy[k], f)
		}
		for _, k := range order {
			ms, cs := missBy[k], candBy[k]
			if len(ms) != len(cs) {
				continue // a function was removed or added as well: not a pure rename, leave the anchors lost
			}
			// same number of vanished and new functions of this shape: pair them in declaration order
			for i, id := range ms {
				canonFuncs[cs[i]] = id
				notes = append(notes, fmt.Sprintf("%s is analysed as %s (same receiver and signature; the inventoried name is gone)", rawFuncID(cs[i]), id))
			}
		}
	}
	// struct fields
	for _, path := range sortedKeys(p.ModPkgs) {
		pk := p.ModPkgs[path]
		scope := pk.Types.Scope()
		for _, name := range scope.Names() {
			tn, ok := scope.Lookup(name).(*types.TypeName)
			if !ok {
				continue
			}
			st, ok := tn.Type().Underlying().(*types.Struct)
			if !ok {
				continue
			}
			key := relTypeString(tn.Type())
			want, ok := inventoryStructs[key]
			if !ok || len(want) != st.NumFields() {
				continue
			}
			same, diff := true, false
			names := map[string]bool{}
			for i := 0; i < st.NumFields(); i++ {
				names[st.Field(i).Name()] = true
			}
			for i := 0; i < st.NumFields(); i++ {
				if relTypeString(st.Field(i).Type()) != want[i].Type {
					same = false
				}
				if st.Field(i).Name() != want[i].Name {
					diff = true
					if names[want[i].Name] {
						same = false // the old name still exists elsewhere in the struct: a reorder, not a rename
					}
				}
			}
			if same && diff {
				m := map[string]string{}
				for i := 0; i < st.NumFields(); i++ {
					if st.Field(i).Name() != want[i].Name {
						m[st.Field(i).Name()] = want[i].Name
						notes = append(notes, fmt.Sprintf("field %s.%s is analysed as %s (same position and type)", key, st.Field(i).Name(), want[i].Name))
					}
				}
				canonFields[key] = m
			}
		}
	}
	return notes
}

// fname: the name rules compare against — the inventoried one for a renamed function.
func fname(f *ssa.Function) string {
	if f == nil {
		return ""
	}
	if id, ok := canonFuncs[f]; ok {
		if i := strings.LastIndex(id, "."); i >= 0 {
			return id[i+1:]
		}
		return id
	}
	if o := f.Origin(); o != nil {
		if id, ok := canonFuncs[o]; ok {
			if i := strings.LastIndex(id, "."); i >= 0 {
				return id[i+1:]
			}
		}
	}
	return f.Name()
}

// genInventory prints inventory_data.go for the repository as it is now.
func genInventory(repo string) error {
	var b strings.Builder
	b.WriteString("package main\n\n// Code generated by `gtcheck -gen-inventory`; names confirmed on the reviewed tree.  DO NOT EDIT.\n\n")
	b.WriteString("var inventoryFuncs = map[string]map[string]invFunc{\n")
	structs := map[string][]invField{}
	for _, c := range []Config{cfgD, cfgW, cfgJ} {
		p, err := loadConfig(repo, c)
		if err != nil {
			return err
		}
		fmt.Fprintf(&b, "\t%q: {\n", c.Name)
		ord := 0
		for _, f := range topLevelFuncs(p) {
			sh := funcShape(f)
			ord++
			fmt.Fprintf(&b, "\t\t%q: {%q, %q, %d},\n", rawFuncID(f), sh.Recv, sh.Sig, ord)
		}
		b.WriteString("\t},\n")
		for _, path := range sortedKeys(p.ModPkgs) {
			scope := p.ModPkgs[path].Types.Scope()
			for _, name := range scope.Names() {
				tn, ok := scope.Lookup(name).(*types.TypeName)
				if !ok {
					continue
				}
				st, ok := tn.Type().Underlying().(*types.Struct)
				if !ok {
					continue
				}
				var fs []invField
				for i := 0; i < st.NumFields(); i++ {
					fs = append(fs, invField{st.Field(i).Name(), relTypeString(st.Field(i).Type())})
				}
				key := relTypeString(tn.Type())
				if c.Name != "D" {
					key2 := key
					if _, dup := structs[key2]; dup {
						continue // the default build's definition wins for shared names
					}
				}
				structs[key] = fs
			}
		}
	}
	b.WriteString("}\n\nvar inventoryStructs = map[string][]invField{\n")
	for _, k := range sortedKeys(structs) {
		fmt.Fprintf(&b, "\t%q: {", k)
		for _, f := range structs[k] {
			fmt.Fprintf(&b, "{%q, %q}, ", f.Name, f.Type)
		}
		b.WriteString("},\n")
	}
	b.WriteString("}\n")
	fmt.Print(b.String())
	return nil
}

// astFieldName: the (inventoried) name of the struct field a selector expression selects; the plain selector
// name when it is not a field selection.
func astFieldName(pk *packages.Package, sel *ast.SelectorExpr) string {
	if len(canonFields) > 0 {
		if s, ok := pk.TypesInfo.Selections[sel]; ok && s.Kind() == types.FieldVal {
			recv := s.Recv()
			if p, isP := recv.Underlying().(*types.Pointer); isP {
				recv = p.Elem()
			}
			if m := canonFields[relTypeString(recv)]; m != nil {
				if old, ok := m[sel.Sel.Name]; ok {
					return old
				}
			}
		}
	}
	return sel.Sel.Name
}
