package main

// Rename resolution.  Rules anchor on unexported functions and struct fields by name ("isRoot", "children").
// A pure rename is behaviour-preserving and must not make a rule lose its anchor, so the names confirmed on
// the reviewed tree are kept as an inventory (inventory_data.go, generated with -gen-inventory): function id →
// (receiver, signature) and struct → ordered (field name, field type).  When an inventoried function is
// missing from the loaded program and exactly one function that is *not* in the inventory has the same
// package, receiver and signature, that function is taken to be the renamed one: it gets the old id and the
// old name for every rule (FuncID, fname).  Likewise a struct whose field types match the inventory position
// by position but whose names differ has its fields reported under the old names (fieldName).  Anything
// ambiguous is left alone — the rule then reports its anchor as lost, as before.

import (
	"fmt"
	"go/ast"
	"go/types"
	"sort"
	"strings"

	"golang.org/x/tools/go/packages"
	"golang.org/x/tools/go/ssa"
)

type invFunc struct {
	Recv, Sig string
	Ord       int    // declaration order within the configuration (file name, then offset)
	Pkg       string // module-relative package ("gtree", "markdown", "cmd/gtree")
}

// invNamed: a named type (Shape: field types in order / sorted method signatures / underlying type) or a
// package-level variable or constant (Shape: its type).
type invNamed struct {
	Kind, Shape string
	Ord         int
}

// canonical names of renamed named types, package-level objects and interface methods
var canonTypes = map[*types.TypeName]string{}
var canonObjs = map[types.Object]string{}
var typeRenameRx []struct{ from, to string } // applied to rendered type strings

func relPkg(pk *types.Package) string {
	if pk == nil {
		return ""
	}
	if pk.Path() == modulePath {
		return "gtree"
	}
	return strings.TrimPrefix(pk.Path(), modulePath+"/")
}
type invField struct{ Name, Type string }

// canonical names for renamed functions (all loaded programs)
var canonFuncs = map[*ssa.Function]string{}

// canonical field names: struct type string -> current name -> old name
var canonFields = map[string]map[string]string{}

func relTypeString(t types.Type) string {
	s := types.TypeString(t, func(pk *types.Package) string {
		if pk.Path() == modulePath {
			return "gtree"
		}
		return strings.TrimPrefix(pk.Path(), modulePath+"/")
	})
	for _, r := range typeRenameRx {
		s = replaceWord(s, r.from, r.to)
	}
	return s
}

// replaceWord replaces whole-identifier occurrences of from (a qualified name such as gtree.branchGrower).
func replaceWord(s, from, to string) string {
	if !strings.Contains(s, from) {
		return s
	}
	var b strings.Builder
	for i := 0; i < len(s); {
		if strings.HasPrefix(s[i:], from) {
			j := i + len(from)
			if j == len(s) || !(s[j] == '_' || s[j] >= '0' && s[j] <= '9' || s[j] >= 'a' && s[j] <= 'z' || s[j] >= 'A' && s[j] <= 'Z') {
				b.WriteString(to)
				i = j
				continue
			}
		}
		b.WriteByte(s[i])
		i++
	}
	return b.String()
}

// namedShape describes a named type, variable or constant for the inventory.
func namedShape(obj types.Object) (invNamed, bool) {
	switch o := obj.(type) {
	case *types.TypeName:
		if o.IsAlias() {
			return invNamed{}, false
		}
		self := relPkg(o.Pkg()) + "." + o.Name()
		defer func() {}()
		if sh, ok := namedShapeOfType(o); ok {
			sh.Shape = replaceWord(sh.Shape, self, "SELF")
			if old, isR := canonTypes[o]; isR {
				sh.Shape = replaceWord(sh.Shape, relPkg(o.Pkg())+"."+old, "SELF")
			}
			return sh, true
		}
		return invNamed{}, false
	}
	return namedShapeOfOther(obj)
}

func namedShapeOfType(o *types.TypeName) (invNamed, bool) {
	{
		switch u := o.Type().Underlying().(type) {
		case *types.Struct:
			var fs []string
			for i := 0; i < u.NumFields(); i++ {
				fs = append(fs, relTypeString(u.Field(i).Type()))
			}
			return invNamed{Kind: "struct", Shape: strings.Join(fs, ";")}, true
		case *types.Interface:
			var ms []string
			for i := 0; i < u.NumMethods(); i++ {
				ms = append(ms, relTypeString(u.Method(i).Type()))
			}
			sort.Strings(ms)
			return invNamed{Kind: "interface", Shape: strings.Join(ms, ";")}, true
		default:
			return invNamed{Kind: "type", Shape: relTypeString(u)}, true
		}
	}
}

func namedShapeOfOther(obj types.Object) (invNamed, bool) {
	switch o := obj.(type) {
	case *types.Var:
		return invNamed{Kind: "var", Shape: relTypeString(o.Type())}, true
	case *types.Const:
		return invNamed{Kind: "const", Shape: relTypeString(o.Type())}, true
	}
	return invNamed{}, false
}

// packageObjects: package-level types, variables and constants of the module in declaration order.
func packageObjects(p *Prog) []types.Object {
	var out []types.Object
	for _, path := range sortedKeys(p.ModPkgs) {
		scope := p.ModPkgs[path].Types.Scope()
		for _, name := range scope.Names() {
			switch scope.Lookup(name).(type) {
			case *types.TypeName, *types.Var, *types.Const:
				out = append(out, scope.Lookup(name))
			}
		}
	}
	sort.Slice(out, func(i, j int) bool {
		a, b := p.Fset.Position(out[i].Pos()), p.Fset.Position(out[j].Pos())
		if a.Filename != b.Filename {
			return a.Filename < b.Filename
		}
		return a.Offset < b.Offset
	})
	return out
}

func objKey(o types.Object) string { return relPkg(o.Pkg()) + "." + o.Name() }

// resolveNamedRenames pairs vanished package-level names with new ones of the same kind and shape
// (declaration order breaks ties when the counts agree).  Two rounds, because shapes mention other types.
func resolveNamedRenames(p *Prog) []string {
	var notes []string
	inv := inventoryNamed[invConfigName(p.Cfg)]
	if inv == nil {
		return nil
	}
	objs := packageObjects(p)
	for round := 0; round < 3; round++ {
		present := map[string]bool{}
		for _, o := range objs {
			present[objKey(o)] = true
		}
		type sk struct{ pkg, kind, shape string }
		missBy := map[sk][]string{}
		var order []sk
		var missing []string
		for k := range inv {
			if !present[k] {
				missing = append(missing, k)
			}
		}
		sort.Slice(missing, func(i, j int) bool { return inv[missing[i]].Ord < inv[missing[j]].Ord })
		pkgOf := func(k string) string { return k[:strings.LastIndex(k, ".")] }
		for _, k := range missing {
			key := sk{pkgOf(k), inv[k].Kind, inv[k].Shape}
			if len(missBy[key]) == 0 {
				order = append(order, key)
			}
			missBy[key] = append(missBy[key], k)
		}
		candBy := map[sk][]types.Object{}
		for _, o := range objs {
			if _, known := inv[objKey(o)]; known {
				continue
			}
			if _, done := canonObjs[o]; done {
				continue
			}
			sh, ok := namedShape(o)
			if !ok {
				continue
			}
			key := sk{relPkg(o.Pkg()), sh.Kind, sh.Shape}
			candBy[key] = append(candBy[key], o)
		}
		progress := false
		for _, key := range order {
			ms, cs := missBy[key], candBy[key]
			var free []string
			for _, m := range ms {
				taken := false
				for _, v := range canonObjs {
					if v == m {
						taken = true
					}
				}
				if !taken {
					free = append(free, m)
				}
			}
			if len(free) == 0 || len(free) != len(cs) {
				continue
			}
			for i, k := range free {
				o := cs[i]
				canonObjs[o] = k
				old := k[strings.LastIndex(k, ".")+1:]
				if tn, isT := o.(*types.TypeName); isT {
					canonTypes[tn] = old
					typeRenameRx = append(typeRenameRx, struct{ from, to string }{relPkg(o.Pkg()) + "." + o.Name(), relPkg(o.Pkg()) + "." + old})
				}
				notes = append(notes, fmt.Sprintf("%s is analysed as %s (same kind and shape; the inventoried name is gone)", objKey(o), k))
				progress = true
			}
		}
		if !progress {
			break
		}
	}
	return notes
}

// objName: the inventoried name of a package-level object.
func objName(o types.Object) string {
	if o == nil {
		return ""
	}
	if k, ok := canonObjs[o]; ok {
		return k[strings.LastIndex(k, ".")+1:]
	}
	return o.Name()
}

// methodName: the inventoried name of an interface method (through the concrete methods' rename is not possible:
// an abstract method has no body, so it is matched by signature within its interface).
func methodName(m *types.Func) string {
	if m == nil {
		return ""
	}
	if n, ok := canonMethods[m]; ok {
		return n
	}
	return m.Name()
}

var canonMethods = map[*types.Func]string{}

func resolveMethodRenames(p *Prog) []string {
	var notes []string
	inv := inventoryIfaces[invConfigName(p.Cfg)]
	for _, o := range packageObjects(p) {
		tn, ok := o.(*types.TypeName)
		if !ok {
			continue
		}
		it, ok := tn.Type().Underlying().(*types.Interface)
		if !ok {
			continue
		}
		key := relPkg(o.Pkg()) + "." + objName(o)
		want, ok := inv[key]
		if !ok {
			continue
		}
		have := map[string]bool{}
		for i := 0; i < it.NumMethods(); i++ {
			have[it.Method(i).Name()] = true
		}
		// vanished method names, by signature
		missBySig := map[string][]string{}
		for _, w := range want {
			if !have[w.Name] {
				missBySig[w.Type] = append(missBySig[w.Type], w.Name)
			}
		}
		known := map[string]bool{}
		for _, w := range want {
			known[w.Name] = true
		}
		candBySig := map[string][]*types.Func{}
		for i := 0; i < it.NumMethods(); i++ {
			m := it.Method(i)
			if !known[m.Name()] {
				sig := relTypeString(m.Type())
				candBySig[sig] = append(candBySig[sig], m)
			}
		}
		for sig, ms := range missBySig {
			cs := candBySig[sig]
			if len(ms) != len(cs) {
				continue
			}
			sort.Strings(ms)
			sort.Slice(cs, func(i, j int) bool { return cs[i].Pos() < cs[j].Pos() })
			if len(ms) > 1 {
				continue // several methods of one signature renamed at once: cannot be told apart
			}
			canonMethods[cs[0]] = ms[0]
			notes = append(notes, fmt.Sprintf("interface method %s.%s is analysed as %s", key, cs[0].Name(), ms[0]))
		}
	}
	return notes
}

func funcShape(fn *ssa.Function) invFunc {
	sig := fn.Signature
	recv := ""
	if sig.Recv() != nil {
		recv = relTypeString(sig.Recv().Type())
	}
	anon := func(t *types.Tuple) *types.Tuple {
		var vs []*types.Var
		for i := 0; i < t.Len(); i++ {
			vs = append(vs, types.NewVar(0, nil, "", t.At(i).Type()))
		}
		return types.NewTuple(vs...)
	}
	return invFunc{Recv: recv, Sig: relTypeString(types.NewSignatureType(nil, nil, nil, anon(sig.Params()), anon(sig.Results()), sig.Variadic()))}
}

// topLevelFuncs: source-level functions and methods of the module (no closures, no instantiations, no wrappers).
func topLevelFuncs(p *Prog) []*ssa.Function {
	seen := map[*ssa.Function]bool{}
	var out []*ssa.Function
	add := func(fn *ssa.Function) {
		if fn == nil || seen[fn] || fn.Synthetic != "" || fn.Parent() != nil || fn.Blocks == nil {
			return
		}
		seen[fn] = true
		out = append(out, fn)
	}
	for _, sp := range p.SSAPkgs {
		for _, m := range sp.Members {
			switch x := m.(type) {
			case *ssa.Function:
				add(x)
			case *ssa.Type:
				for _, t := range []types.Type{x.Type(), types.NewPointer(x.Type())} {
					ms := p.SSA.MethodSets.MethodSet(t)
					for i := 0; i < ms.Len(); i++ {
						if f := p.SSA.MethodValue(ms.At(i)); f != nil {
							if f.Synthetic != "" {
								// wrapper for a promoted or value-receiver method: not source
								continue
							}
							add(f)
						}
					}
				}
			}
		}
	}
	// declaration order: file name, then offset
	sort.Slice(out, func(i, j int) bool {
		a, b := p.Fset.Position(out[i].Pos()), p.Fset.Position(out[j].Pos())
		if a.Filename != b.Filename {
			return a.Filename < b.Filename
		}
		return a.Offset < b.Offset
	})
	return out
}

func rawFuncID(fn *ssa.Function) string {
	s := fn.String()
	s = strings.ReplaceAll(s, modulePath+"/", "")
	s = strings.ReplaceAll(s, modulePath+".", "gtree.")
	s = strings.ReplaceAll(s, modulePath, "gtree")
	return s
}

func invConfigName(c Config) string {
	if strings.HasPrefix(c.Name, "D") {
		return "D"
	}
	return c.Name
}

// resolveRenames fills canonFuncs / canonFields for p.
func resolveRenames(p *Prog) []string {
	var notes []string
	notes = append(notes, resolveNamedRenames(p)...)
	notes = append(notes, resolveMethodRenames(p)...)
	inv := inventoryFuncs[invConfigName(p.Cfg)]
	if inv != nil {
		tops := topLevelFuncs(p)
		present := map[string]bool{}
		for _, f := range tops {
			present[rawFuncID(f)] = true
		}
		var missing []string
		for id := range inv {
			if !present[id] {
				missing = append(missing, id)
			}
		}
		sort.Slice(missing, func(i, j int) bool { return inv[missing[i]].Ord < inv[missing[j]].Ord })
		type shapeKey struct{ pkg, recv, sig string }
		missBy := map[shapeKey][]string{}
		var order []shapeKey
		for _, id := range missing {
			k := shapeKey{inv[id].Pkg, inv[id].Recv, inv[id].Sig}
			if len(missBy[k]) == 0 {
				order = append(order, k)
			}
			missBy[k] = append(missBy[k], id)
		}
		candBy := map[shapeKey][]*ssa.Function{}
		for _, f := range tops { // tops is in declaration order
			rid := rawFuncID(f)
			if _, known := inv[rid]; known {
				continue
			}
			sh := funcShape(f)
			k := shapeKey{relPkg(pkgOfFunc(f).Pkg), sh.Recv, sh.Sig}
			candBy[k] = append(candBy[k], f)
		}
		// a method moved to a type that its old receiver type now embeds: the old type still has the method (promoted),
		// so every caller and every rule still means the same code
		for _, id := range missing {
			want := inv[id]
			if want.Recv == "" || !strings.HasPrefix(want.Recv, "*") {
				continue
			}
			i := strings.LastIndex(id, ").")
			if i < 0 {
				continue
			}
			mname := id[i+2:]
			var pkgT *types.Package
			var recvT types.Type
			for _, path := range sortedKeys(p.ModPkgs) {
				pk := p.ModPkgs[path].Types
				if relPkg(pk) != want.Pkg {
					continue
				}
				tname := strings.TrimPrefix(want.Recv, "*"+want.Pkg+".")
				if o := lookupByCanonName(pk.Scope(), tname); o != nil {
					if tn, ok := o.(*types.TypeName); ok {
						pkgT, recvT = pk, types.NewPointer(tn.Type())
					}
				}
			}
			if recvT == nil {
				continue
			}
			sel := types.NewMethodSet(recvT).Lookup(pkgT, mname)
			if sel == nil || len(sel.Index()) < 2 {
				continue // not there, or not promoted through an embedded field
			}
			fobj, ok := sel.Obj().(*types.Func)
			if !ok {
				continue
			}
			f := p.SSA.FuncValue(fobj)
			if f == nil || f.Blocks == nil {
				continue
			}
			if _, taken := canonFuncs[f]; taken {
				continue
			}
			sh := funcShape(f)
			if sh.Sig != want.Sig {
				continue
			}
			canonFuncs[f] = id
			notes = append(notes, fmt.Sprintf("%s is analysed as %s (the method moved to an embedded type and is promoted)", rawFuncID(f), id))
		}
		for _, k := range order {
			ms, cs := missBy[k], candBy[k]
			if len(ms) != len(cs) {
				continue // a function was removed or added as well: not a pure rename, leave the anchors lost
			}
			// same number of vanished and new functions of this shape: pair them in declaration order
			for i, id := range ms {
				canonFuncs[cs[i]] = id
				notes = append(notes, fmt.Sprintf("%s is analysed as %s (same receiver and signature; the inventoried name is gone)", rawFuncID(cs[i]), id))
			}
		}
	}
	// struct fields
	for _, path := range sortedKeys(p.ModPkgs) {
		pk := p.ModPkgs[path]
		scope := pk.Types.Scope()
		for _, name := range scope.Names() {
			tn, ok := scope.Lookup(name).(*types.TypeName)
			if !ok {
				continue
			}
			st, ok := tn.Type().Underlying().(*types.Struct)
			if !ok {
				continue
			}
			key := structKey(relTypeString(tn.Type()))
			var want []invField
			ok = false
			for k, v := range inventoryStructs[invConfigName(p.Cfg)] {
				if structKey(k) == key {
					want, ok = v, true
				}
			}
			if !ok || len(want) != st.NumFields() {
				continue
			}
			same, diff := true, false
			names := map[string]bool{}
			for i := 0; i < st.NumFields(); i++ {
				names[st.Field(i).Name()] = true
			}
			for i := 0; i < st.NumFields(); i++ {
				if relTypeString(st.Field(i).Type()) != want[i].Type {
					same = false
				}
				if st.Field(i).Name() != want[i].Name {
					diff = true
					if names[want[i].Name] {
						same = false // the old name still exists elsewhere in the struct: a reorder, not a rename
					}
				}
			}
			if same && diff {
				m := map[string]string{}
				for i := 0; i < st.NumFields(); i++ {
					if st.Field(i).Name() != want[i].Name {
						m[st.Field(i).Name()] = want[i].Name
						notes = append(notes, fmt.Sprintf("field %s.%s is analysed as %s (same position and type)", key, st.Field(i).Name(), want[i].Name))
					}
				}
				canonFields[key] = m
			}
		}
	}
	return notes
}

// fname: the name rules compare against — the inventoried one for a renamed function.
func fname(f *ssa.Function) string {
	if f == nil {
		return ""
	}
	if id, ok := canonFuncs[f]; ok {
		if i := strings.LastIndex(id, "."); i >= 0 {
			return id[i+1:]
		}
		return id
	}
	if o := f.Origin(); o != nil {
		if id, ok := canonFuncs[o]; ok {
			if i := strings.LastIndex(id, "."); i >= 0 {
				return id[i+1:]
			}
		}
	}
	return f.Name()
}

// genInventory prints inventory_data.go for the repository as it is now.
func genInventory(repo string) error {
	var b strings.Builder
	b.WriteString("package main\n\n// Code generated by `gtcheck -gen-inventory`; names confirmed on the reviewed tree.  DO NOT EDIT.\n\n")
	var fb, nb, sb, ib strings.Builder
	for _, c := range []Config{cfgD, cfgW, cfgJ} {
		p, err := loadConfig(repo, c)
		if err != nil {
			return err
		}
		fmt.Fprintf(&fb, "\t%q: {\n", c.Name)
		ord := 0
		for _, f := range topLevelFuncs(p) {
			sh := funcShape(f)
			ord++
			fmt.Fprintf(&fb, "\t\t%q: {%q, %q, %d, %q},\n", rawFuncID(f), sh.Recv, sh.Sig, ord, relPkg(pkgOfFunc(f).Pkg))
		}
		fb.WriteString("\t},\n")
		fmt.Fprintf(&nb, "\t%q: {\n", c.Name)
		fmt.Fprintf(&sb, "\t%q: {\n", c.Name)
		fmt.Fprintf(&ib, "\t%q: {\n", c.Name)
		for i, o := range packageObjects(p) {
			sh, ok := namedShape(o)
			if !ok {
				continue
			}
			fmt.Fprintf(&nb, "\t\t%q: {%q, %q, %d},\n", objKey(o), sh.Kind, sh.Shape, i+1)
			if tn, isT := o.(*types.TypeName); isT {
				switch u := tn.Type().Underlying().(type) {
				case *types.Struct:
					fmt.Fprintf(&sb, "\t\t%q: {", relTypeString(tn.Type()))
					for i := 0; i < u.NumFields(); i++ {
						fmt.Fprintf(&sb, "{%q, %q}, ", u.Field(i).Name(), relTypeString(u.Field(i).Type()))
					}
					sb.WriteString("},\n")
				case *types.Interface:
					fmt.Fprintf(&ib, "\t\t%q: {", objKey(o))
					for i := 0; i < u.NumMethods(); i++ {
						fmt.Fprintf(&ib, "{%q, %q}, ", u.Method(i).Name(), relTypeString(u.Method(i).Type()))
					}
					ib.WriteString("},\n")
				}
			}
		}
		nb.WriteString("\t},\n")
		sb.WriteString("\t},\n")
		ib.WriteString("\t},\n")
	}
	b.WriteString("var inventoryFuncs = map[string]map[string]invFunc{\n" + fb.String() + "}\n\n")
	b.WriteString("var inventoryNamed = map[string]map[string]invNamed{\n" + nb.String() + "}\n\n")
	b.WriteString("var inventoryStructs = map[string]map[string][]invField{\n" + sb.String() + "}\n\n")
	b.WriteString("var inventoryIfaces = map[string]map[string][]invField{\n" + ib.String() + "}\n")
	fmt.Print(b.String())
	return nil
}

// astFieldName: the (inventoried) name of the struct field a selector expression selects; the plain selector
// name when it is not a field selection.
func astFieldName(pk *packages.Package, sel *ast.SelectorExpr) string {
	if len(canonFields) > 0 {
		if s, ok := pk.TypesInfo.Selections[sel]; ok && s.Kind() == types.FieldVal {
			recv := s.Recv()
			if p, isP := recv.Underlying().(*types.Pointer); isP {
				recv = p.Elem()
			}
			if m := canonFields[structKey(relTypeString(recv))]; m != nil {
				if old, ok := m[sel.Sel.Name]; ok {
					return old
				}
			}
		}
	}
	return sel.Sel.Name
}

// lookupByCanonName finds a package-level object by its inventoried name.
func lookupByCanonName(scope *types.Scope, name string) types.Object {
	if o := scope.Lookup(name); o != nil {
		if _, renamedAway := canonObjs[o]; !renamedAway {
			return o
		}
	}
	for _, n := range scope.Names() {
		o := scope.Lookup(n)
		if k, ok := canonObjs[o]; ok && k[strings.LastIndex(k, ".")+1:] == name {
			return o
		}
	}
	return nil
}

// structKey: the name of a struct type without type parameters / arguments, so that a generic declaration
// (`T[P constraint]`) and its instantiations (`T[*jsonNode]`) share one entry.
func structKey(s string) string {
	if i := strings.Index(s, "["); i >= 0 {
		return s[:i]
	}
	return s
}
