package main

// TAB — tables and small decision functions.

import (
	"fmt"
	"go/ast"
	"go/constant"
	"go/token"
	"go/types"
	"reflect"
	"sort"
	"strings"

	"golang.org/x/tools/go/packages"
	"golang.org/x/tools/go/ssa"
)

func init() {
	register(&Rule{ID: "TAB-1", Doc: "parse-error mapping: nodeGenerator.handleErr yields nil only for the blank-line sentinel, the empty-text sentinel for empty text, a format error carrying the row given to Parse for the format sentinel, and the error itself otherwise; Parse returns the blank-line sentinel only on its isBlank path; the format error's text contains the row", Run: ruleTAB1})
	register(&Rule{ID: "TAB-2", Doc: "bullet tables agree: {-,*,+} ⊆ listSymbols, the splitter's symbol set equals listSymbols ∪ {#}, separateRow ranges over all of listSymbols without break, the splitter decides block starts by consulting that table for the first byte", Run: ruleTAB2})
	register(&Rule{ID: "TAB-3", Doc: "file-or-directory predicate: isFile is false for a node with children, true iff some configured extension is a suffix of the name (strings.HasSuffix over the whole list), false otherwise; mkdirer and dry-run colouriser use this one predicate on the extension list from WithFileExtensions", Run: ruleTAB3})
	register(&Rule{ID: "TAB-4", Doc: "verify verdict: handleErr returns non-nil iff (strict ∧ extra≠∅) ∨ missing≠∅ (truth table over the three atoms from the function's paths), and the error carries the same lists", Run: ruleTAB4})
	register(&Rule{ID: "TAB-6", Doc: "factories: dry-run selects the colourising spreader, otherwise the encode constant selects JSON/YAML/TOML/default with the matching encoder package; the grower is the no-op only for a non-default encoding and otherwise gets last/intermediate branch formats and the dry-run flag from the config fields of the same name; struct tags of the encoded node types are value/children", Run: ruleTAB6})
	register(&Rule{ID: "TAB-7", Doc: "CLI wiring: main exits non-zero when app.Run fails; every cli.Exit code is a non-zero constant; --format json|yaml|toml select the matching WithEncode*, other values an error; --massive, --strict, --dry-run, -e, --target-dir feed WithMassive, WithStrictVerify, WithDryRun, WithFileExtensions, WithTargetDir whose results reach the library call", Run: ruleTAB7})
}

// ---------------------------------------------------------------------------------------------
// path enumeration of (nearly) loop-free functions

type pathCond struct {
	cond ssa.Value
	pol  bool
}

type fnPath struct {
	conds []pathCond
	ret   *ssa.Return
}

// enumPaths lists entry→return paths, cutting back edges; gives up (nil,false) above a bound.
func enumPaths(fn *ssa.Function) ([]fnPath, bool) {
	var out []fnPath
	onPath := map[*ssa.BasicBlock]bool{}
	var conds []pathCond
	ok := true
	var walk func(b, prev *ssa.BasicBlock)
	walk = func(b, prev *ssa.BasicBlock) {
		if !ok || onPath[b] {
			return
		}
		if len(out) > 256 {
			ok = false
			return
		}
		onPath[b] = true
		defer func() { onPath[b] = false }()
		last := b.Instrs[len(b.Instrs)-1]
		switch x := last.(type) {
		case *ssa.Return:
			out = append(out, fnPath{append([]pathCond{}, conds...), x})
		case *ssa.If:
			cond := x.Cond
			// a condition spelled with && / || is a phi in this block: on this path its value is the incoming edge's
			if ph, isPhi := cond.(*ssa.Phi); isPhi && ph.Block() == b && prev != nil {
				for i, pb := range b.Preds {
					if pb == prev && i < len(ph.Edges) {
						cond = ph.Edges[i]
					}
				}
			}
			if k, isConst := constBool(cond); isConst {
				if k {
					walk(b.Succs[0], b)
				} else {
					walk(b.Succs[1], b)
				}
				return
			}
			conds = append(conds, pathCond{cond, true})
			walk(b.Succs[0], b)
			conds[len(conds)-1].pol = false
			walk(b.Succs[1], b)
			conds = conds[:len(conds)-1]
		default:
			for _, s := range b.Succs {
				walk(s, b)
			}
		}
	}
	walk(fn.Blocks[0], nil)
	return out, ok
}

// evalTable: for every assignment over the atoms, the set of result classes of the consistent paths.
func evalTable(paths []fnPath, atoms []string, atomOf func(ssa.Value) (string, bool, bool), classOf func(*ssa.Return) string) (map[string]string, string) {
	return evalTableFree(paths, atoms, atomOf, classOf, false)
}

// evalTableFree: with free set, a condition that is none of the atoms constrains nothing (both of its sides count as
// consistent with every assignment), so the table over-approximates: a row is right only if it is right whatever
// the other conditions are.
func evalTableFree(paths []fnPath, atoms []string, atomOf func(ssa.Value) (string, bool, bool), classOf func(*ssa.Return) string, free bool) (map[string]string, string) {
	res := map[string]string{}
	for mask := 0; mask < 1<<uint(len(atoms)); mask++ {
		asg := map[string]bool{}
		key := ""
		for i, a := range atoms {
			asg[a] = mask&(1<<uint(i)) != 0
			if asg[a] {
				key += "1"
			} else {
				key += "0"
			}
		}
		classes := map[string]bool{}
		for _, p := range paths {
			consistent := true
			for _, c := range p.conds {
				cv, pol := flattenCond(c.cond, c.pol)
				name, neg, ok := atomOf(cv)
				if !ok && free {
					continue
				}
				if !ok {
					return nil, "condition " + describeValue(cv) + " is not one of the expected atoms"
				}
				want := pol != neg
				if asg[name] != want {
					consistent = false
					break
				}
			}
			if consistent {
				classes[classOf(p.ret)] = true
			}
		}
		res[key] = strings.Join(sortedKeys(classes), "|")
	}
	return res, ""
}

// lenAtom: cond is len(x) != 0 / > 0 / == 0 … for a parameter or field named name; returns (atom true means non-empty, negated).
func lenAtom(c ssa.Value) (string, bool, bool) {
	b, ok := c.(*ssa.BinOp)
	if !ok {
		return "", false, false
	}
	var lenCall *ssa.Call
	var other ssa.Value
	op := b.Op
	if lc, ok := b.X.(*ssa.Call); ok && isBuiltinCall(lc, "len") {
		lenCall, other = lc, b.Y
	} else if lc, ok := b.Y.(*ssa.Call); ok && isBuiltinCall(lc, "len") {
		lenCall, other = lc, b.X
		op = flipOp(op)
	}
	if lenCall == nil {
		return "", false, false
	}
	k, ok := constInt(other)
	if !ok {
		return "", false, false
	}
	name := describeValue(lenCall.Common().Args[0])
	switch {
	case (op == token.NEQ && k == 0) || (op == token.GTR && k == 0) || (op == token.GEQ && k == 1):
		return name, false, true
	case (op == token.EQL && k == 0) || (op == token.LSS && k == 1) || (op == token.LEQ && k == 0):
		return name, true, true
	}
	return "", false, false
}

// ---------------------------------------------------------------------------------------------
// TAB-1

func globalName(v ssa.Value) string {
	if ld, ok := isLoad(stripConv(v)); ok {
		if g, ok := ld.(*ssa.Global); ok {
			if g.Object() != nil {
				return objName(g.Object())
			}
			return g.Name()
		}
	}
	return ""
}

func ruleTAB1(w *World) []Ob {
	l := &obs{rule: "TAB-1"}
	for _, p := range []*Prog{w.D()} {
		l.cfg = p.Cfg.Name
		nc := newNilCtx(p)
		// the mapper, by role: the library function that compares an error parameter with the parser's sentinels
		var fn *ssa.Function
		for _, f := range libFuncs(p) {
			if p.PkgPath(f) != modulePath {
				continue
			}
			cmp := 0
			allInstrs(f, func(in ssa.Instruction) {
				b, ok := in.(*ssa.BinOp)
				if !ok || (b.Op != token.EQL && b.Op != token.NEQ) {
					return
				}
				for _, pr := range [][2]ssa.Value{{b.X, b.Y}, {b.Y, b.X}} {
					if _, isP := resolve(pr[0]).(*ssa.Parameter); isP && isErrorType(pr[0].Type()) && strings.HasPrefix(globalName(pr[1]), "Err") {
						cmp++
					}
				}
			})
			allInstrs(f, func(in ssa.Instruction) {
				// errors.Is(err, md.ErrX)
				if c, ok := in.(*ssa.Call); ok && calleeFullName(c.Common()) == "errors.Is" {
					if _, isP := resolve(c.Common().Args[0]).(*ssa.Parameter); isP && strings.HasPrefix(globalName(c.Common().Args[1]), "Err") {
						cmp++
					}
				}
			})
			if cmp >= 2 && (fn == nil || p.FuncID(f) < p.FuncID(fn)) {
				fn = f
			}
		}
		if fn == nil {
			l.undecided("gtree (parser error mapper)", "error mapping", "-", "no function that compares an error parameter with the markdown sentinels was found", "map")
			continue
		}
		paths, ok := enumPaths(fn)
		if !ok {
			l.undecided(p.FuncID(fn), "error mapping", p.Pos(fn.Pos()), "too many paths", "map")
			continue
		}
		var errPrm, rowPrm *ssa.Parameter
		for _, prm := range fn.Params {
			if isErrorType(prm.Type()) {
				errPrm = prm
			} else if b, ok := prm.Type().Underlying().(*types.Basic); ok && b.Kind() == types.String {
				rowPrm = prm
			}
		}
		atoms := []string{"ErrBlankLine", "ErrEmptyText", "ErrIncorrectFormat", "nilerr"}
		atomOf := func(c ssa.Value) (string, bool, bool) {
			// a defensive `err == nil` case (the mapper is only called with a non-nil error): its rows are not compared
			if tv, nonNil, ok := nilTest(c, true); ok && sameVar(tv, errPrm) {
				return "nilerr", nonNil, true
			}
			if call, ok := c.(*ssa.Call); ok && calleeFullName(call.Common()) == "errors.Is" && sameVar(call.Common().Args[0], errPrm) {
				if g := globalName(call.Common().Args[1]); g != "" {
					return g, false, true
				}
			}
			b, ok := c.(*ssa.BinOp)
			if !ok || (b.Op != token.EQL && b.Op != token.NEQ) {
				return "", false, false
			}
			var g string
			if sameVar(b.X, errPrm) {
				g = globalName(b.Y)
			} else if sameVar(b.Y, errPrm) {
				g = globalName(b.X)
			}
			if g == "" {
				return "", false, false
			}
			return g, b.Op == token.NEQ, true
		}
		// classify a returned value; errV / rowV are what stands for the parser's error and the row at this level (the
		// mapper's parameters, or the arguments a constructor helper was given for them)
		var classVal func(v ssa.Value, errV, rowV ssa.Value, at *ssa.Return, d int) string
		classVal = func(v ssa.Value, errV, rowV ssa.Value, at *ssa.Return, d int) string {
			switch {
			case isNilConst(v):
				return "nil"
			case errV != nil && sameVar(v, errV):
				return "same"
			case globalName(v) != "":
				return "sentinel:" + globalName(v)
			}
			if mi, ok := v.(*ssa.MakeInterface); ok {
				if al, ok := mi.X.(*ssa.Alloc); ok {
					tn := typeName(al.Type())
					// row field stored from the row parameter?
					rowOK := false
					for _, r2 := range *al.Referrers() {
						if fa, ok := r2.(*ssa.FieldAddr); ok {
							if _, f, _ := fieldOf(fa); f == "row" {
								for _, r3 := range *fa.Referrers() {
									if st, ok := r3.(*ssa.Store); ok && rowV != nil && sameVar(st.Val, rowV) {
										rowOK = true
									}
								}
							}
						}
					}
					if rowOK {
						return "new:" + tn + "{row}"
					}
					return "new:" + tn
				}
			}
			if c, ok := v.(*ssa.Call); ok {
				// the parser's error wrapped with %w (and more context): still that error for errors.Is / errors.As
				if calleeFullName(c.Common()) == "fmt.Errorf" && errV != nil {
					if f, ok := constString(c.Common().Args[0]); ok && strings.Count(f, "%w") == 1 {
						if elems, ok := variadicElems(c.Common().Args[len(c.Common().Args)-1]); ok {
							for _, a := range elems {
								if ci, isCI := a.(*ssa.ChangeInterface); isCI {
									a = ci.X
								}
								if isErrorType(a.Type()) && sameVar(a, errV) {
									return "same"
								}
							}
						}
					}
				}
				// a constructor helper of the module: the class all its returns agree on
				if h := c.Common().StaticCallee(); h != nil && p.InModule(h) && len(h.Blocks) > 0 && d < 2 && h.Signature.Results().Len() == 1 {
					var he, hr ssa.Value
					for i, a := range callArgs(c.Common()) {
						if i >= len(h.Params) {
							break
						}
						if errV != nil && sameVar(a, errV) {
							he = h.Params[i]
						}
						if rowV != nil && sameVar(a, rowV) {
							hr = h.Params[i]
						}
					}
					cls := map[string]bool{}
					allInstrs(h, func(in ssa.Instruction) {
						if r2, ok := in.(*ssa.Return); ok {
							cls[classVal(rr(r2)[0], he, hr, r2, d+1)] = true
						}
					})
					if len(cls) == 1 {
						for k := range cls {
							if k != "unknown" {
								return k
							}
						}
					}
				}
			}
			if at != nil && nc.nonNil(v, at, 0) {
				return "nonnil"
			}
			return "unknown"
		}
		classOf := func(r *ssa.Return) string {
			var ev, rv ssa.Value
			if errPrm != nil {
				ev = errPrm
			}
			if rowPrm != nil {
				rv = rowPrm
			}
			return classVal(rr(r)[0], ev, rv, r, 0)
		}
		tab, why := evalTable(paths, atoms, atomOf, classOf)
		if why != "" {
			l.undecided(p.FuncID(fn), "error mapping", p.Pos(fn.Pos()), why, "map")
			continue
		}
		// atoms are mutually exclusive sentinels: rows with at most one atom true
		want := map[string]string{"0000": "same", "1000": "nil", "0100": "sentinel:errEmptyText", "0010": "new:inputFormatError{row}"}
		var diffs []string
		for k, v := range want {
			if tab[k] != v {
				diffs = append(diffs, fmt.Sprintf("for %s: got %q want %q", assignmentText(atoms, k), tab[k], v))
			}
		}
		sort.Strings(diffs)
		if len(diffs) > 0 {
			l.bad(p.FuncID(fn), "error mapping", p.Pos(fn.Pos()), "the mapping of parser errors differs from the documented one: "+strings.Join(diffs, "; "), "map")
		} else {
			l.ok(p.FuncID(fn), "error mapping", p.Pos(fn.Pos()), "blank-line → nil, empty-text → errEmptyText, format → &inputFormatError{row: row}, other → unchanged (4 table rows over 3 sentinel atoms)", true, "map")
		}
		// generate hands handleErr the row it gave to Parse and returns its result
		if gen := p.Func("(*gtree.nodeGenerator).generate"); gen != nil {
			var parse, he *ssa.Call
			allInstrs(gen, func(in ssa.Instruction) {
				if c, ok := in.(*ssa.Call); ok && c.Common().StaticCallee() != nil {
					if fname(c.Common().StaticCallee()) == "Parse" {
						parse = c
					}
					if c.Common().StaticCallee() == fn {
						he = c
					}
				}
			})
			if parse != nil {
				always := true
				allInstrs(gen, func(in ssa.Instruction) {
					if r, ok := in.(*ssa.Return); ok && !parse.Block().Dominates(r.Block()) {
						always = false
					}
				})
				if always {
					l.ok(p.FuncID(gen), "every row is parsed in the current parser state", p.InstrPos(parse), "the Parse call dominates every return of generate (no cached or skipped result)", true, "parse-always")
				} else {
					l.bad(p.FuncID(gen), "every row is parsed in the current parser state", p.InstrPos(parse), "generate can return without calling Parse for this row (cache / shortcut): the parser's state learnt from earlier rows (indent unit, heading mode) is then not applied to it", "parse-always")
				}
			}
			switch {
			case parse == nil || he == nil:
				l.bad(p.FuncID(gen), "row and error handed to handleErr", p.Pos(gen.Pos()), "generate does not call Parse and handleErr", "map")
			case !mapperGetsParseResult(parse, he):
				l.bad(p.FuncID(gen), "row and error handed to handleErr", p.InstrPos(he), "handleErr does not receive Parse's error together with the row that was parsed", "map")
			default:
				l.ok(p.FuncID(gen), "row and error handed to handleErr", p.InstrPos(he), "handleErr(err of Parse(row), row)", true, "map")
			}
		}
		// the text of an item is never empty: whatever is stored as Markdown.text was tested non-empty — the very value
		// that is stored, after all trimming, not what it was trimmed from
		{
			nText := 0
			for _, f := range p.ModFuncs {
				if p.PkgPath(f) != modulePath+"/markdown" {
					continue
				}
				f := f
				num := numbered{}
				allInstrs(f, func(in ssa.Instruction) {
					st, isSt := in.(*ssa.Store)
					if !isSt {
						return
					}
					fa, isFA := st.Addr.(*ssa.FieldAddr)
					if !isFA || fieldName(fa.X.Type(), fa.Field) != "text" || !strings.HasSuffix(relTypeString(fa.X.Type()), "Markdown") {
						return
					}
					nText++
					construct := num.name("item text tested non-empty")
					if textNonEmptyAt(p, st.Val, st.Block(), 0) {
						l.ok(p.FuncID(f), construct, p.InstrPos(st), "the stored value itself is on the non-empty side of a length / \"\" test", true, "nonempty")
					} else {
						l.bad(p.FuncID(f), construct, p.InstrPos(st), "the value stored as the item's text is not the one that was tested for emptiness (the test looks at the text before trimming, or is missing): a row with markup but no text (`- `, `# `) becomes a node with an empty name instead of the empty-text error", "nonempty")
					}
				})
			}
			if nText == 0 {
				l.undecided("markdown", "item text tested non-empty", "-", "no store into Markdown.text found", "nonempty")
			}
		}
		// Parse: ErrBlankLine only under isBlank
		if parse := p.Func("(*markdown.Parser).Parse"); parse != nil {
			// Parse may be a thin wrapper (locking, bookkeeping) that hands back the results of the function doing the work
			for d := 0; d < 2; d++ {
				if h := forwardsResultsOf(p, parse); h != nil {
					parse = h
				}
			}
			bad := ""
			nBlank := 0
			allInstrs(parse, func(in ssa.Instruction) {
				r, ok := in.(*ssa.Return)
				if !ok || len(rr(r)) != 2 || globalName(rr(r)[1]) != "ErrBlankLine" {
					return
				}
				nBlank++
				under := false
				for _, g := range guardsOf(r.Block()) {
					c, pol := flattenCond(g.Cond, g.Pol)
					if call, ok := c.(*ssa.Call); ok && pol && call.Common().StaticCallee() != nil && fname(call.Common().StaticCallee()) == "isBlank" {
						under = true
					}
				}
				if !under {
					bad = "ErrBlankLine is returned at " + p.InstrPos(r) + " outside the isBlank branch: a non-blank line would be skipped silently"
				}
			})
			if bad != "" {
				l.bad(p.FuncID(parse), "blank-line sentinel only for blank rows", p.Pos(parse.Pos()), bad, "blank")
			} else if nBlank == 0 {
				l.bad(p.FuncID(parse), "blank-line sentinel only for blank rows", p.Pos(parse.Pos()), "Parse never returns ErrBlankLine: blank lines would be reported as malformed", "blank")
			} else {
				l.ok(p.FuncID(parse), "blank-line sentinel only for blank rows", p.Pos(parse.Pos()), "returned only where isBlank(row) holds", true, "blank")
			}
			// isBlank: TrimSpace(row) has length 0
			if ib := p.Func("(*markdown.Parser).isBlank"); ib != nil {
				ok := false
				allInstrs(ib, func(in ssa.Instruction) {
					if c, isC := in.(*ssa.Call); isC && calleeFullName(c.Common()) == "strings.TrimSpace" {
						ok = true
					}
				})
				if ok {
					l.ok(p.FuncID(ib), "blank means whitespace only", p.Pos(ib.Pos()), "len(strings.TrimSpace(row)) == 0", true, "blank")
				} else {
					l.bad(p.FuncID(ib), "blank means whitespace only", p.Pos(ib.Pos()), "isBlank no longer trims all surrounding white space", "blank")
				}
			}
		}
		// inputFormatError.Error contains the row
		if ef := p.Func("(*gtree.inputFormatError).Error"); ef != nil {
			ok := false
			allInstrs(ef, func(in ssa.Instruction) {
				c, isC := in.(*ssa.Call)
				if !isC || calleeFullName(c.Common()) != "fmt.Sprintf" {
					return
				}
				f, isS := constString(c.Common().Args[0])
				elems, okE := variadicElems(c.Common().Args[1])
				if isS && okE && strings.Contains(f, "%s") && len(elems) >= 1 {
					if _, fld, ok2 := fieldOfLoad(stripConv(elems[0])); ok2 && fld == "row" {
						ok = true
					}
				}
			})
			if ok {
				l.ok(p.FuncID(ef), "format error identifies the line", p.Pos(ef.Pos()), "Error() formats the stored row with %s", true, "map")
			} else {
				l.bad(p.FuncID(ef), "format error identifies the line", p.Pos(ef.Pos()), "Error() no longer includes the offending row", "map")
			}
		}
	}
	return l.list
}

func assignmentText(atoms []string, key string) string {
	var on []string
	for i, a := range atoms {
		if key[i] == '1' {
			on = append(on, a)
		}
	}
	if len(on) == 0 {
		return "none of " + strings.Join(atoms, "/")
	}
	return strings.Join(on, "∧")
}

// ---------------------------------------------------------------------------------------------
// TAB-2

func constStringsOfVar(pk *packages.Package, name string) ([]string, bool) {
	for _, f := range pk.Syntax {
		for _, d := range f.Decls {
			gd, ok := d.(*ast.GenDecl)
			if !ok || gd.Tok != token.VAR {
				continue
			}
			for _, sp := range gd.Specs {
				vs := sp.(*ast.ValueSpec)
				for i, n := range vs.Names {
					if objName(pk.TypesInfo.Defs[n]) != name || i >= len(vs.Values) {
						continue
					}
					cl, ok := vs.Values[i].(*ast.CompositeLit)
					if !ok {
						return nil, false
					}
					var out []string
					for _, e := range cl.Elts {
						if kv, ok := e.(*ast.KeyValueExpr); ok {
							e = kv.Key
						}
						tv, ok := pk.TypesInfo.Types[e]
						if !ok || tv.Value == nil || tv.Value.Kind() != constant.String {
							return nil, false
						}
						out = append(out, constant.StringVal(tv.Value))
					}
					return out, true
				}
			}
		}
	}
	return nil, false
}

func ruleTAB2(w *World) []Ob {
	p := w.D()
	l := &obs{rule: "TAB-2", cfg: "D"}
	pk := p.ModPkgs[modulePath+"/markdown"]
	if pk == nil {
		l.undecided("markdown", "symbol tables", "-", "package not loaded", "table")
		return l.list
	}
	list, ok1 := constStringsOfVar(pk, "listSymbols")
	syms, ok2 := constStringsOfVar(pk, "symbols")
	if !ok1 || !ok2 {
		l.undecided("markdown", "symbol tables", "-", "listSymbols / symbols are not composite literals of constant strings any more", "table")
		return l.list
	}
	sort.Strings(list)
	sort.Strings(syms)
	has := func(s []string, x string) bool {
		for _, y := range s {
			if x == y {
				return true
			}
		}
		return false
	}
	if has(list, "-") && has(list, "*") && has(list, "+") {
		l.ok("markdown", "listSymbols ⊇ {-,*,+}", "-", "parser bullets: "+strings.Join(list, " "), true, "table")
	} else {
		l.bad("markdown", "listSymbols ⊇ {-,*,+}", "-", "a documented bullet is missing from the parser's table: "+strings.Join(list, " "), "table")
	}
	want := append(append([]string{}, list...), "#")
	sort.Strings(want)
	if reflect.DeepEqual(want, syms) {
		l.ok("markdown", "symbols = listSymbols ∪ {#}", "-", "splitter symbols: "+strings.Join(syms, " "), true, "table")
	} else {
		l.bad("markdown", "symbols = listSymbols ∪ {#}", "-", "the splitter's symbol set ("+strings.Join(syms, " ")+") differs from the parser's bullets plus '#' ("+strings.Join(want, " ")+"): massive mode would cut blocks at other lines than the parser treats as roots", "table")
	}
	// separateRow ranges over listSymbols without break
	for _, f := range pk.Syntax {
		ast.Inspect(f, func(n ast.Node) bool {
			fd, ok := n.(*ast.FuncDecl)
			if !ok || fd.Body == nil {
				return true
			}
			// by role: the function(s) of the parser package that loop over the bullet table
			mentions := false
			ast.Inspect(fd.Body, func(m ast.Node) bool {
				if id, ok := m.(*ast.Ident); ok && pk.TypesInfo.Uses[id] != nil && pk.TypesInfo.Uses[id].Parent() == pk.Types.Scope() && objName(pk.TypesInfo.Uses[id]) == "listSymbols" {
					mentions = true
				}
				return true
			})
			if !mentions {
				return true
			}
			found := false
			isTable := func(e ast.Expr) bool {
				id, ok := e.(*ast.Ident)
				return ok && objName(pk.TypesInfo.Uses[id]) == "listSymbols"
			}
			ast.Inspect(fd.Body, func(m ast.Node) bool {
				var loopBody *ast.BlockStmt
				var rs ast.Stmt
				switch x := m.(type) {
				case *ast.RangeStmt:
					if isTable(x.X) {
						loopBody, rs = x.Body, x
					}
				case *ast.ForStmt:
					// for i := 0; i < len(listSymbols); i++
					if be, ok := x.Cond.(*ast.BinaryExpr); ok && be.Op == token.LSS {
						if c, ok := be.Y.(*ast.CallExpr); ok && len(c.Args) == 1 && isTable(c.Args[0]) {
							if fun, ok := c.Fun.(*ast.Ident); ok && fun.Name == "len" {
								if as, ok := x.Init.(*ast.AssignStmt); ok && len(as.Rhs) == 1 && isConstInt(pk, as.Rhs[0], 0) {
									if inc, ok := x.Post.(*ast.IncDecStmt); ok && inc.Tok == token.INC {
										loopBody, rs = x.Body, x
									}
								}
							}
						}
					}
				}
				if loopBody == nil {
					return true
				}
				found = true
				brk := false
				ast.Inspect(loopBody, func(k ast.Node) bool {
					switch x := k.(type) {
					case *ast.BranchStmt:
						if x.Tok == token.BREAK || x.Tok == token.GOTO {
							brk = true
						}
					case *ast.RangeStmt, *ast.ForStmt, *ast.SwitchStmt, *ast.SelectStmt:
						return false
					}
					return true
				})
				if brk {
					l.bad("(*markdown.Parser).separateRow", "all bullets are tried", p.Pos(rs.Pos()), "the loop over listSymbols can break out early: later bullet symbols are never tried", "loop")
				} else {
					l.ok("(*markdown.Parser).separateRow", "all bullets are tried", p.Pos(rs.Pos()), "range over listSymbols; the body leaves only by continue or by returning a result", true, "loop")
				}
				return false
			})
			if !found {
				l.bad("(*markdown.Parser).separateRow", "all bullets are tried", p.Pos(fd.Pos()), "separateRow no longer ranges over listSymbols", "loop")
			}
			return false
		})
	}
	// the splitter consults IsSymbol for the first byte
	if fn := p.Func("gtree.isRootBlockBeginning"); fn != nil {
		ok := false
		allInstrs(fn, func(in ssa.Instruction) {
			c, isC := in.(*ssa.Call)
			if !isC || c.Common().StaticCallee() == nil || fname(c.Common().StaticCallee()) != "IsSymbol" {
				return
			}
			arg := c.Common().Args[0]
			// string(l[0:1]) for a []byte line, string(l[0]) likewise
			for {
				if cv, isCv := arg.(*ssa.Convert); isCv {
					arg = cv.X
					continue
				}
				break
			}
			if ld, isL := isLoad(arg); isL {
				if ia, isIA := ld.(*ssa.IndexAddr); isIA {
					if k, isK := constInt(ia.Index); isK && k == 0 {
						ok = true
					}
				}
			}
			if ix, isIx := arg.(*ssa.Index); isIx {
				if k, isK := constInt(ix.Index); isK && k == 0 {
					ok = true
				}
			}
			if sl, isS := arg.(*ssa.Slice); isS {
				lo, hi := int64(0), int64(-1)
				if sl.Low != nil {
					lo, _ = constInt(sl.Low)
				}
				if sl.High != nil {
					hi, _ = constInt(sl.High)
				}
				if lo == 0 && hi == 1 {
					ok = true
				}
			}
		})
		if ok {
			l.ok("gtree.isRootBlockBeginning", "block start decided by the symbol table", p.Pos(fn.Pos()), "markdown.IsSymbol(l[0:1])", true, "split")
		} else {
			l.bad("gtree.isRootBlockBeginning", "block start decided by the symbol table", p.Pos(fn.Pos()), "the splitter no longer asks markdown.IsSymbol about the first byte of the line: its idea of a root line can drift from the parser's table", "split")
		}
	} else {
		l.undecided("gtree.isRootBlockBeginning", "block start decided by the symbol table", "-", "function not found", "split")
	}
	if fn := p.Func("markdown.IsSymbol"); fn != nil {
		ok := false
		allInstrs(fn, func(in ssa.Instruction) {
			if lk, isL := in.(*ssa.Lookup); isL && globalName(lk.X) == "symbols" {
				ok = true
			}
		})
		if ok {
			l.ok("markdown.IsSymbol", "IsSymbol looks the key up in symbols", p.Pos(fn.Pos()), "map lookup", true, "split")
		} else {
			l.bad("markdown.IsSymbol", "IsSymbol looks the key up in symbols", p.Pos(fn.Pos()), "IsSymbol is no longer a lookup in the symbols table", "split")
		}
	}
	return l.list
}

// ---------------------------------------------------------------------------------------------
// TAB-3

func ruleTAB3(w *World) []Ob {
	l := &obs{rule: "TAB-3"}
	p := w.D()
	l.cfg = "D"
	fn := p.Func("(*gtree.fileConsiderer).isFile")
	if fn == nil {
		l.undecided("(*gtree.fileConsiderer).isFile", "predicate", "-", "function not found", "pred")
		return l.list
	}
	node := fn.Params[len(fn.Params)-1]
	var problems []string
	nTrue, nFalse := 0, 0
	var hasChildGuard, suffixGuard bool
	label := func(guards []Guard) []string {
		var gs []string
		for _, g := range guards {
			c, pol := flattenCond(g.Cond, g.Pol)
			if isRangeLoopCond(c) || isIndexLoopCond(c) {
				continue
			}
			call, ok := c.(*ssa.Call)
			if !ok {
				// a defensive nil guard on the receiver or the node: not part of the decision for real nodes
				if tv, nonNil, isNil := nilTest(g.Cond, g.Pol); isNil {
					if _, isPrm := stripConv(tv).(*ssa.Parameter); isPrm {
						if !nonNil {
							gs = append(gs, "nilguard")
						}
						continue
					}
				}
				// a shortcut for the empty extension list: ∃ over nothing is false, so `false` is the specified answer there
				if bo, isB := c.(*ssa.BinOp); isB {
					if _, neg, isLen := lenAtom(c); isLen {
						var lc *ssa.Call
						if x, ok := bo.X.(*ssa.Call); ok && isBuiltinCall(x, "len") {
							lc = x
						} else if y, ok := bo.Y.(*ssa.Call); ok && isBuiltinCall(y, "len") {
							lc = y
						}
						if lc != nil {
							if _, f, okF := fieldOfLoad(lc.Common().Args[0]); okF && f == "extensions" {
								if nonEmpty := pol != neg; !nonEmpty {
									gs = append(gs, "noext")
								}
								continue
							}
						}
					}
				}
				gs = append(gs, "other:"+describeValue(c))
				continue
			}
			name := calleeFullName(call.Common())
			switch {
			case call.Common().StaticCallee() != nil && fname(call.Common().StaticCallee()) == "hasChild" && sameVar(call.Common().Args[0], node):
				gs = append(gs, fmt.Sprintf("hasChild=%v", pol))
			case name == "strings.HasSuffix":
				_, f, okF := fieldOfLoad(call.Common().Args[0])
				elemOK := false
				if ld, isL := isLoad(call.Common().Args[1]); isL {
					if ia, isIA := ld.(*ssa.IndexAddr); isIA {
						if _, ef, ok2 := fieldOfLoad(ia.X); ok2 && ef == "extensions" && inLoop(ia) {
							if _, isConst := ia.Index.(*ssa.Const); !isConst {
								elemOK = true
							}
						}
					}
				}
				if okF && f == "name" && elemOK {
					gs = append(gs, fmt.Sprintf("suffix=%v", pol))
				} else {
					gs = append(gs, "other:HasSuffix with unexpected operands")
				}
			default:
				gs = append(gs, "other:"+calleeString(call.Common()))
			}
		}
		return gs
	}
	judge := func(b bool, gs []string) {
		sort.Strings(gs)
		key := strings.Join(gs, ",")
		if b {
			nTrue++
			if key != "hasChild=false,suffix=true" {
				problems = append(problems, "`return true` under ["+key+"], expected under [no children, HasSuffix(name, extension)]")
			} else {
				suffixGuard = true
			}
		} else {
			if strings.Contains(key, "nilguard") {
				return // `return false` for a nil receiver / node
			}
			if strings.Contains(key, "noext") && !strings.Contains(key, "other:") {
				nFalse++
				return // no extension configured: nothing is a file
			}
			nFalse++
			switch key {
			case "hasChild=true":
				hasChildGuard = true
			case "hasChild=false", "hasChild=false,suffix=false":
			default:
				if strings.Contains(key, "other:") || strings.Contains(key, "suffix=true") {
					problems = append(problems, "`return false` under ["+key+"]")
				}
			}
		}
	}
	// a result is a constant, a boolean phi (&&, ||) of results, !hasChild(node), or ∃-over-extensions in library form
	var value func(v ssa.Value, guards []Guard, neg bool, pos string, d int)
	value = func(v ssa.Value, guards []Guard, neg bool, pos string, d int) {
		if b, isC := constBool(v); isC {
			judge(b != neg, label(guards))
			return
		}
		if d > 4 {
			problems = append(problems, "non-constant result at "+pos)
			return
		}
		switch x := v.(type) {
		case *ssa.Phi:
			for i, e := range x.Edges {
				pred := x.Block().Preds[i]
				gs := append([]Guard{}, guardsOf(pred)...)
				if iff, ok := pred.Instrs[len(pred.Instrs)-1].(*ssa.If); ok && pred.Succs[0] != pred.Succs[1] {
					gs = append(gs, Guard{If: iff, Cond: iff.Cond, Pol: pred.Succs[0] == x.Block(), Succ: x.Block()})
				}
				value(e, gs, neg, pos, d+1)
			}
			return
		case *ssa.UnOp:
			if x.Op == token.NOT {
				value(x.X, guards, !neg, pos, d+1)
				return
			}
		case *ssa.Call:
			if x.Common().StaticCallee() != nil && fname(x.Common().StaticCallee()) == "hasChild" && sameVar(x.Common().Args[0], node) {
				// the value hasChild(node): true under hasChild=true, false under hasChild=false
				gl := label(guards)
				judge(!neg, append(append([]string{}, gl...), "hasChild=true"))
				judge(neg, append(append([]string{}, gl...), "hasChild=false"))
				return
			}
			if existsSuffixOverExtensions(x, node) {
				gl := label(guards)
				judge(!neg, append(append([]string{}, gl...), "suffix=true"))
				judge(neg, append(append([]string{}, gl...), "suffix=false"))
				return
			}
		}
		problems = append(problems, "non-constant result at "+pos)
	}
	allInstrs(fn, func(in ssa.Instruction) {
		if r, ok := in.(*ssa.Return); ok {
			// a return shared by the arms of `a || b` has no dominating guard of its own: judge it once per incoming edge
			if _, isC := constBool(rr(r)[0]); isC && len(r.Block().Preds) > 1 && len(r.Block().Instrs) == 1 {
				for _, pred := range r.Block().Preds {
					gs := append([]Guard{}, guardsOf(pred)...)
					if iff, ok := pred.Instrs[len(pred.Instrs)-1].(*ssa.If); ok && pred.Succs[0] != pred.Succs[1] {
						gs = append(gs, Guard{If: iff, Cond: iff.Cond, Pol: pred.Succs[0] == r.Block(), Succ: r.Block()})
					}
					value(rr(r)[0], gs, false, p.InstrPos(r), 0)
				}
				return
			}
			value(rr(r)[0], guardsOf(r.Block()), false, p.InstrPos(r), 0)
		}
	})
	if !hasChildGuard {
		problems = append(problems, "no `return false` for a node that has children")
	}
	if !suffixGuard {
		problems = append(problems, "no `return true` for a childless node whose name has a configured suffix")
	}
	if len(problems) > 0 {
		l.bad(p.FuncID(fn), "isFile = no children ∧ ∃ extension: HasSuffix(name, extension)", p.Pos(fn.Pos()), strings.Join(dedupSorted(problems), "; "), "pred")
	} else {
		l.ok(p.FuncID(fn), "isFile = no children ∧ ∃ extension: HasSuffix(name, extension)", p.Pos(fn.Pos()), fmt.Sprintf("%d true-return under (¬hasChild, HasSuffix over every element of extensions), %d false-returns", nTrue, nFalse), true, "pred")
	}
	// users: every module call of a predicate named isFile resolves to this function; extension list provenance
	ff := optionField(p, "WithFileExtensions")
	users := 0
	for _, ci := range p.Callers(fn) {
		users++
		_ = ci
	}
	if users < 2 {
		l.bad(p.FuncID(fn), "one predicate for mkdir and dry-run", p.Pos(fn.Pos()), fmt.Sprintf("isFile has %d caller(s); the mkdirer and the dry-run colouriser must both decide with it", users), "users")
	} else {
		var where []string
		for _, ci := range p.Callers(fn) {
			where = append(where, p.FuncID(ci.Parent()))
		}
		sort.Strings(where)
		needM, needC := false, false
		for _, x := range where {
			if strings.Contains(x, "kdirer") {
				needM = true
			}
			if strings.Contains(x, "olorize") {
				needC = true
			}
		}
		if needM && needC {
			l.ok(p.FuncID(fn), "one predicate for mkdir and dry-run", p.Pos(fn.Pos()), "called from "+strings.Join(dedup(where), ", "), true, "users")
		} else {
			l.bad(p.FuncID(fn), "one predicate for mkdir and dry-run", p.Pos(fn.Pos()), "callers are "+strings.Join(dedup(where), ", ")+": the mkdirer and the colouriser no longer share the predicate", "users")
		}
	}
	if ff == "" {
		l.undecided("gtree.WithFileExtensions", "extensions field", "-", "config field stored by WithFileExtensions not found", "anchor")
		return l.list
	}
	for _, pp := range []*Prog{p, w.W()} {
		l.cfg = pp.Cfg.Name
		for _, f2 := range libFuncs(pp) {
			allInstrs(f2, func(in ssa.Instruction) {
				st, ok := in.(*ssa.Store)
				if !ok {
					return
				}
				fa, ok := st.Addr.(*ssa.FieldAddr)
				if !ok {
					return
				}
				tn, f, _ := fieldOf(fa)
				if tn != "fileConsiderer" || f != "extensions" {
					return
				}
				var bad []string
				from := false
				for _, lf := range provenance(pp, st.Val, 0, map[ssa.Value]bool{}) {
					if lf.kind == "cfg."+ff {
						from = true
					} else {
						bad = append(bad, lf.desc)
					}
				}
				if pp.Cfg.Name == "W" && fileInD(w, pp.Fset.Position(f2.Pos()).Filename) {
					// shared constructor: its callers differ per variant, keep the obligation
				}
				if from && len(bad) == 0 {
					l.ok(pp.FuncID(f2), "extension list comes from WithFileExtensions", pp.InstrPos(st), "every origin of the stored list is config."+ff, true, "ext")
				} else {
					l.bad(pp.FuncID(f2), "extension list comes from WithFileExtensions", pp.InstrPos(st), "the predicate's extension list has other origins: "+strings.Join(dedupSorted(bad), ", "), "ext")
				}
			})
		}
	}
	// mkdirer: file side creates a file, directory side only directories
	l.cfg = "D"
	if mf := p.Func("(*gtree.defaultMkdirerSimple).makeDirectoriesAndFiles"); mf != nil {
		sites := directSites(p)
		reach := func(f *ssa.Function, callee string) bool {
			return findPath(p, f, func(g *ssa.Function) bool {
				for _, s := range sites[g] {
					if s.callee == callee {
						return true
					}
				}
				return false
			}, nil) != nil
		}
		var problems []string
		nCreate := 0
		// the functions the mkdirer's work is spread over; those that ask isFile decide the kind
		fam := reachableFrom(p, []*ssa.Function{mf}, func(f *ssa.Function) bool { return recvTypeName(f) == "Node" || f == fn })
		guards := map[*ssa.Function]bool{}
		for f := range fam {
			allInstrs(f, func(in ssa.Instruction) {
				if c, ok := in.(*ssa.Call); ok && c.Common().StaticCallee() == fn {
					guards[f] = true
				}
			})
		}
		var famList []*ssa.Function
		for f := range fam {
			famList = append(famList, f)
		}
		sort.Slice(famList, func(i, j int) bool { return p.FuncID(famList[i]) < p.FuncID(famList[j]) })
		for _, f := range famList {
			f := f
			allInstrs(f, func(in ssa.Instruction) {
				c, ok := in.(*ssa.Call)
				if !ok || c.Common().StaticCallee() == nil {
					return
				}
				callee := c.Common().StaticCallee()
				if callee == f || callee == mf || guards[callee] || !p.InModule(callee) {
					return // recursion and kind-deciding functions are judged in their own bodies
				}
				if !reach(callee, "os.Create") {
					return
				}
				isFileSide := ""
				for _, g := range guardsOf(c.Block()) {
					cd, pol := flattenCond(g.Cond, g.Pol)
					if cc, ok := cd.(*ssa.Call); ok && cc.Common().StaticCallee() == fn {
						isFileSide = fmt.Sprint(pol)
					}
				}
				nCreate++
				if isFileSide != "true" && !calledOnlyOnTrueSide(p, f, fn, fam, 0) {
					problems = append(problems, "a file is created at "+p.InstrPos(c)+" outside the isFile side")
				}
			})
		}
		if nCreate == 0 {
			problems = append(problems, "no file creation on the isFile side")
		}
		if len(problems) > 0 {
			l.bad(p.FuncID(mf), "file iff isFile", p.Pos(mf.Pos()), strings.Join(problems, "; "), "kind")
		} else {
			l.ok(p.FuncID(mf), "file iff isFile", p.Pos(mf.Pos()), "os.Create is reached only on the true side of isFile(current)", true, "kind")
		}
	}
	return l.list
}

// ---------------------------------------------------------------------------------------------
// TAB-4

func ruleTAB4(w *World) []Ob {
	p := w.D()
	l := &obs{rule: "TAB-4", cfg: "D"}
	nc := newNilCtx(p)
	fn := p.Func("(*gtree.defaultVerifierSimple).handleErr")
	if fn == nil {
		l.undecided("(*gtree.defaultVerifierSimple).handleErr", "verdict", "-", "function not found", "verdict")
		return l.list
	}
	paths, ok := enumPaths(fn)
	if !ok {
		l.undecided(p.FuncID(fn), "verdict", p.Pos(fn.Pos()), "too many paths", "verdict")
		return l.list
	}
	// atoms: strict, extra, missing — the two slice params in declaration order
	var slices []*ssa.Parameter
	for _, prm := range fn.Params {
		if _, ok := prm.Type().Underlying().(*types.Slice); ok {
			slices = append(slices, prm)
		}
	}
	if len(slices) != 2 {
		l.undecided(p.FuncID(fn), "verdict", p.Pos(fn.Pos()), "expected two slice parameters (extra, missing)", "verdict")
		return l.list
	}
	atoms := []string{"strict", "extra", "missing"}
	atomOf := func(c ssa.Value) (string, bool, bool) {
		if _, f, ok := fieldOfLoad(c); ok && f == "strict" {
			return "strict", false, true
		}
		if name, neg, ok := lenAtom(c); ok {
			switch name {
			case slices[0].Name():
				return "extra", neg, true
			case slices[1].Name():
				return "missing", neg, true
			}
		}
		return "", false, false
	}
	classOf := func(r *ssa.Return) string {
		if nc.nonNil(rr(r)[0], r, 0) {
			return "err"
		}
		if isNilConst(rr(r)[0]) {
			return "nil"
		}
		return "unknown"
	}
	tab, why := evalTableFree(paths, atoms, atomOf, classOf, true)
	if why != "" {
		l.undecided(p.FuncID(fn), "verdict", p.Pos(fn.Pos()), why, "verdict")
		return l.list
	}
	var diffs []string
	for mask := 0; mask < 8; mask++ {
		s, e, m := mask&1 != 0, mask&2 != 0, mask&4 != 0
		key := ""
		for _, b := range []bool{s, e, m} {
			if b {
				key += "1"
			} else {
				key += "0"
			}
		}
		want := "nil"
		if (s && e) || m {
			want = "err"
		}
		if tab[key] != want {
			diffs = append(diffs, fmt.Sprintf("strict=%v extra≠∅=%v missing≠∅=%v: got %s want %s", s, e, m, tab[key], want))
		}
	}
	if len(diffs) > 0 {
		l.bad(p.FuncID(fn), "verdict = (strict ∧ extra≠∅) ∨ missing≠∅", p.Pos(fn.Pos()), strings.Join(diffs, "; "), "verdict")
	} else {
		l.ok(p.FuncID(fn), "verdict = (strict ∧ extra≠∅) ∨ missing≠∅", p.Pos(fn.Pos()), "all 8 rows of the truth table agree", true, "verdict")
	}
	// the required paths of a root are collected in a map of that root's own: a map made once and filled for several
	// roots (from a loop over the roots) mixes their paths, and whatever then separates them again is a decision on
	// path strings that the per-root map never needed
	if fill := p.Func("(*gtree.defaultVerifierSimple).fillDirsMarkdown"); fill != nil {
		nFill := 0
		for _, ci := range p.Callers(fill) {
			c, isCall := ci.(*ssa.Call)
			if !isCall || c.Parent() == fill {
				continue
			}
			var m ssa.Value
			for _, a := range c.Common().Args {
				if _, isMap := a.Type().Underlying().(*types.Map); isMap {
					m = a
				}
			}
			if m == nil {
				continue
			}
			nFill++
			construct := "required paths collected per root"
			mk, isMk := resolve(m).(*ssa.MakeMap)
			switch {
			case !isMk:
				// handed in: every call site of this function must make the map for this one call
				okAll := true
				if prm, isP := resolve(m).(*ssa.Parameter); isP && prm.Parent() != nil {
					idx := paramIndex(prm.Parent(), prm)
					for _, ci2 := range p.Callers(prm.Parent()) {
						args := callArgs(ci2.Common())
						if idx < 0 || idx >= len(args) {
							okAll = false
							continue
						}
						mk2, isMk2 := resolve(args[idx]).(*ssa.MakeMap)
						if !isMk2 || (inLoop(ci2.(ssa.Instruction)) && !inLoop(mk2)) {
							okAll = false
						}
					}
				} else {
					okAll = false
				}
				if okAll {
					l.ok(p.FuncID(c.Parent()), construct, p.InstrPos(c), "the map is handed in, and every call site makes it for that one call", true, "per-root")
				} else {
					l.bad(p.FuncID(c.Parent()), construct, p.InstrPos(c), "the map that collects the required paths is not made for this one root (it is handed in from a place that makes it once for several roots, or its origin is not a make): the paths of different roots are mixed", "per-root")
				}
			case inLoop(c) && !inLoop(mk):
				l.bad(p.FuncID(c.Parent()), construct, p.InstrPos(c), "one map, made outside the loop over the roots, is filled with the required paths of every root: the paths of different roots are mixed and have to be told apart again by their strings", "per-root")
			default:
				l.ok(p.FuncID(c.Parent()), construct, p.InstrPos(c), "the map is made in the function that handles this one root", true, "per-root")
			}
		}
		if nFill == 0 {
			l.undecided("(*gtree.defaultVerifierSimple).fillDirsMarkdown", "required paths collected per root", "-", "no non-recursive call found", "per-root")
		}
	}
	// the error carries the lists it was given — as they are, or reordered / copied (never filtered) by a helper
	var permOf func(v, src ssa.Value, d int) bool
	permOf = func(v, src ssa.Value, d int) bool {
		if d > 4 {
			return false
		}
		if sameVar(v, src) {
			return true
		}
		if ph, ok := v.(*ssa.Phi); ok {
			for _, e := range ph.Edges {
				if !permOf(e, src, d+1) {
					return false
				}
			}
			return len(ph.Edges) > 0
		}
		c, ok := resolve(v).(*ssa.Call)
		if !ok {
			return false
		}
		name := calleeFullName(c.Common())
		if f := c.Common().StaticCallee(); f != nil && f.Origin() != nil {
			name = f.Origin().String()
		}
		switch name {
		case "slices.Clone", "slices.Sorted", "slices.Values", "slices.Collect", "slices.SortedFunc", "slices.SortedStableFunc":
			return len(c.Common().Args) > 0 && permOf(c.Common().Args[0], src, d+1)
		}
		h := c.Common().StaticCallee()
		if h == nil || !p.InModule(h) || len(h.Blocks) == 0 {
			return false
		}
		args := callArgs(c.Common())
		idx := -1
		for i, a := range args {
			if sameVar(a, src) {
				idx = i
			}
		}
		if idx < 0 || idx >= len(h.Params) {
			return false
		}
		all, n := true, 0
		allInstrs(h, func(in ssa.Instruction) {
			if r, ok := in.(*ssa.Return); ok && len(rr(r)) == 1 {
				n++
				if !permOf(rr(r)[0], h.Params[idx], d+1) {
					all = false
				}
			}
		})
		return all && n > 0
	}
	carries := map[string]bool{}
	allInstrs(fn, func(in ssa.Instruction) {
		st, ok := in.(*ssa.Store)
		if !ok {
			return
		}
		if fa, ok := st.Addr.(*ssa.FieldAddr); ok {
			_, f, _ := fieldOf(fa)
			switch {
			case permOf(st.Val, slices[0], 0):
				carries["extra→"+f] = true
			case permOf(st.Val, slices[1], 0):
				carries["missing→"+f] = true
			}
		}
	})
	// through a constructor: newVerifyError(…, extra, missing) whose parameters are stored into the fields
	allInstrs(fn, func(in ssa.Instruction) {
		c, ok := in.(*ssa.Call)
		if !ok || c.Common().StaticCallee() == nil || !p.InModule(c.Common().StaticCallee()) {
			return
		}
		g := c.Common().StaticCallee()
		for i, a := range c.Common().Args {
			if i >= len(g.Params) {
				continue
			}
			which := ""
			switch {
			case sameVar(a, slices[0]):
				which = "extra"
			case sameVar(a, slices[1]):
				which = "missing"
			default:
				continue
			}
			allInstrs(g, func(in2 ssa.Instruction) {
				if st, ok := in2.(*ssa.Store); ok {
					if fa, ok := st.Addr.(*ssa.FieldAddr); ok && sameVar(st.Val, g.Params[i]) {
						_, f, _ := fieldOf(fa)
						carries[which+"→"+f] = true
					}
				}
			})
		}
	})
	if carries["extra→extra"] && carries["missing→noExists"] {
		l.ok(p.FuncID(fn), "error lists are the computed lists", p.Pos(fn.Pos()), "extra → verifyError.extra, missing → verifyError.noExists", true, "verdict")
	} else {
		l.bad(p.FuncID(fn), "error lists are the computed lists", p.Pos(fn.Pos()), "the verify error does not carry extra/missing in the fields of the same meaning ("+strings.Join(sortedKeys(carries), ", ")+")", "verdict")
	}
	// the walk follows a root that is a symbolic link: fs.WalkDir over os.DirFS opens the root, whereas
	// filepath.WalkDir / filepath.Walk lstat it and do not descend
	verifyFam := func(vr *ssa.Function) []*ssa.Function {
		// verifyRoot, the helpers it is split into and their closures
		var fam []*ssa.Function
		for f := range reachableFrom(p, []*ssa.Function{vr}, func(f *ssa.Function) bool { return recvTypeName(f) == "Node" }) {
			fam = append(fam, f)
		}
		sort.Slice(fam, func(i, j int) bool { return p.FuncID(fam[i]) < p.FuncID(fam[j]) })
		return fam
	}
	if vr := p.Func("(*gtree.defaultVerifierSimple).verifyRoot"); vr != nil {
		fam := verifyFam(vr)
		walk := ""
		for _, f := range fam {
			allInstrs(f, func(in ssa.Instruction) {
				if c, ok := in.(*ssa.Call); ok {
					switch n := calleeFullName(c.Common()); n {
					case "io/fs.WalkDir", "path/filepath.WalkDir", "path/filepath.Walk":
						walk = n
					}
				}
			})
		}
		// … and nothing decides beforehand, by looking at the root without following links, whether to walk at all
		lstatAt, condAt := "", ""
		for _, f := range fam {
			f := f
			allInstrs(f, func(in ssa.Instruction) {
				c, ok := in.(*ssa.Call)
				if !ok {
					return
				}
				switch calleeFullName(c.Common()) {
				case "os.Lstat", "(*os.Root).Lstat", "io/fs.Lstat", "os.Readlink":
					lstatAt = p.InstrPos(c)
				case "io/fs.WalkDir":
					for _, g := range guardsOf(c.Block()) {
						// error tests and nil guards (a nil root has nothing to walk) are not decisions about the directory
						if _, _, isNil := nilTest(g.Cond, g.Pol); isNil {
							continue
						}
						cd, _ := flattenCond(g.Cond, g.Pol)
						if isRangeLoopCond(cd) || isIndexLoopCond(cd) {
							continue
						}
						condAt = p.InstrPos(g.If) + " (" + describeValue(cd) + ")"
					}
				}
			})
		}
		switch {
		case walk == "io/fs.WalkDir" && lstatAt != "":
			walk = "lstat"
			l.bad(p.FuncID(vr), "directory walk opens its root", p.Pos(vr.Pos()), "the root is examined with Lstat at "+lstatAt+", which does not follow a symbolic link: a root that is a symlink to a directory is taken for a non-directory and every node below it is reported missing although it exists", "sets")
		case walk == "io/fs.WalkDir" && condAt != "":
			walk = "cond"
			l.bad(p.FuncID(vr), "directory walk opens its root", p.Pos(vr.Pos()), "whether the root is walked at all depends on the condition at "+condAt+": on the other side the entries beneath the root are never compared with the tree", "sets")
		}
		switch walk {
		case "lstat", "cond":
		case "io/fs.WalkDir":
			l.ok(p.FuncID(vr), "directory walk opens its root", p.Pos(vr.Pos()), "fs.WalkDir over os.DirFS(root): a root that is a symlink to a directory is descended like any directory", false, "sets")
		case "":
			l.undecided(p.FuncID(vr), "directory walk opens its root", p.Pos(vr.Pos()), "no directory walk found in verifyRoot", "sets")
		default:
			l.bad(p.FuncID(vr), "directory walk opens its root", p.Pos(vr.Pos()), walk+" lstats its root and does not follow a symbolic link there: every node below a symlinked root is reported missing although it exists", "sets")
		}
	}
	// the directory walk visits everything: its callback never prunes (fs.SkipDir / fs.SkipAll)
	if vr := p.Func("(*gtree.defaultVerifierSimple).verifyRoot"); vr != nil {
		var cbs []*ssa.Function
		for _, f := range verifyFam(vr) {
			allInstrs(f, func(in ssa.Instruction) {
				if c, ok := in.(*ssa.Call); ok && len(c.Common().Args) == 3 {
					switch calleeFullName(c.Common()) {
					case "io/fs.WalkDir", "path/filepath.WalkDir", "path/filepath.Walk":
						switch cb := resolve(c.Common().Args[2]).(type) {
						case *ssa.MakeClosure:
							cbs = append(cbs, cb.Fn.(*ssa.Function))
						case *ssa.Function:
							cbs = append(cbs, cb)
						}
					}
				}
			})
		}
		if len(cbs) == 0 {
			l.undecided(p.FuncID(vr), "walk callback never prunes", p.Pos(vr.Pos()), "the callback of the directory walk could not be identified", "sets")
		}
		for _, cb := range cbs {
			bad := ""
			allInstrs(cb, func(in ssa.Instruction) {
				r, ok := in.(*ssa.Return)
				if !ok || len(rr(r)) != 1 {
					return
				}
				if g := globalName(rr(r)[0]); g == "SkipDir" || g == "SkipAll" {
					bad = "returns fs." + g + " at " + p.InstrPos(r)
				}
			})
			if bad != "" {
				l.bad(p.FuncID(cb), "walk callback never prunes", p.Pos(cb.Pos()), "the WalkDir callback "+bad+": entries below the pruned directory are never compared, so extra paths go unreported", "sets")
			} else {
				l.ok(p.FuncID(cb), "walk callback never prunes", p.Pos(cb.Pos()), "no fs.SkipDir / fs.SkipAll result", true, "sets")
			}
		}
	}
	// verifyRoot: which list is which — extra = on disk ∧ not in markdown; missing = in markdown ∧ not on disk
	if vr := p.Func("(*gtree.defaultVerifierSimple).verifyRoot"); vr != nil {
		okAll := true
		var why []string
		fam := verifyFam(vr)
		lookupsNeg := 0
		for _, f := range fam {
			allInstrs(f, func(in ssa.Instruction) {
				lk, ok := in.(*ssa.Lookup)
				if !ok || !lk.CommaOk {
					return
				}
				// found-flag false ⇒ append
				for _, r := range *lk.Referrers() {
					ex, ok := r.(*ssa.Extract)
					if !ok || ex.Index != 1 {
						continue
					}
					for _, r2 := range *ex.Referrers() {
						if _, isIf := r2.(*ssa.If); isIf {
							lookupsNeg++
						}
					}
				}
			})
		}
		// one map from path to "met on disk" is the same comparison: the second membership test is then the bool
		// value looked at while ranging over that map
		for _, f := range fam {
			allInstrs(f, func(in ssa.Instruction) {
				ex, ok := in.(*ssa.Extract)
				if !ok || ex.Index != 2 {
					return
				}
				nx, ok := ex.Tuple.(*ssa.Next)
				if !ok || nx.IsString {
					return
				}
				if b, isB := ex.Type().Underlying().(*types.Basic); !isB || b.Kind() != types.Bool {
					return
				}
				for _, r := range *ex.Referrers() {
					switch x := r.(type) {
					case *ssa.If:
						lookupsNeg++
					case *ssa.UnOp:
						for _, r2 := range *x.Referrers() {
							if _, isIf := r2.(*ssa.If); isIf {
								lookupsNeg++
							}
						}
					}
				}
			})
		}
		if lookupsNeg < 2 {
			okAll = false
			why = append(why, "expected two membership tests (disk entry ∉ markdown set ⇒ extra; markdown path ∉ disk set ⇒ missing)")
		}
		// both sets are keyed by strings built the same way: every key is a filepath.Join result (or comes out of one
		// of the sets again); a key assembled by concatenation on one side differs from the other side's cleaned path
		// for some inputs ("." roots, doubled separators)
		keyBad := ""
		nKeys := 0
		var originOK func(v ssa.Value, d int) bool
		originOK = func(v ssa.Value, d int) bool {
			if d > 6 {
				return false
			}
			v = resolve(stripConv(v))
			switch x := v.(type) {
			case *ssa.Call:
				if calleeFullName(x.Common()) == "path/filepath.Join" || calleeFullName(x.Common()) == "path/filepath.Clean" {
					return true
				}
				if f := x.Common().StaticCallee(); f != nil && p.InModule(f) && f.Blocks != nil && !callsItself(f) {
					// a path helper: every return is itself a joined path
					n, all := 0, true
					allInstrs(f, func(in ssa.Instruction) {
						if r, ok := in.(*ssa.Return); ok && len(rr(r)) == 1 {
							n++
							if !originOK(rr(r)[0], d+1) {
								all = false
							}
						}
					})
					return all && n > 0
				}
				return false
			case *ssa.Phi:
				for _, e := range x.Edges {
					if !originOK(e, d+1) {
						return false
					}
				}
				return true
			case *ssa.Extract:
				if _, isNext := x.Tuple.(*ssa.Next); isNext {
					return true // a key taken out of one of the sets
				}
			case *ssa.Parameter:
				return true // judged at the call sites that build it
			case *ssa.UnOp:
				if x.Op == token.MUL {
					if al, ok := x.X.(*ssa.Alloc); ok {
						for _, st := range cellStores(al) {
							if !originOK(st.Val, d+1) {
								return false
							}
						}
						return len(cellStores(al)) > 0
					}
					if fv, ok := x.X.(*ssa.FreeVar); ok {
						sts := cellStores(rootCell(fv))
						for _, st := range sts {
							if !originOK(st.Val, d+1) {
								return false
							}
						}
						return len(sts) > 0
					}
				}
			}
			return false
		}
		for _, f := range fam {
			f := f
			allInstrs(f, func(in ssa.Instruction) {
				var key ssa.Value
				var m ssa.Value
				switch x := in.(type) {
				case *ssa.MapUpdate:
					key, m = x.Key, x.Map
				case *ssa.Lookup:
					key, m = x.Index, x.X
				default:
					return
				}
				mt, ok := m.Type().Underlying().(*types.Map)
				if !ok {
					return
				}
				if b, ok := mt.Key().Underlying().(*types.Basic); !ok || b.Kind() != types.String {
					return
				}
				nKeys++
				if !originOK(key, 0) {
					keyBad = "the set key at " + p.InstrPos(in) + " is not a filepath.Join result (" + describeValue(key) + "): the directory side and the Markdown side of the comparison are spelled differently for some roots, so existing paths are reported missing and extra"
				}
			})
		}
		if keyBad != "" {
			l.bad(p.FuncID(vr), "both path sets are keyed by joined paths", p.Pos(vr.Pos()), keyBad, "sets")
		} else if nKeys > 0 {
			l.ok(p.FuncID(vr), "both path sets are keyed by joined paths", p.Pos(vr.Pos()), fmt.Sprintf("%d set keys, each a filepath.Join result or a key taken from a set", nKeys), true, "sets")
		}
		if okAll {
			l.ok(p.FuncID(vr), "two membership tests feed the two lists", p.Pos(vr.Pos()), fmt.Sprintf("%d comma-ok map lookups decide list membership", lookupsNeg), true, "sets")
		} else {
			l.bad(p.FuncID(vr), "two membership tests feed the two lists", p.Pos(vr.Pos()), strings.Join(why, "; "), "sets")
		}
	}
	return l.list
}

// ---------------------------------------------------------------------------------------------
// TAB-6

func structTags(p *Prog, typeName string) map[string]string {
	pk := p.ModPkgs[modulePath]
	out := map[string]string{}
	if pk == nil {
		return out
	}
	obj := lookupByCanonName(pk.Types.Scope(), typeName)
	if obj == nil {
		return nil
	}
	st, ok := obj.Type().Underlying().(*types.Struct)
	if !ok {
		return nil
	}
	for i := 0; i < st.NumFields(); i++ {
		out[st.Field(i).Name()] = st.Tag(i)
	}
	return out
}

func ruleTAB6(w *World) []Ob {
	l := &obs{rule: "TAB-6"}
	// struct tags
	for _, pp := range []*Prog{w.D(), w.W()} {
		l.cfg = pp.Cfg.Name
		for _, tn := range []struct{ typ, key string }{{"jsonNode", "json"}, {"yamlNode", "yaml"}, {"tomlNode", "toml"}} {
			if pp.Cfg.Name == "W" && tn.typ != "jsonNode" {
				continue
			}
			tags := structTags(pp, tn.typ)
			if tags == nil {
				l.undecided("gtree."+tn.typ, "struct tags", "-", "type not found", "tags")
				continue
			}
			// the library encoder must see the plain struct: no hand-written (un)marshalling methods
			if ms := customMarshalMethods(pp, tn.typ); len(ms) > 0 {
				l.bad("gtree."+tn.typ, "no custom marshalling", "-", "the encoded node type defines "+strings.Join(ms, ", ")+": quoting of hostile names is then no longer the standard encoder's", "tags")
			} else {
				l.ok("gtree."+tn.typ, "no custom marshalling", "-", "encoding is left to the library encoder", false, "tags")
			}
			wantN := reflect.StructTag(tags["Name"]).Get(tn.key)
			wantC := reflect.StructTag(tags["Children"]).Get(tn.key)
			if wantN == "value" && wantC == "children" {
				l.ok("gtree."+tn.typ, "struct tags", "-", tn.key+`:"value" / `+tn.key+`:"children"`, false, "tags")
			} else {
				l.bad("gtree."+tn.typ, "struct tags", "-", fmt.Sprintf("the encoded record must have keys value/children; tags are Name:%q Children:%q", tags["Name"], tags["Children"]), "tags")
			}
		}
	}
	// factories
	for _, spec := range []struct {
		p    *Prog
		ctor string
	}{{w.D(), "gtree.newTreeSimple"}, {w.D(), "gtree.newTreePipeline"}, {w.W(), "gtree.newTree"}} {
		p := spec.p
		l.cfg = p.Cfg.Name
		ctor := p.Func(spec.ctor)
		if ctor == nil {
			l.undecided(spec.ctor, "factories", "-", "constructor not found", "factory")
			continue
		}
		// the values stored into the tree's grower / spreader fields, as alternatives over the config
		var cfgPrm *ssa.Parameter
		for _, prm := range ctor.Params {
			if typeName(prm.Type()) == "config" {
				cfgPrm = prm
			}
		}
		allInstrs(ctor, func(in ssa.Instruction) {
			st, ok := in.(*ssa.Store)
			if !ok {
				return
			}
			fa, ok := st.Addr.(*ssa.FieldAddr)
			if !ok {
				return
			}
			_, f, _ := fieldOf(fa)
			if f != "grower" && f != "spreader" {
				return
			}
			ev := newCaseEval(p, nil)
			cs := ev.cases(st.Val, 0)
			cfgName := "cfg"
			if cfgPrm != nil {
				cfgName = cfgPrm.Name()
			}
			norm := func(t string) string {
				t = strings.ReplaceAll(t, "("+cfgName+")", "(cfg)")
				t = strings.ReplaceAll(t, "Simple", "")
				t = strings.ReplaceAll(t, "Pipeline", "")
				return t
			}
			for i := range cs {
				cs[i].term = norm(cs[i].term)
				m := map[string]bool{}
				for k, v := range cs[i].conds {
					m[norm(k)] = v
				}
				cs[i].conds = m
			}
			switch f {
			case "grower":
				g := byAtom(cs, "(encode(cfg)==0)")
				wantReal := "newGrower(lastNodeFormat(cfg),intermedialNodeFormat(cfg),dryrun(cfg))"
				if len(g["true"]) >= 1 && allCallsStartWith(g["true"], wantReal) {
					l.ok(p.FuncID(ctor), "grower factory: the real grower gets formats and dry-run flag", p.InstrPos(st), wantReal+" for the default encoding", true, "factory")
				} else {
					l.bad(p.FuncID(ctor), "grower factory: the real grower gets formats and dry-run flag", p.InstrPos(st), fmt.Sprintf("for the default encoding the grower is %v (other cases %v), expected %s: branch strings or the dry-run validation flag do not reach the grower", g["true"], g["*"], wantReal), "factory")
				}
				if len(g["false"]) == 1 && g["false"][0] == "newNopGrower()" && len(g["*"]) == 0 {
					l.ok(p.FuncID(ctor), "grower factory: no-op exactly for a non-default encoding", p.InstrPos(st), "encode ≠ default → no-op grower", true, "factory-nop")
				} else {
					l.bad(p.FuncID(ctor), "grower factory: no-op exactly for a non-default encoding", p.InstrPos(st), fmt.Sprintf("for a non-default encoding the grower is %v (unconditional cases %v), expected newNopGrower()", g["false"], g["*"]), "factory-nop")
				}
			case "spreader":
				g := byAtom(cs, "dryrun(cfg)")
				okT := len(g["true"]) >= 1 && allCallsStartWith(g["true"], "newColorizeSpreader(fileExtensions(cfg))")
				okF := len(g["false"]) >= 1 && allCallsStartWith(g["false"], "newSpreader(encode(cfg))")
				if okT && okF && len(g["*"]) == 0 {
					l.ok(p.FuncID(ctor), "spreader factory: dry-run ⇒ colourising spreader", p.InstrPos(st), "dryrun → newColorizeSpreader*(fileExtensions); otherwise newSpreader*(encode)", true, "factory")
				} else {
					l.bad(p.FuncID(ctor), "spreader factory: dry-run ⇒ colourising spreader", p.InstrPos(st), fmt.Sprintf("dry-run selects %v, otherwise %v (unconditional %v); expected newColorizeSpreader*(fileExtensions) / newSpreader*(encode)", g["true"], g["false"], g["*"]), "factory")
				}
			}
		})
	}
	// grower constructors store the formats into fields of the same name
	for _, pp := range []*Prog{w.D(), w.W()} {
		l.cfg = pp.Cfg.Name
		for _, fn := range libFuncs(pp) {
			if pp.Cfg.Name == "W" && !wOnlyFunc(w, fn) {
				continue
			}
			if !strings.HasPrefix(fname(fn), "newGrow") {
				continue
			}
			allInstrs(fn, func(in ssa.Instruction) {
				st, ok := in.(*ssa.Store)
				if !ok {
					return
				}
				fa, ok := st.Addr.(*ssa.FieldAddr)
				if !ok {
					return
				}
				_, f, _ := fieldOf(fa)
				if f != "lastNodeFormat" && f != "intermedialNodeFormat" && f != "enabledValidation" {
					return
				}
				src := describeValue(resolve(st.Val))
				construct := "field " + f + " of the grower"
				okSrc := false
				if prm, isP := resolve(st.Val).(*ssa.Parameter); isP {
					// by position among the parameters of that type: (last format, intermediate format, validation flag)
					var sameType []*ssa.Parameter
					for _, q := range fn.Params {
						if types.Identical(q.Type(), prm.Type()) {
							sameType = append(sameType, q)
						}
					}
					switch f {
					case "lastNodeFormat":
						okSrc = len(sameType) == 2 && sameType[0] == prm
					case "intermedialNodeFormat":
						okSrc = len(sameType) == 2 && sameType[1] == prm
					case "enabledValidation":
						// the first bool parameter (further flags of new options may follow it)
						okSrc = len(sameType) >= 1 && sameType[0] == prm
					}
				}
				if f == "enabledValidation" {
					if b, isC := constBool(st.Val); isC && !b {
						okSrc = true
						src = "false"
					}
				}
				rl := "grower-formats"
				if f == "enabledValidation" {
					rl = "grower-flag"
				}
				if okSrc {
					l.ok(pp.FuncID(fn), construct, pp.InstrPos(st), "fed from parameter/constant "+src, true, rl)
				} else {
					l.bad(pp.FuncID(fn), construct, pp.InstrPos(st), "the grower's "+f+" is fed from "+src, rl)
				}
			})
		}
	}
	// the embedded grower of the pipeline grower is built by the simple constructor with the same flag
	if fn := w.D().Func("gtree.newGrowerPipeline"); fn != nil {
		p := w.D()
		l.cfg = "D"
		okFmt, okFlag := false, false
		allInstrs(fn, func(in ssa.Instruction) {
			c, isC := in.(*ssa.Call)
			if !isC || c.Common().StaticCallee() == nil || fname(c.Common().StaticCallee()) != "newGrowerSimple" {
				return
			}
			// further parameters (new options) may follow the three the rule is about
			if len(c.Common().Args) >= 3 && len(fn.Params) >= 3 && sameVar(c.Common().Args[0], fn.Params[0]) && sameVar(c.Common().Args[1], fn.Params[1]) {
				okFmt = true
			}
			if len(c.Common().Args) >= 3 && len(fn.Params) >= 3 && sameVar(c.Common().Args[2], fn.Params[2]) {
				okFlag = true
			}
		})
		if okFmt {
			l.ok(p.FuncID(fn), "pipeline grower gets the branch formats", p.Pos(fn.Pos()), "newGrowerSimple(last, intermedial, …) with the parameters in order", true, "grower-formats")
		} else {
			l.bad(p.FuncID(fn), "pipeline grower gets the branch formats", p.Pos(fn.Pos()), "the pipeline grower no longer passes its branch formats, in order, to newGrowerSimple", "grower-formats")
		}
		if okFlag {
			l.ok(p.FuncID(fn), "pipeline grower gets the validation flag", p.Pos(fn.Pos()), "newGrowerSimple(…, enabledValidation)", true, "grower-flag")
		} else {
			l.bad(p.FuncID(fn), "pipeline grower gets the validation flag", p.Pos(fn.Pos()), "the pipeline grower drops the dry-run validation flag: in massive mode a dry run accepts names the real run rejects", "grower-flag")
		}
	}
	// encode constants ↔ option ↔ encoder package
	tab6ConfigDefaults(w, l)
	tab6Encoders(w, l)
	return l.list
}

// tab6ConfigDefaults: the branch strings an option sets are final — the config constructor writes its defaults before it
// applies the options and not afterwards.  A default applied after the options ("still zero ⇒ unset") cannot tell an
// explicit WithBranchFormat…("", "") from no option at all.
func tab6ConfigDefaults(w *World, l *obs) {
	for _, p := range []*Prog{w.D(), w.W()} {
		l.cfg = p.Cfg.Name
		n := 0
		for _, fn := range libFuncs(p) {
			if fn.Parent() != nil {
				continue
			}
			// the loop that applies the options: a dynamic call of a func(*config) value inside a loop
			var apply ssa.Instruction
			allInstrs(fn, func(in ssa.Instruction) {
				c, ok := in.(*ssa.Call)
				if !ok || c.Common().StaticCallee() != nil || c.Common().IsInvoke() || len(c.Common().Args) != 1 || !inLoop(c) {
					return
				}
				if typeName(c.Common().Args[0].Type()) == "config" && typeName(c.Common().Value.Type()) == "Option" {
					apply = c
				}
			})
			if apply == nil {
				continue
			}
			n++
			cfgv := apply.(*ssa.Call).Common().Args[0]
			var late []string
			var scan func(f *ssa.Function, base ssa.Value, from ssa.Instruction, depth int)
			scan = func(f *ssa.Function, base ssa.Value, from ssa.Instruction, depth int) {
				allInstrs(f, func(in ssa.Instruction) {
					if from != nil && !(reachableAfter(from, in) && !inLoopWith(from, in)) {
						return
					}
					switch x := in.(type) {
					case *ssa.Store:
						fa, ok := x.Addr.(*ssa.FieldAddr)
						if !ok {
							return
						}
						// c.lastNodeFormat = … or c.lastNodeFormat.directly = …
						top := fa
						if inner, ok := fa.X.(*ssa.FieldAddr); ok {
							top = inner
						}
						tn, fld, _ := fieldOf(top)
						if tn == "config" && (fld == "lastNodeFormat" || fld == "intermedialNodeFormat") && sameVar(top.X, base) {
							late = append(late, "config."+fld+" at "+p.InstrPos(x))
						}
					case *ssa.Call:
						g := x.Common().StaticCallee()
						if g == nil || !p.InModule(g) || depth > 1 || len(g.Blocks) == 0 {
							return
						}
						for i, a := range x.Common().Args {
							if sameVar(a, base) && i < len(g.Params) {
								scan(g, g.Params[i], nil, depth+1)
							}
						}
					}
				})
			}
			scan(fn, cfgv, apply, 0)
			construct := "branch-format defaults are written before the options are applied"
			if len(late) > 0 {
				l.bad(p.FuncID(fn), construct, p.InstrPos(apply), "after the options have run the constructor still stores "+strings.Join(dedup(late), ", ")+": a default applied afterwards (\"still the zero value, so unset\") replaces branch strings the caller set explicitly to empty", "config-defaults")
			} else {
				l.ok(p.FuncID(fn), construct, p.InstrPos(apply), "no store to the branch-format fields after the loop that applies the options", true, "config-defaults")
			}
		}
		if n == 0 && p.Cfg.Name == "D" {
			l.undecided("-", "config constructors", "-", "no function applying Option values in a loop was found", "config-defaults")
		}
	}
}

// inLoopWith: b executes in the same loop iteration structure as a (b can reach a again) — used to tell "after the
// loop" from "later in the loop body".
func inLoopWith(a, b ssa.Instruction) bool {
	return canReach(b.Block(), a.Block()) && b.Block() != a.Block() || (b.Block() == a.Block() && inLoop(a))
}

func tab6Encoders(w *World, l *obs) {
	p := w.D()
	l.cfg = "D"
	// option → constant
	optConst := map[string]int64{}
	for _, f := range []string{"JSON", "YAML", "TOML"} {
		for _, fn := range p.ModFuncs {
			if fn.Parent() == nil || fname(fn.Parent()) != "WithEncode"+f {
				continue
			}
			allInstrs(fn, func(in ssa.Instruction) {
				if st, ok := in.(*ssa.Store); ok {
					if k, isC := constInt(st.Val); isC {
						optConst[f] = k
					}
				}
			})
		}
	}
	if len(optConst) != 3 {
		l.undecided("gtree.WithEncode*", "encode constants", "-", "the three WithEncode options were not found", "encode")
		return
	}
	if optConst["JSON"] == optConst["YAML"] || optConst["JSON"] == optConst["TOML"] || optConst["YAML"] == optConst["TOML"] || optConst["JSON"] == 0 || optConst["YAML"] == 0 || optConst["TOML"] == 0 {
		l.bad("gtree.WithEncode*", "encode constants", "-", fmt.Sprintf("the options do not store three distinct non-default constants: %v", optConst), "encode")
		return
	}
	for _, sel := range []string{"gtree.newSpreaderSimple", "gtree.newSpreaderPipeline"} {
		fn := p.Func(sel)
		if fn == nil {
			l.undecided(sel, "format selection", "-", "function not found", "encode")
			continue
		}
		got := map[int64]string{}
		dflt := ""
		allInstrs(fn, func(in ssa.Instruction) {
			r, ok := in.(*ssa.Return)
			if !ok {
				return
			}
			what := ""
			if call, ok := stripConv(rr(r)[0]).(*ssa.Call); ok && call.Common().StaticCallee() != nil {
				what = encoderPackageOf(p, call.Common().StaticCallee())
				if what == "" {
					// the constructor is handed its codec: look into the calls that build the arguments
					set := map[string]bool{}
					for _, a := range call.Common().Args {
						if ac, ok := stripConv(a).(*ssa.Call); ok && ac.Common().StaticCallee() != nil && p.InModule(ac.Common().StaticCallee()) {
							if pk := encoderPackageOf(p, ac.Common().StaticCallee()); pk != "" {
								set[pk] = true
							}
						}
					}
					what = strings.Join(sortedKeys(set), "+")
				}
			} else {
				what = "default:" + describeValue(stripConv(rr(r)[0]))
			}
			matched := false
			for _, g := range guardsOf(r.Block()) {
				c, pol := flattenCond(g.Cond, g.Pol)
				if b, ok := c.(*ssa.BinOp); ok && b.Op == token.EQL && pol {
					if k, isC := constInt(b.Y); isC {
						got[k] = what
						matched = true
					}
				}
			}
			if !matched {
				dflt = what
			}
		})
		// table form: the constant is looked up in a package-level map from constants to constructors (here or in a
		// helper that is handed the parameter), and the found side builds something else than the default side
		if len(got) == 0 {
			for k, ctor := range encodeTableLookup(p, fn) {
				got[k] = encoderPackageOf(p, ctor)
			}
		}
		want := map[string]string{"JSON": "encoding/json", "YAML": "gopkg.in/yaml.v3", "TOML": "github.com/pelletier/go-toml/v2"}
		var problems []string
		for f, k := range optConst {
			if got[k] != want[f] {
				problems = append(problems, fmt.Sprintf("WithEncode%s selects %q, expected the %s encoder", f, got[k], want[f]))
			}
		}
		if !strings.HasPrefix(dflt, "default:") {
			problems = append(problems, "the default case builds "+dflt)
		}
		sort.Strings(problems)
		if len(problems) > 0 {
			l.bad(p.FuncID(fn), "format selection", p.Pos(fn.Pos()), strings.Join(problems, "; "), "encode")
		} else {
			l.ok(p.FuncID(fn), "format selection", p.Pos(fn.Pos()), "JSON/YAML/TOML constants select constructors whose encode factory calls the matching package's NewEncoder; anything else the text spreader", true, "encode")
		}
	}
}

// encodeTableLookup: fn (or a module helper it hands its first parameter to) looks that parameter up, comma-ok, in a
// package-level map whose entries are filled in the package initialiser with constant keys and function values; a
// return of fn lies on the found side.  Returns key → constructor.
func encodeTableLookup(p *Prog, fn *ssa.Function) map[int64]*ssa.Function {
	if len(fn.Params) == 0 {
		return nil
	}
	var lookIn func(f *ssa.Function, prm ssa.Value, depth int) (*ssa.Global, ssa.Value)
	lookIn = func(f *ssa.Function, prm ssa.Value, depth int) (*ssa.Global, ssa.Value) {
		var g *ssa.Global
		var okv ssa.Value
		allInstrs(f, func(in ssa.Instruction) {
			switch x := in.(type) {
			case *ssa.Lookup:
				if !x.CommaOk || !sameVar(x.Index, prm) {
					return
				}
				if ld, isL := isLoad(stripConv(x.X)); isL {
					if gl, isG := ld.(*ssa.Global); isG {
						g = gl
						okv = siblingExtract2(x, 1)
					}
				}
			case *ssa.Call:
				if depth > 0 || g != nil {
					return
				}
				callee := x.Common().StaticCallee()
				if callee == nil || !p.InModule(callee) || len(callee.Blocks) == 0 {
					return
				}
				for i, a := range x.Common().Args {
					if sameVar(a, prm) && i < len(callee.Params) {
						if g2, _ := lookIn(callee, callee.Params[i], depth+1); g2 != nil {
							g = g2
							// the helper's second result is the found flag
							okv = siblingExtract(x, 1)
						}
					}
				}
			}
		})
		return g, okv
	}
	g, okv := lookIn(fn, fn.Params[0], 0)
	if g == nil || okv == nil {
		return nil
	}
	// a return on the found side
	found := false
	allInstrs(fn, func(in ssa.Instruction) {
		if r, ok := in.(*ssa.Return); ok {
			for _, gd := range guardsOf(r.Block()) {
				c, pol := flattenCond(gd.Cond, gd.Pol)
				if pol && c == okv {
					found = true
				}
			}
		}
	})
	if !found {
		return nil
	}
	out := map[int64]*ssa.Function{}
	pkg := g.Pkg
	if pkg == nil {
		return nil
	}
	initf := pkg.Func("init")
	if initf == nil {
		return nil
	}
	allInstrs(initf, func(in ssa.Instruction) {
		st, ok := in.(*ssa.Store)
		if !ok || st.Addr != ssa.Value(g) {
			return
		}
		mm, ok := st.Val.(*ssa.MakeMap)
		if !ok || mm.Referrers() == nil {
			return
		}
		for _, r := range *mm.Referrers() {
			mu, ok := r.(*ssa.MapUpdate)
			if !ok {
				continue
			}
			k, isC := constInt(mu.Key)
			if !isC {
				continue
			}
			switch v := resolve(mu.Value).(type) {
			case *ssa.Function:
				out[k] = v
			case *ssa.MakeClosure:
				out[k] = v.Fn.(*ssa.Function)
			}
		}
	})
	return out
}

// encoderPackageOf: the package whose NewEncoder the constructor's encode closure calls.
func encoderPackageOf(p *Prog, ctor *ssa.Function) string {
	pkg := ""
	var visit func(f *ssa.Function)
	visit = func(f *ssa.Function) {
		allInstrs(f, func(in ssa.Instruction) {
			if c, ok := in.(ssa.CallInstruction); ok {
				if callee := c.Common().StaticCallee(); callee != nil && fname(callee) == "NewEncoder" && !p.InModule(callee) {
					pkg = pkgOfFunc(callee).Pkg.Path()
				}
			}
		})
		for _, a := range f.AnonFuncs {
			visit(a)
		}
	}
	visit(ctor)
	if pkg == "" {
		// the constructor builds its encode factory through module helpers: every NewEncoder reachable from it
		set := map[string]bool{}
		for f := range reachableFrom(p, []*ssa.Function{ctor}, nil) {
			allInstrs(f, func(in ssa.Instruction) {
				if c, ok := in.(ssa.CallInstruction); ok {
					if callee := c.Common().StaticCallee(); callee != nil && fname(callee) == "NewEncoder" && !p.InModule(callee) {
						set[pkgOfFunc(callee).Pkg.Path()] = true
					}
				}
			})
		}
		pkg = strings.Join(sortedKeys(set), "+")
	}
	return pkg
}

// ---------------------------------------------------------------------------------------------
// TAB-7

func ruleTAB7(w *World) []Ob {
	p := w.D()
	l := &obs{rule: "TAB-7", cfg: "D"}
	nc := newNilCtx(p)
	// main exits non-zero on error
	if m := p.Func("cmd/gtree.main"); m != nil {
		var run *ssa.Call
		allInstrs(m, func(in ssa.Instruction) {
			if c, ok := in.(*ssa.Call); ok && calleeFullName(c.Common()) == "(*github.com/urfave/cli/v2.App).Run" {
				run = c
			}
		})
		if run == nil {
			l.undecided("cmd/gtree.main", "exit status", p.Pos(m.Pos()), "app.Run call not found", "exit")
		} else {
			exits := false
			allInstrs(m, func(in ssa.Instruction) {
				c, ok := in.(*ssa.Call)
				if !ok || calleeFullName(c.Common()) != "os.Exit" {
					return
				}
				k, isC := constInt(c.Common().Args[0])
				if !isC || k == 0 {
					return
				}
				for _, g := range guardsOf(c.Block()) {
					if tv, nonNil, ok := nilTest(g.Cond, g.Pol); ok && nonNil && stripConv(tv) == ssa.Value(run) {
						exits = true
					}
				}
			})
			printed := false
			allInstrs(m, func(in ssa.Instruction) {
				c, ok := in.(*ssa.Call)
				if !ok || !isStderrWrite(c.Common()) {
					return
				}
				carries := false
				for _, a := range c.Common().Args[1:] {
					if elems, ok := variadicElems(a); ok {
						for _, e := range elems {
							if stripConv(e) == ssa.Value(run) {
								carries = true
							}
						}
					}
				}
				if !carries {
					return
				}
				only := true
				for _, g := range guardsOf(c.Block()) {
					tv, nonNil, ok := nilTest(g.Cond, g.Pol)
					if !(ok && nonNil && stripConv(tv) == ssa.Value(run)) {
						only = false
					}
				}
				if only {
					printed = true
				}
			})
			// the err != nil side hands the error to a helper of package main that prints it on stderr and exits non-zero
			allInstrs(m, func(in ssa.Instruction) {
				c, ok := in.(*ssa.Call)
				if !ok || c.Common().StaticCallee() == nil || p.PkgPath(c.Common().StaticCallee()) != cliPkgPath || len(c.Common().StaticCallee().Blocks) == 0 {
					return
				}
				h := c.Common().StaticCallee()
				idx := -1
				for i, a := range c.Common().Args {
					if stripConv(a) == ssa.Value(run) {
						idx = i
					}
				}
				if idx < 0 || idx >= len(h.Params) {
					return
				}
				for _, g := range guardsOf(c.Block()) {
					tv, nonNil, ok := nilTest(g.Cond, g.Pol)
					if !(ok && nonNil && stripConv(tv) == ssa.Value(run)) {
						return
					}
				}
				if len(guardsOf(c.Block())) == 0 {
					return
				}
				var hPrint *ssa.Call
				hExit := false
				allInstrs(h, func(in2 ssa.Instruction) {
					c2, ok := in2.(*ssa.Call)
					if !ok || len(guardsOf(c2.Block())) != 0 {
						return
					}
					if isStderrWrite(c2.Common()) && hPrint == nil {
						for _, a := range c2.Common().Args[1:] {
							if elems, ok := variadicElems(a); ok {
								for _, e := range elems {
									if stripConv(e) == ssa.Value(h.Params[idx]) {
										hPrint = c2
									}
								}
							}
						}
					}
					if calleeFullName(c2.Common()) == "os.Exit" && hPrint != nil && dominatesInstr(hPrint, c2) {
						if k, isC := constInt(c2.Common().Args[0]); isC && k != 0 {
							hExit = true
						}
					}
				})
				if hPrint != nil && hExit {
					printed, exits = true, true
				}
			})
			silentExit := ""
			var printCalls []*ssa.Call
			allInstrs(m, func(in ssa.Instruction) {
				if c, ok := in.(*ssa.Call); ok && isStderrWrite(c.Common()) {
					printCalls = append(printCalls, c)
				}
			})
			allInstrs(m, func(in ssa.Instruction) {
				c, ok := in.(*ssa.Call)
				if !ok || calleeFullName(c.Common()) != "os.Exit" {
					return
				}
				dom := false
				for _, pc := range printCalls {
					if dominatesInstr(pc, c) {
						dom = true
					}
				}
				if !dom {
					silentExit = p.InstrPos(c)
				}
			})
			if silentExit != "" {
				printed = false
			}
			if printed {
				l.ok("cmd/gtree.main", "diagnostic on stderr", p.InstrPos(run), "the error of app.Run is written to os.Stderr whenever it is non-nil", true, "exit")
			} else {
				l.bad("cmd/gtree.main", "diagnostic on stderr", p.InstrPos(run), "the error returned by app.Run is not written to os.Stderr on every err != nil path (it is printed only under further conditions, or not at all): some failures exit non-zero without a diagnostic", "exit")
			}
			if exits {
				l.ok("cmd/gtree.main", "exit status", p.InstrPos(run), "os.Exit(non-zero) on the err != nil side of app.Run", true, "exit")
			} else {
				l.bad("cmd/gtree.main", "exit status", p.InstrPos(run), "when app.Run returns an error that is not an ExitCoder (stray argument, unknown flag, rejected flag value) main prints it but the process still exits 0", "exit")
			}
		}
	} else {
		l.undecided("cmd/gtree.main", "exit status", "-", "main not found", "exit")
	}
	// cli.Exit codes
	nExit := 0
	for _, fn := range p.ModFuncs {
		if p.PkgPath(fn) != cliPkgPath {
			continue
		}
		num := numbered{}
		allInstrs(fn, func(in ssa.Instruction) {
			c, ok := in.(*ssa.Call)
			if !ok || calleeFullName(c.Common()) != "github.com/urfave/cli/v2.Exit" {
				return
			}
			nExit++
			k, isC := constInt(c.Common().Args[1])
			construct := num.name("cli.Exit code")
			if !isC {
				// the code is a parameter / receiver of a small helper: every caller passes a non-zero constant
				v := stripConv(c.Common().Args[1])
				if prm, ok := v.(*ssa.Parameter); ok && len(p.Callers(fn)) > 0 {
					idx := inputIndexParam(fn, prm)
					numc := numbered{}
					for _, ci := range p.Callers(fn) {
						args := callArgs(ci.Common())
						cc := numc.name("exit code passed to " + fname(fn))
						if idx < len(args) {
							if kk, okc := constInt(stripConv(args[idx])); okc && kk != 0 {
								l.ok(p.FuncID(ci.Parent()), cc, p.InstrPos(ci), fmt.Sprintf("non-zero constant (%d) handed to the helper that calls cli.Exit", kk), false, "code")
								continue
							}
							// the helper's caller received the code itself: every one of its callers passes a non-zero constant
							if exitCodeNonZero(p, args[idx], 1) {
								l.ok(p.FuncID(ci.Parent()), cc, p.InstrPos(ci), "a parameter for which every call site passes a non-zero constant", false, "code")
								continue
							}
						}
						l.bad(p.FuncID(ci.Parent()), cc, p.InstrPos(ci), "the exit code handed to the cli.Exit helper is zero or not a constant: a failure would be reported as success", "code")
					}
					return
				}
			}
			if isC && k != 0 {
				l.ok(p.FuncID(fn), construct, p.InstrPos(c), fmt.Sprintf("non-zero constant (%d)", k), false, "code")
			} else {
				l.bad(p.FuncID(fn), construct, p.InstrPos(c), "exit code is zero or not a constant: a failure would be reported as success", "code")
			}
		})
	}
	// exit codes carried by an error type of package main that implements cli.ExitCoder: ExitCode() hands back a field,
	// and everything stored into that field is a non-zero constant (directly, or as a constructor parameter for which
	// every call site passes one)
	for _, fn := range p.ModFuncs {
		if p.PkgPath(fn) != cliPkgPath || fname(fn) != "ExitCode" || fn.Signature.Recv() == nil || len(fn.Blocks) == 0 {
			continue
		}
		var field *ssa.FieldAddr
		okShape := true
		allInstrs(fn, func(in ssa.Instruction) {
			r, isR := in.(*ssa.Return)
			if !isR || len(rr(r)) != 1 {
				return
			}
			if k, isC := constInt(stripConv(rr(r)[0])); isC {
				if k == 0 {
					okShape = false
				}
				return
			}
			ld, isL := isLoad(stripConv(rr(r)[0]))
			fa, isFA := ld.(*ssa.FieldAddr)
			if !isL || !isFA {
				okShape = false
				return
			}
			field = fa
		})
		if !okShape {
			nExit++
			l.bad(p.FuncID(fn), "exit code of the error type", p.Pos(fn.Pos()), "ExitCode() can return zero or a value that is not a field of the error: a failure would be reported as success", "code")
			continue
		}
		if field == nil {
			nExit++
			l.ok(p.FuncID(fn), "exit code of the error type", p.Pos(fn.Pos()), "ExitCode() returns non-zero constants only", false, "code")
			continue
		}
		key := relTypeString(field.X.Type()) + "." + fieldName(field.X.Type(), field.Field)
		num := numbered{}
		for _, g := range p.ModFuncs {
			if p.PkgPath(g) != cliPkgPath {
				continue
			}
			g := g
			allInstrs(g, func(in ssa.Instruction) {
				st, isSt := in.(*ssa.Store)
				if !isSt {
					return
				}
				sfa, isF := st.Addr.(*ssa.FieldAddr)
				if !isF || relTypeString(sfa.X.Type())+"."+fieldName(sfa.X.Type(), sfa.Field) != key {
					return
				}
				nExit++
				construct := num.name("exit code stored in " + key)
				if exitCodeNonZero(p, st.Val, 0) {
					l.ok(p.FuncID(g), construct, p.InstrPos(st), "a non-zero constant, or a parameter for which every call site passes one", false, "code")
					// one obligation per call site that chooses the code
					var prms []*ssa.Parameter
					var collect func(v ssa.Value, d int)
					collect = func(v ssa.Value, d int) {
						v = stripConv(v)
						switch x := v.(type) {
						case *ssa.Parameter:
							prms = append(prms, x)
						case *ssa.Phi:
							if d < 3 {
								for _, e := range x.Edges {
									collect(e, d+1)
								}
							}
						}
					}
					collect(st.Val, 0)
					for _, prm := range prms {
						for _, ci := range p.Callers(prm.Parent()) {
							nExit++
							l.ok(p.FuncID(ci.Parent()), num.name("exit code passed to "+fname(prm.Parent())), p.InstrPos(ci), "non-zero constant handed to the constructor of the exit error", false, "code")
						}
					}
					_ = prms
				} else {
					l.bad(p.FuncID(g), construct, p.InstrPos(st), "the exit code stored in the error can be zero or is not a constant at some call site: a failure would be reported as success", "code")
				}
			})
		}
	}
	if nExit == 0 {
		l.undecided("cmd/gtree", "cli.Exit codes", "-", "no cli.Exit call found", "code")
	}
	// input wiring: a file the CLI opens for reading is what the library reads (not opened and then ignored in
	// favour of stdin)
	inScope, _ := cliScopeFuncs(p)
	for _, fn := range p.ModFuncs {
		if p.PkgPath(fn) != cliPkgPath || !inScope[outermost(fn)] && !inScope[fn] {
			continue
		}
		fn := fn
		num := numbered{}
		allInstrs(fn, func(in ssa.Instruction) {
			c, ok := in.(*ssa.Call)
			if !ok || calleeFullName(c.Common()) != "os.Open" {
				return
			}
			var file ssa.Value
			for _, r := range *c.Referrers() {
				if ex, ok := r.(*ssa.Extract); ok && ex.Index == 0 {
					file = ex
				}
			}
			construct := num.name("opened input reaches the library")
			if file != nil && reachesLibraryCall(p, file, 0) {
				l.ok(p.FuncID(fn), construct, p.InstrPos(c), "the *os.File returned by os.Open flows into a library call", true, "input")
			} else {
				l.bad(p.FuncID(fn), construct, p.InstrPos(c), "the file opened here never reaches a library call (only closed, or shadowed by another variable): the command reads something else — typically stdin — instead of the file the user named", "input")
			}
		})
	}
	// actions: an error of the operation is returned as a non-nil ExitCoder; success returns nil only on the nil side
	cmds := cliCommands(p)
	for _, name := range []string{"output", "mkdir", "verify", "template"} {
		c := cmds[name]
		if c == nil || c.Action == nil {
			l.undecided("cmd/gtree", "action of "+name, "-", "not found", "action")
			continue
		}
		a := c.Action
		// every `return nil` must not be on the non-nil side of an error test
		bad := ""
		allInstrs(a, func(in ssa.Instruction) {
			r, ok := in.(*ssa.Return)
			if !ok || len(rr(r)) != 1 || nc.nonNil(rr(r)[0], r, 0) {
				return
			}
			if !isNilConst(rr(r)[0]) {
				return
			}
			for _, g := range guardsOf(r.Block()) {
				if tv, nonNil, ok := nilTest(g.Cond, g.Pol); ok && nonNil && isErrorType(tv.Type()) {
					bad = "returns nil at " + p.InstrPos(r) + " on the side where " + describeValue(tv) + " is non-nil"
				}
			}
		})
		if bad != "" {
			l.bad(p.FuncID(a), "action of "+name+" reports failures", p.Pos(a.Pos()), bad, "action")
		} else {
			l.ok(p.FuncID(a), "action of "+name+" reports failures", p.Pos(a.Pos()), "no nil return on an error side (propagation: ERR-1)", true, "action")
		}
	}
	// flag wiring
	type wire struct {
		flag, getter, option string
		boolFlag            bool
	}
	wires := []wire{
		{"massive", "Bool", "WithMassive", true},
		{"strict", "Bool", "WithStrictVerify", true},
		{"dry-run", "Bool", "WithDryRun", true},
		{"extension", "StringSlice", "WithFileExtensions", false},
		{"target-dir", "String", "WithTargetDir", false},
	}
	set, _ := cliScopeFuncs(p)
	for _, wr := range wires {
		found := 0
		for fn := range set {
			if p.PkgPath(fn) != cliPkgPath {
				continue
			}
			allInstrs(fn, func(in ssa.Instruction) {
				c, ok := in.(*ssa.Call)
				if !ok || c.Common().StaticCallee() == nil || fname(c.Common().StaticCallee()) != wr.option || p.PkgPath(c.Common().StaticCallee()) != modulePath {
					return
				}
				construct := "--" + wr.flag + " → " + wr.option
				okFlag := false
				if wr.boolFlag {
					for _, g := range guardsOf(c.Block()) {
						cd, pol := flattenCond(g.Cond, g.Pol)
						if pol && isCLIFlagBool(cd, wr.flag) {
							okFlag = true
						}
					}
					// --massive-timeout also enables WithMassive
					if wr.flag == "massive" && !okFlag {
						for _, g := range guardsOf(c.Block()) {
							cd, _ := flattenCond(g.Cond, g.Pol)
							if b, ok := cd.(*ssa.BinOp); ok {
								if cc, ok := b.X.(*ssa.Call); ok && calleeFullName(cc.Common()) == "(*github.com/urfave/cli/v2.Context).Duration" {
									okFlag = true
								}
								// the duration is handed to a helper: every call site passes c.Duration(...)
								if prm, isP := b.X.(*ssa.Parameter); isP && prm.Parent() == fn && fn.Parent() == nil {
									i := paramIndex(fn, prm)
									callers := p.Callers(fn)
									all := len(callers) > 0
									for _, ci := range callers {
										args := callArgs(ci.Common())
										if i < 0 || i >= len(args) {
											all = false
											continue
										}
										cc, isC := resolve(args[i]).(*ssa.Call)
										if !isC || calleeFullName(cc.Common()) != "(*github.com/urfave/cli/v2.Context).Duration" {
											all = false
										}
									}
									if all {
										okFlag = true
									}
								}
							}
						}
					}
					// the flag's value is handed to a helper as a bool parameter: the guard is that parameter and every
					// call site passes c.Bool(flag) for it
					if !okFlag && fn.Parent() == nil {
						for _, g := range guardsOf(c.Block()) {
							cd, pol := flattenCond(g.Cond, g.Pol)
							prm, isP := cd.(*ssa.Parameter)
							if !isP || !pol || prm.Parent() != fn {
								continue
							}
							i := paramIndex(fn, prm)
							callers := p.Callers(fn)
							all := len(callers) > 0
							for _, ci := range callers {
								args := callArgs(ci.Common())
								if i < 0 || i >= len(args) || !isCLIFlagBool(resolve(args[i]), wr.flag) {
									all = false
								}
							}
							if all {
								okFlag = true
							}
						}
					}
					// dry-run is routed through a helper that is itself called under the flag
					if !okFlag {
						for _, ci := range p.Callers(fn) {
							blocks := []*ssa.BasicBlock{ci.(ssa.Instruction).Block()}
							// the call sits in a function literal: the literal is created under the flag
							for lit, d := ci.Parent(), 0; lit != nil && lit.Parent() != nil && d < 2; lit, d = lit.Parent(), d+1 {
								lit := lit
								allInstrs(lit.Parent(), func(in ssa.Instruction) {
									if mc, isMC := in.(*ssa.MakeClosure); isMC && mc.Fn == ssa.Value(lit) {
										blocks = append(blocks, mc.Block())
									}
								})
							}
							for _, blk := range blocks {
								for _, g := range guardsOf(blk) {
									cd, pol := flattenCond(g.Cond, g.Pol)
									if pol && isCLIFlagBool(cd, wr.flag) {
										okFlag = true
									}
								}
							}
						}
					}
				} else if len(c.Common().Args) == 1 {
					if gc, ok := c.Common().Args[0].(*ssa.Call); ok && calleeFullName(gc.Common()) == "(*github.com/urfave/cli/v2.Context)."+wr.getter {
						if s, ok := constString(gc.Common().Args[1]); ok && s == wr.flag {
							okFlag = true
						}
					}
				}
				if !okFlag {
					found++
					l.bad(p.FuncID(fn), construct, p.InstrPos(c), "the option is not controlled by the flag --"+wr.flag, "wire")
					return
				}
				if !reachesLibraryCall(p, c, 0) {
					found++
					l.bad(p.FuncID(fn), construct, p.InstrPos(c), "the option value never reaches a library call", "wire")
					return
				}
				found++
				l.ok(p.FuncID(fn), construct, p.InstrPos(c), "constructed under/with the flag and passed on to the library call", true, "wire")
			})
		}
		if found == 0 {
			l.bad("cmd/gtree", "--"+wr.flag+" → "+wr.option, "-", "no call of gtree."+wr.option+" on the output/mkdir/verify routes: the flag has no effect", "wire")
		}
	}
	// --target-dir is the library's business: the command line hands the value over and does not probe the filesystem
	// with it (a target that does not exist yet is created by Mkdir; Verify reports what is missing)
	{
		nProbe := 0
		for fn := range set {
			if p.PkgPath(fn) != cliPkgPath {
				continue
			}
			fn := fn
			var flagCalls []ssa.Value
			allInstrs(fn, func(in ssa.Instruction) {
				if c, ok := in.(*ssa.Call); ok {
					switch calleeFullName(c.Common()) {
					case "(*github.com/urfave/cli/v2.Context).String", "(*github.com/urfave/cli/v2.Context).Path":
						if s, isS := constString(c.Common().Args[1]); isS && s == "target-dir" {
							flagCalls = append(flagCalls, c)
						}
					}
				}
			})
			allInstrs(fn, func(in ssa.Instruction) {
				ci, ok := in.(ssa.CallInstruction)
				if !ok {
					return
				}
				f := ci.Common().StaticCallee()
				if f == nil || p.InModule(f) {
					return
				}
				if e := classifyExternal(f); e != EffFSRead && e != EffFSMutate {
					return
				}
				for _, a := range ci.Common().Args {
					from := false
					for _, fc := range flagCalls {
						if dependsOnValue(a, fc, 0) {
							from = true
						}
					}
					if !from {
						for _, r := range resolveArgAll(p, a, 0) {
							if c, isC := r.(*ssa.Call); isC {
								switch calleeFullName(c.Common()) {
								case "(*github.com/urfave/cli/v2.Context).String", "(*github.com/urfave/cli/v2.Context).Path":
									if s, isS := constString(c.Common().Args[1]); isS && s == "target-dir" {
										from = true
									}
								}
							}
						}
					}
					if from {
						nProbe++
						l.bad(p.FuncID(fn), "--target-dir is handed to the library unprobed", p.InstrPos(in), "the command line calls "+f.String()+" on the --target-dir value: the command then succeeds or fails by a filesystem test of its own and no longer has the library's effect for that target (the library creates a missing target; a missing target is a verification result, not a usage error)", "wire")
						return
					}
				}
			})
		}
		if nProbe == 0 {
			l.ok("cmd/gtree", "--target-dir is handed to the library unprobed", "-", "no filesystem call of the command line takes the --target-dir value", true, "wire")
		}
	}
	// flag tables are independent: appending to a prefix of another command's flag slice (append(flags[:k], …) without a
	// capacity limit) writes over that slice's remaining elements — the other command silently loses those flags
	{
		nAlias := 0
		for _, fn := range p.ModFuncs {
			if p.PkgPath(fn) != cliPkgPath {
				continue
			}
			fn := fn
			allInstrs(fn, func(in ssa.Instruction) {
				c, ok := in.(*ssa.Call)
				if !ok || !isBuiltinCall(c, "append") || len(c.Common().Args) != 2 {
					return
				}
				sl, ok := c.Common().Args[0].(*ssa.Slice)
				if !ok || sl.Max != nil || sl.High == nil {
					return
				}
				// the sliced operand is a live slice (not a fresh literal): loaded from a variable or a parameter
				src := sl.X
				if _, isSlice := src.Type().Underlying().(*types.Slice); !isSlice {
					return
				}
				if k, isK := constInt(sl.High); isK && k == 0 {
					return // s[:0] — reuse of a scratch buffer, nothing of it is kept
				}
				// is the source used again after the append?
				usedLater := false
				cands := []ssa.Value{src}
				if ld, isL := isLoad(src); isL {
					for _, l2 := range cellLoads(ld) {
						cands = append(cands, l2)
					}
				}
				for _, v := range cands {
					if v.Referrers() == nil {
						continue
					}
					for _, r := range *v.Referrers() {
						if r == ssa.Instruction(sl) {
							continue
						}
						if r.Parent() != fn || reachableAfter(c, r) {
							usedLater = true
						}
					}
				}
				if !usedLater {
					return
				}
				nAlias++
				l.bad(p.FuncID(fn), "command flag tables do not share storage", p.InstrPos(c), "append onto "+describeValue(src)+"[:k] (no capacity limit) writes into the backing array of that slice, which is used again afterwards: its elements after k are overwritten, so the command it belongs to loses those flags (unknown flag → usage error, exit 1) and accepts the appended ones instead", "wire")
			})
		}
		if nAlias == 0 {
			l.ok("cmd/gtree", "command flag tables do not share storage", "-", "no append onto an uncapped prefix of a slice that is used again", true, "wire")
		}
	}
	// --massive-timeout: the deadline is applied whenever the flag is given, also together with --massive
	{
		nTimeout := 0
		hasFlag := false
		for fn := range set {
			if p.PkgPath(fn) != cliPkgPath {
				continue
			}
			allInstrs(fn, func(in ssa.Instruction) {
				c, ok := in.(*ssa.Call)
				if !ok {
					return
				}
				if calleeFullName(c.Common()) == "(*github.com/urfave/cli/v2.Context).Duration" {
					if s, isS := constString(c.Common().Args[1]); isS && s == "massive-timeout" {
						hasFlag = true
					}
				}
				name := calleeFullName(c.Common())
				if name != "context.WithTimeout" && name != "context.WithDeadline" {
					return
				}
				nTimeout++
				construct := "--massive-timeout → " + strings.TrimPrefix(name, "context.")
				bad := ""
				check := func(b *ssa.BasicBlock) {
					for _, g := range guardsOf(b) {
						cd, pol := flattenCond(g.Cond, g.Pol)
						if !pol && isCLIFlagBool(cd, "massive") {
							bad = "the deadline is set up only when --massive is absent: `--massive --massive-timeout d` runs without the timeout the user asked for"
						}
					}
				}
				check(c.Block())
				if bad == "" && fn.Parent() == nil {
					for _, ci := range p.Callers(fn) {
						check(ci.(ssa.Instruction).Block())
					}
				}
				if bad != "" {
					l.bad(p.FuncID(fn), construct, p.InstrPos(c), bad, "wire")
				} else {
					l.ok(p.FuncID(fn), construct, p.InstrPos(c), "not conditional on --massive being absent", true, "wire")
				}
			})
		}
		for fn := range set {
			if p.PkgPath(fn) != cliPkgPath {
				continue
			}
			for _, w2 := range escapingCancelledCtx(p, fn) {
				l.bad(p.FuncID(fn), "--massive-timeout → a live context reaches the library", p.Pos(fn.Pos()), w2, "wire")
			}
		}
		if hasFlag && nTimeout == 0 {
			l.bad("cmd/gtree", "--massive-timeout → WithTimeout", "-", "the flag is read but no context with a deadline is derived on the command routes: the timeout has no effect", "wire")
		}
	}
	// --format
	if fo := p.Func("cmd/gtree.optionOutput"); fo != nil {
		got := map[string]string{}
		dfltErr := false
		allInstrs(fo, func(in ssa.Instruction) {
			r, ok := in.(*ssa.Return)
			if !ok || len(rr(r)) != 2 {
				return
			}
			what := "nil"
			if c, ok := stripConv(rr(r)[0]).(*ssa.Call); ok && c.Common().StaticCallee() != nil {
				what = fname(c.Common().StaticCallee())
			}
			matched := false
			for _, g := range guardsOf(r.Block()) {
				cd, pol := flattenCond(g.Cond, g.Pol)
				if b, ok := cd.(*ssa.BinOp); ok && b.Op == token.EQL && pol {
					if s, isS := constString(b.Y); isS {
						if fc, ok := b.X.(*ssa.Call); ok && calleeFullName(fc.Common()) == "(*github.com/urfave/cli/v2.Context).String" {
							if fl, _ := constString(fc.Common().Args[1]); fl == "format" {
								got[s] = what
								matched = true
							}
						}
					}
				}
			}
			if !matched && nc.nonNil(rr(r)[1], r, 0) {
				dfltErr = true
			}
		})
		// table form: a package-level map from the flag value to the option constructor, looked up with the flag
		// value; the constructor found is called and its result returned
		allInstrs(fo, func(in ssa.Instruction) {
			lk, ok := in.(*ssa.Lookup)
			if !ok || !lk.CommaOk {
				return
			}
			ld, isL := isLoad(stripConv(lk.X))
			if !isL {
				return
			}
			g, isG := ld.(*ssa.Global)
			if !isG || g.Object() == nil {
				return
			}
			fc, isC := resolve(lk.Index).(*ssa.Call)
			if !isC || calleeFullName(fc.Common()) != "(*github.com/urfave/cli/v2.Context).String" {
				return
			}
			if fl, _ := constString(fc.Common().Args[1]); fl != "format" {
				return
			}
			// the looked-up constructor is called and returned
			called := false
			if ex := siblingExtract2(lk, 0); ex != nil {
				for _, r := range *ex.Referrers() {
					if c, ok := r.(*ssa.Call); ok && c.Common().Value == ssa.Value(ex) {
						for _, r2 := range *c.Referrers() {
							if _, isRet := r2.(*ssa.Return); isRet {
								called = true
							}
						}
					}
				}
			}
			if !called {
				return
			}
			pk := p.ModPkgs[cliPkgPath]
			if pk == nil {
				return
			}
			for _, file := range pk.Syntax {
				for _, d := range file.Decls {
					gd, ok := d.(*ast.GenDecl)
					if !ok {
						continue
					}
					for _, sp := range gd.Specs {
						vs, ok := sp.(*ast.ValueSpec)
						if !ok {
							continue
						}
						for i, nm := range vs.Names {
							if pk.TypesInfo.Defs[nm] != g.Object() || i >= len(vs.Values) {
								continue
							}
							cl, ok := vs.Values[i].(*ast.CompositeLit)
							if !ok {
								continue
							}
							for _, e := range cl.Elts {
								kv, ok := e.(*ast.KeyValueExpr)
								if !ok {
									continue
								}
								tv, ok := pk.TypesInfo.Types[kv.Key]
								if !ok || tv.Value == nil || tv.Value.Kind() != constant.String {
									continue
								}
								name := ""
								switch v := kv.Value.(type) {
								case *ast.SelectorExpr:
									name = v.Sel.Name
								case *ast.Ident:
									name = v.Name
								case *ast.FuncLit:
									// func() gtree.Option { return nil }
									if len(v.Body.List) == 1 {
										if rs, ok := v.Body.List[0].(*ast.ReturnStmt); ok && len(rs.Results) == 1 {
											if id, ok := rs.Results[0].(*ast.Ident); ok && id.Name == "nil" {
												name = "nil"
											}
											if ce, ok := rs.Results[0].(*ast.CallExpr); ok {
												if se, ok := ce.Fun.(*ast.SelectorExpr); ok {
													name = se.Sel.Name
												}
											}
										}
									}
								}
								got[constant.StringVal(tv.Value)] = name
							}
						}
					}
				}
			}
		})
		want := map[string]string{"json": "WithEncodeJSON", "yaml": "WithEncodeYAML", "toml": "WithEncodeTOML", "": "nil"}
		var problems []string
		for k, v := range want {
			if got[k] != v {
				problems = append(problems, fmt.Sprintf("--format %q gives %s, expected %s", k, got[k], v))
			}
		}
		if !dfltErr {
			problems = append(problems, "an unknown --format value is not rejected with an error")
		}
		sort.Strings(problems)
		if len(problems) > 0 {
			l.bad(p.FuncID(fo), "--format → WithEncode*", p.Pos(fo.Pos()), strings.Join(problems, "; "), "wire")
		} else {
			l.ok(p.FuncID(fo), "--format → WithEncode*", p.Pos(fo.Pos()), "json/yaml/toml/\"\" map to the matching option / none; other values return an error", true, "wire")
		}
	} else {
		l.undecided("cmd/gtree.optionOutput", "--format → WithEncode*", "-", "function not found", "wire")
	}
	return l.list
}

// reachesLibraryCall: the value flows (slice literal / append / parameter / phi) into an argument of an exported gtree function.
func reachesLibraryCall(p *Prog, v ssa.Value, depth int) bool {
	if depth > 10 || v.Referrers() == nil {
		return false
	}
	for _, r := range *v.Referrers() {
		switch x := r.(type) {
		case *ssa.Store:
			switch a := x.Addr.(type) {
			case *ssa.IndexAddr:
				if al, ok := a.X.(*ssa.Alloc); ok {
					for _, r2 := range *al.Referrers() {
						if sl, ok := r2.(*ssa.Slice); ok && reachesLibraryCall(p, sl, depth+1) {
							return true
						}
					}
				}
			case *ssa.Alloc:
				for _, ld := range cellLoads(a) {
					if reachesLibraryCall(p, ld, depth+1) {
						return true
					}
				}
			case *ssa.FieldAddr:
				// stored into a field of a struct (an input object embedding the file): the struct carries it
				if reachesLibraryCall(p, a.X, depth+1) {
					return true
				}
			}
		case *ssa.Phi:
			if reachesLibraryCall(p, x, depth+1) {
				return true
			}
		case *ssa.FieldAddr:
			// v is a struct that carries the value: a field read out of it may be the value
			if x.X == v && x.Referrers() != nil {
				for _, r2 := range *x.Referrers() {
					if ld, ok := r2.(*ssa.UnOp); ok && ld.Op == token.MUL && reachesLibraryCall(p, ld, depth+1) {
						return true
					}
				}
			}
		case *ssa.ChangeType:
			if reachesLibraryCall(p, x, depth+1) {
				return true
			}
		case *ssa.MakeInterface:
			if reachesLibraryCall(p, x, depth+1) {
				return true
			}
		case *ssa.ChangeInterface:
			if reachesLibraryCall(p, x, depth+1) {
				return true
			}
		case *ssa.Slice:
			if reachesLibraryCall(p, x, depth+1) {
				return true
			}
		case *ssa.Return:
			// handed back to the callers (a helper that builds the option / opens the input)
			fn := x.Parent()
			idx := -1
			for i, rv := range x.Results {
				if rv == v {
					idx = i
				}
			}
			for _, ci := range p.Callers(fn) {
				cv, ok := ci.(*ssa.Call)
				if !ok {
					continue
				}
				if len(x.Results) == 1 {
					if reachesLibraryCall(p, cv, depth+1) {
						return true
					}
					continue
				}
				for _, r2 := range *cv.Referrers() {
					if ex, ok := r2.(*ssa.Extract); ok && ex.Index == idx && reachesLibraryCall(p, ex, depth+1) {
						return true
					}
				}
			}
		case *ssa.Call:
			if f := x.Common().StaticCallee(); f != nil && p.PkgPath(f) == modulePath && f.Object() != nil && f.Object().Exported() && f.Signature.Recv() == nil && !strings.HasPrefix(fname(f), "With") {
				return true
			}
			if isBuiltinCall(x, "append") {
				if reachesLibraryCall(p, x, depth+1) {
					return true
				}
			}
			for _, callee := range p.ModCallees(x) {
				for i, a := range x.Common().Args {
					if a == v && i < len(callee.Params) && reachesLibraryCall(p, callee.Params[i], depth+1) {
						return true
					}
				}
			}
			// a call of a function-typed parameter (withInput(path, func(in io.Reader) error {…})): the function values
			// that the call sites of the enclosing function pass for it
			if prm, isP := x.Common().Value.(*ssa.Parameter); isP && !x.Common().IsInvoke() && prm.Parent() != nil {
				idx := paramIndex(prm.Parent(), prm)
				for _, ci := range p.Callers(prm.Parent()) {
					args := callArgs(ci.Common())
					if idx < 0 || idx >= len(args) {
						continue
					}
					var target *ssa.Function
					switch f := resolve(args[idx]).(type) {
					case *ssa.MakeClosure:
						target = f.Fn.(*ssa.Function)
					case *ssa.Function:
						target = f
					}
					if target == nil || len(target.Blocks) == 0 {
						continue
					}
					for i, a := range x.Common().Args {
						if a == v && i < len(target.Params) && reachesLibraryCall(p, target.Params[i], depth+1) {
							return true
						}
					}
				}
			}
		}
	}
	return false
}


// isRangeLoopCond: the loop-control condition go/ssa generates for `for i := range slice` (i+1 < len) or for map/string ranges.
func isRangeLoopCond(c ssa.Value) bool {
	switch x := c.(type) {
	case *ssa.BinOp:
		if add, ok := x.X.(*ssa.BinOp); ok && add.Op == token.ADD {
			if ph, ok := add.X.(*ssa.Phi); ok && ph.Comment == "rangeindex" {
				return true
			}
		}
	case *ssa.Extract:
		if _, ok := x.Tuple.(*ssa.Next); ok && x.Index == 0 {
			return true
		}
	}
	return false
}


func customMarshalMethods(p *Prog, typeName string) []string {
	pk := p.ModPkgs[modulePath]
	if pk == nil {
		return nil
	}
	obj := lookupByCanonName(pk.Types.Scope(), typeName)
	if obj == nil {
		return nil
	}
	var out []string
	for _, t := range []types.Type{obj.Type(), types.NewPointer(obj.Type())} {
		ms := types.NewMethodSet(t)
		for i := 0; i < ms.Len(); i++ {
			n := ms.At(i).Obj().Name()
			if strings.HasPrefix(n, "Marshal") || strings.HasPrefix(n, "Unmarshal") || n == "String" || n == "GoString" || n == "Format" || n == "IsZero" {
				out = append(out, n)
			}
		}
	}
	return dedupSorted(out)
}

// existsSuffixOverExtensions: slices.ContainsFunc(recv.extensions, func(e string) bool { return strings.HasSuffix(node.name, e) }).
func existsSuffixOverExtensions(c *ssa.Call, node ssa.Value) bool {
	callee := c.Common().StaticCallee()
	if callee == nil || callee.Pkg == nil && callee.Origin() == nil {
		return false
	}
	name := fname(callee)
	if o := callee.Origin(); o != nil {
		name = o.Name()
		callee = o
	}
	if name != "ContainsFunc" || callee.Pkg == nil || callee.Pkg.Pkg.Path() != "slices" || len(c.Common().Args) != 2 {
		return false
	}
	if _, f, ok := fieldOfLoad(c.Common().Args[0]); !ok || f != "extensions" {
		return false
	}
	var pred *ssa.Function
	var bindings []ssa.Value
	switch f := resolve(c.Common().Args[1]).(type) {
	case *ssa.MakeClosure:
		pred = f.Fn.(*ssa.Function)
		bindings = f.Bindings
	case *ssa.Function:
		pred = f
	}
	if pred == nil || len(pred.Params) != 1 || pred.Blocks == nil {
		return false
	}
	ok, n := true, 0
	allInstrs(pred, func(in ssa.Instruction) {
		r, isR := in.(*ssa.Return)
		if !isR {
			return
		}
		n++
		hc, isCall := rr(r)[0].(*ssa.Call)
		if !isCall || calleeFullName(hc.Common()) != "strings.HasSuffix" || stripConv(hc.Common().Args[1]) != ssa.Value(pred.Params[0]) {
			ok = false
			return
		}
		ld, isL := isLoad(stripConv(hc.Common().Args[0]))
		if !isL {
			ok = false
			return
		}
		fa, isFA := ld.(*ssa.FieldAddr)
		if !isFA || fieldName(fa.X.Type(), fa.Field) != "name" {
			ok = false
			return
		}
		// the node: a captured variable bound to the predicate's node
		base := resolve(fa.X)
		if fv, isFV := stripConv(base).(*ssa.FreeVar); isFV {
			for i, q := range pred.FreeVars {
				if q == fv && i < len(bindings) {
					base = resolve(bindings[i])
					if ld2, isL2 := isLoad(stripConv(base)); isL2 {
						_ = ld2
						base = resolve(base)
					}
				}
			}
		}
		if !sameVar(base, node) && !sameVar(fa.X, node) {
			ok = false
		}
	})
	return ok && n == 1
}

// mapperGetsParseResult: the mapper call receives Parse's error and the row that was parsed (arguments found by type).
func mapperGetsParseResult(parse, he *ssa.Call) bool {
	rowOK, errOK := false, false
	for _, a := range he.Common().Args {
		if isErrorType(a.Type()) && resolve(a) == ssa.Value(siblingExtract(parse, 1)) {
			errOK = true
		}
		if b, ok := a.Type().Underlying().(*types.Basic); ok && b.Kind() == types.String && sameVar(parse.Common().Args[1], a) {
			rowOK = true
		}
	}
	return rowOK && errOK
}

// callStartsWith: got is the call want, possibly with further arguments after want's (a constructor that gained a
// parameter for a new option still receives what the rule is about, in the same positions).
func callStartsWith(got, want string) bool {
	if got == want {
		return true
	}
	if !strings.HasSuffix(want, ")") {
		return false
	}
	pre := want[:len(want)-1]
	return strings.HasPrefix(got, pre+",") && strings.HasSuffix(got, ")")
}

func allCallsStartWith(got []string, want string) bool {
	for _, g := range got {
		if !callStartsWith(g, want) {
			return false
		}
	}
	return len(got) > 0
}

// siblingExtract2: the Extract #idx of a tuple-valued instruction (Lookup with comma-ok, TypeAssert, …).
func siblingExtract2(v ssa.Value, idx int) *ssa.Extract {
	if v.Referrers() == nil {
		return nil
	}
	for _, r := range *v.Referrers() {
		if ex, ok := r.(*ssa.Extract); ok && ex.Index == idx {
			return ex
		}
	}
	return nil
}

// calledOnlyOnTrueSide: every call of f inside the family lies on the true side of the predicate pred (directly, or in
// a function of which the same holds): f is a helper of the "it is a file" branch.
func calledOnlyOnTrueSide(p *Prog, f, pred *ssa.Function, fam map[*ssa.Function]bool, depth int) bool {
	if depth > 3 {
		return false
	}
	n := 0
	for _, ci := range p.Callers(f) {
		if !fam[ci.Parent()] || ci.Parent() == f {
			continue
		}
		n++
		onTrue := false
		for _, g := range guardsOf(ci.(ssa.Instruction).Block()) {
			cd, pol := flattenCond(g.Cond, g.Pol)
			if cc, ok := cd.(*ssa.Call); ok && cc.Common().StaticCallee() == pred && pol {
				onTrue = true
			}
		}
		if !onTrue && !calledOnlyOnTrueSide(p, ci.Parent(), pred, fam, depth+1) {
			return false
		}
	}
	return n > 0
}


// forwardsResultsOf: every return of fn hands back, unchanged and in order, the results of one call of a module
// function; that function, else nil.
func forwardsResultsOf(p *Prog, fn *ssa.Function) *ssa.Function {
	var call *ssa.Call
	ok, n := true, 0
	allInstrs(fn, func(in ssa.Instruction) {
		r, isR := in.(*ssa.Return)
		if !isR || (fn.Recover != nil && r.Block() == fn.Recover) {
			return
		}
		n++
		for i, v := range rr(r) {
			var c *ssa.Call
			if len(rr(r)) == 1 {
				c, _ = v.(*ssa.Call)
			} else if ex, isEx := v.(*ssa.Extract); isEx && ex.Index == i {
				c, _ = ex.Tuple.(*ssa.Call)
			}
			if c == nil || (call != nil && c != call) {
				ok = false
				return
			}
			call = c
		}
	})
	if !ok || n == 0 || call == nil {
		return nil
	}
	h := call.Common().StaticCallee()
	if h == nil || !p.InModule(h) || len(h.Blocks) == 0 {
		return nil
	}
	return h
}


// exitCodeNonZero: v is a non-zero constant, or a parameter for which every call site of its function passes one.
func exitCodeNonZero(p *Prog, v ssa.Value, d int) bool {
	v = stripConv(v)
	if k, ok := constInt(v); ok {
		return k != 0
	}
	if ph, isPhi := v.(*ssa.Phi); isPhi && d <= 3 {
		for _, e := range ph.Edges {
			if !exitCodeNonZero(p, e, d+1) {
				return false
			}
		}
		return len(ph.Edges) > 0
	}
	prm, ok := v.(*ssa.Parameter)
	if !ok || d > 3 || prm.Parent() == nil {
		return false
	}
	f := prm.Parent()
	idx := inputIndexParam(f, prm)
	callers := p.Callers(f)
	if len(callers) == 0 || idx < 0 {
		return false
	}
	for _, ci := range callers {
		args := callArgs(ci.Common())
		if idx >= len(args) || !exitCodeNonZero(p, args[idx], d+1) {
			return false
		}
	}
	return true
}


// textNonEmptyAt: at block b the string v is known to be non-empty — a dominating guard tests len(v) / v != "" on the same
// value; for a parameter, every call site passes a value for which that holds there.
func textNonEmptyAt(p *Prog, v ssa.Value, b *ssa.BasicBlock, d int) bool {
	for _, g := range guardsOf(b) {
		c, pol := flattenCond(g.Cond, g.Pol)
		bo, isB := c.(*ssa.BinOp)
		if !isB {
			continue
		}
		// len(x) ⋈ k
		if _, neg, isLen := lenAtom(c); isLen {
			var lc *ssa.Call
			if x, ok := bo.X.(*ssa.Call); ok && isBuiltinCall(x, "len") {
				lc = x
			} else if y, ok := bo.Y.(*ssa.Call); ok && isBuiltinCall(y, "len") {
				lc = y
			}
			if lc != nil && pol != neg && sameStringExpr(lc.Common().Args[0], v, 0) {
				return true
			}
		}
		// x != "" / x == ""
		if bo.Op == token.NEQ || bo.Op == token.EQL {
			for _, pair := range [][2]ssa.Value{{bo.X, bo.Y}, {bo.Y, bo.X}} {
				if sv, isS := constString(pair[1]); isS && sv == "" && sameStringExpr(pair[0], v, 0) {
					if (bo.Op == token.NEQ) == pol {
						return true
					}
				}
			}
		}
	}
	if prm, isP := v.(*ssa.Parameter); isP && d < 2 && prm.Parent() != nil {
		idx := paramIndex(prm.Parent(), prm)
		callers := p.Callers(prm.Parent())
		if idx < 0 || len(callers) == 0 {
			return false
		}
		for _, ci := range callers {
			args := callArgs(ci.Common())
			if idx >= len(args) || !textNonEmptyAt(p, args[idx], ci.(ssa.Instruction).Block(), d+1) {
				return false
			}
		}
		return true
	}
	return false
}


// sameStringExpr: the same value, the same variable, or the same pure strings.* call on the same operands (the
// trimmed text computed once for the test and once more for the store).
func sameStringExpr(a, b ssa.Value, d int) bool {
	if a == b || sameVar(a, b) {
		return true
	}
	if d > 2 {
		return false
	}
	ca, okA := a.(*ssa.Call)
	cb, okB := b.(*ssa.Call)
	if !okA || !okB || ca.Common().StaticCallee() == nil || ca.Common().StaticCallee() != cb.Common().StaticCallee() {
		return false
	}
	if !strings.HasPrefix(calleeFullName(ca.Common()), "strings.") || len(ca.Common().Args) != len(cb.Common().Args) {
		return false
	}
	for i := range ca.Common().Args {
		x, y := ca.Common().Args[i], cb.Common().Args[i]
		if kx, isX := constString(x); isX {
			if ky, isY := constString(y); !isY || kx != ky {
				return false
			}
			continue
		}
		if !sameStringExpr(x, y, d+1) {
			return false
		}
	}
	return true
}
