package main

// CFG-1 (thorough tier): the analyses see everything the build can see.

import (
	"fmt"
	"sort"
	"strings"
)

func init() {
	register(&Rule{ID: "CFG-1", Doc: "every build configuration (default, tinywasm, js/wasm web main, GOOS=windows, GOOS=darwin) loads and type-checks, and the library packages consist of the same functions on linux, windows and darwin (no OS-specific file hides code from the rules)", Run: ruleCFG1})
}

func ruleCFG1(w *World) []Ob {
	l := &obs{rule: "CFG-1", cfg: "D"}
	base := map[string]bool{}
	d := w.D()
	for _, fn := range d.ModFuncs {
		if isLibPath(d.PkgPath(fn)) {
			base[d.FuncID(fn)] = true
		}
	}
	l.ok("-", "configuration D", "-", fmt.Sprintf("%d module functions", len(d.ModFuncs)), false, "config")
	pw := w.W()
	l.ok("-", "configuration W (tinywasm)", "-", fmt.Sprintf("%d module functions", len(pw.ModFuncs)), false, "config")
	for _, c := range []Config{cfgJ, cfgWin, cfgMac} {
		p, err := loadConfig(w.Repo, c)
		if err != nil {
			l.undecided("-", "configuration "+c.Name, "-", err.Error(), "config")
			continue
		}
		if c.Name == "J" {
			l.ok("-", "configuration J (js/wasm web main)", "-", fmt.Sprintf("%d module functions", len(p.ModFuncs)), false, "config")
			continue
		}
		got := map[string]bool{}
		for _, fn := range p.ModFuncs {
			if isLibPath(p.PkgPath(fn)) {
				got[p.FuncID(fn)] = true
			}
		}
		var diff []string
		for k := range base {
			if !got[k] {
				diff = append(diff, "-"+k)
			}
		}
		for k := range got {
			if !base[k] {
				diff = append(diff, "+"+k)
			}
		}
		sort.Strings(diff)
		if len(diff) > 0 {
			if len(diff) > 6 {
				diff = diff[:6]
			}
			l.bad("-", "configuration "+c.Name, "-", "the library's function set differs from the analysed linux build: "+strings.Join(diff, ", ")+" — OS-specific code is not covered by the rules", "config")
		} else {
			l.ok("-", "configuration "+c.Name, "-", fmt.Sprintf("library function set identical to linux (%d functions)", len(got)), true, "config")
		}
	}
	return l.list
}
