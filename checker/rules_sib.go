package main

// SIB — sibling agreement (part 1): deprecated aliases, build-variant twins, traversal order,
// pipeline/simple reuse.

import (
	"fmt"
	"go/ast"
	"go/token"
	"go/types"
	"os"
	"path/filepath"
	"regexp"
	"sort"
	"strings"

	"golang.org/x/tools/go/packages"
	"golang.org/x/tools/go/ssa"
)

func init() {
	register(&Rule{ID: "SIB-1", Doc: "deprecated aliases: every exported function documented `Deprecated: Call X.` has the same event skeleton (calls, stores, returns with argument terms and guards) as X (closures included) or is a single call of X with its parameters in order", Run: ruleSIB1})
	register(&Rule{ID: "SIB-2", Doc: "build variants: the error origins (constant messages, sentinels) reachable from the tinywasm Output are exactly those reachable from the default OutputFromMarkdown; every function the variant reaches that exists under the same name in the default build is the same definition; every source file of package gtree is compiled into exactly the variants its build constraint says", Run: ruleSIB2})
	register(&Rule{ID: "SIB-4", Doc: "traversal order: every per-node traversal acts on the node before a forward loop over node.children and recurses on the loop element; copying traversals use one index for source and copy", Run: ruleSIB4})
	register(&Rule{ID: "SIB-6", Doc: "the pipeline workers call, per root, exactly the per-root methods their simple-mode stage calls (same function objects through the embedded simple type)", Run: ruleSIB6})
}

// ---------------------------------------------------------------------------------------------
// canonical SSA text

type canon struct {
	p     *Prog
	norm  func(string) string
	names map[ssa.Value]string
	self  *ssa.Function
	b     strings.Builder
}

func (c *canon) typ(t types.Type) string { return c.norm(relType(t)) }

func (c *canon) val(v ssa.Value) string {
	if v == nil {
		return "_"
	}
	if n, ok := c.names[v]; ok {
		return n
	}
	switch x := v.(type) {
	case *ssa.Const:
		if x.Value == nil {
			return "nil:" + c.typ(x.Type())
		}
		return x.Value.ExactString() + ":" + c.typ(x.Type())
	case *ssa.Global:
		return "global:" + c.norm(x.Name())
	case *ssa.Function:
		return "func:" + c.fn(x)
	case *ssa.Builtin:
		return "builtin:" + x.Name()
	}
	return "?" + v.Name()
}

func (c *canon) fn(f *ssa.Function) string {
	if f == c.self {
		return "SELF"
	}
	for a := f; a != nil; a = a.Parent() {
		if a == c.self {
			// closure of self: name by path of indices
			return "SELF" + strings.TrimPrefix(fname(f), c.self.Name())
		}
	}
	return c.norm(relFunc(f))
}

func canonFunc(p *Prog, fn *ssa.Function, norm func(string) string) string {
	c := &canon{p: p, norm: norm, names: map[ssa.Value]string{}, self: fn}
	var emit func(f *ssa.Function)
	emit = func(f *ssa.Function) {
		for i, prm := range f.Params {
			c.names[prm] = fmt.Sprintf("p%d", i)
		}
		for i, fv := range f.FreeVars {
			c.names[fv] = fmt.Sprintf("f%d", i)
		}
		n := 0
		for _, b := range f.Blocks {
			for _, in := range b.Instrs {
				if v, ok := in.(ssa.Value); ok {
					c.names[v] = fmt.Sprintf("v%d", n)
					n++
				}
			}
		}
		fmt.Fprintf(&c.b, "func %s sig %s\n", c.fn(f), c.typ(f.Signature))
		for _, b := range f.Blocks {
			var succ []string
			for _, s := range b.Succs {
				succ = append(succ, fmt.Sprint(s.Index))
			}
			fmt.Fprintf(&c.b, " b%d -> %s\n", b.Index, strings.Join(succ, ","))
			for _, in := range b.Instrs {
				if _, ok := in.(*ssa.DebugRef); ok {
					continue
				}
				c.instr(in)
			}
		}
		for _, a := range f.AnonFuncs {
			emit(a)
		}
	}
	emit(fn)
	return c.b.String()
}

func (c *canon) ops(in ssa.Instruction) string {
	var out []string
	for _, op := range in.Operands(nil) {
		if op == nil {
			continue
		}
		out = append(out, c.val(*op))
	}
	return strings.Join(out, " ")
}

func (c *canon) instr(in ssa.Instruction) {
	lhs := ""
	if v, ok := in.(ssa.Value); ok {
		lhs = c.names[v] + ":" + c.typ(v.Type()) + " = "
	}
	kind := strings.TrimPrefix(fmt.Sprintf("%T", in), "*ssa.")
	extra := ""
	switch x := in.(type) {
	case *ssa.BinOp:
		extra = x.Op.String()
	case *ssa.UnOp:
		extra = x.Op.String()
		if x.CommaOk {
			extra += ",ok"
		}
	case *ssa.FieldAddr:
		extra = fieldName(x.X.Type(), x.Field)
	case *ssa.Field:
		extra = fieldName(x.X.Type(), x.Field)
	case *ssa.Extract:
		extra = fmt.Sprint(x.Index)
	case *ssa.TypeAssert:
		extra = c.typ(x.AssertedType)
		if x.CommaOk {
			extra += ",ok"
		}
	case *ssa.Alloc:
		if x.Heap {
			extra = "heap"
		}
	case *ssa.Select:
		if x.Blocking {
			extra = "blocking"
		}
		for _, st := range x.States {
			extra += fmt.Sprintf(" %v", st.Dir)
		}
	case ssa.CallInstruction:
		com := x.Common()
		if com.IsInvoke() {
			extra = "invoke " + methodName(com.Method)
		} else if f := com.StaticCallee(); f != nil {
			extra = "static " + c.fn(f)
		} else {
			extra = "dynamic"
		}
	case *ssa.MakeClosure:
		extra = c.fn(x.Fn.(*ssa.Function))
	}
	fmt.Fprintf(&c.b, "  %s%s %s [%s]\n", lhs, kind, extra, c.ops(in))
}

// firstDiff returns a short description of the first differing line.
func firstDiff(a, b string) string {
	la, lb := strings.Split(a, "\n"), strings.Split(b, "\n")
	for i := 0; i < len(la) || i < len(lb); i++ {
		x, y := "", ""
		if i < len(la) {
			x = la[i]
		}
		if i < len(lb) {
			y = lb[i]
		}
		if x != y {
			return fmt.Sprintf("first difference at skeleton line %d: %q vs %q", i+1, strings.TrimSpace(x), strings.TrimSpace(y))
		}
	}
	return ""
}

// ---------------------------------------------------------------------------------------------
// SIB-1

var deprecatedRe = regexp.MustCompile(`Deprecated: Call (\w+)\.`)

func ruleSIB1(w *World) []Ob {
	p := w.D()
	l := &obs{rule: "SIB-1", cfg: "D"}
	pk := p.ModPkgs[modulePath]
	n := 0
	for _, file := range pk.Syntax {
		for _, d := range file.Decls {
			fd, ok := d.(*ast.FuncDecl)
			if !ok || fd.Doc == nil || fd.Recv != nil {
				continue
			}
			m := deprecatedRe.FindStringSubmatch(fd.Doc.Text())
			if m == nil {
				continue
			}
			n++
			alias := p.Func("gtree." + fd.Name.Name)
			target := p.Func("gtree." + m[1])
			construct := "alias of " + m[1]
			if alias == nil || target == nil {
				l.undecided("gtree."+fd.Name.Name, construct, p.Pos(fd.Pos()), "alias or replacement function not found", "alias")
				continue
			}
			if !types.Identical(alias.Signature, target.Signature) {
				l.bad(p.FuncID(alias), construct, p.Pos(fd.Pos()), "the alias and its replacement have different signatures", "alias")
				continue
			}
			if forwardsTo(alias, target) {
				l.ok(p.FuncID(alias), construct, p.Pos(fd.Pos()), "single call of the replacement with the parameters in order", true, "alias")
				continue
			}
			id := func(s string) string { return s }
			a, b := skeleton(p, alias, id), skeleton(p, target, id)
			if a == b {
				l.ok(p.FuncID(alias), construct, p.Pos(fd.Pos()), fmt.Sprintf("event skeleton identical to the replacement's (%d events, closures included)", strings.Count(a, "\n")), true, "alias")
			} else {
				l.bad(p.FuncID(alias), construct, p.Pos(fd.Pos()), "the deprecated alias no longer does what "+m[1]+" does: "+firstDiff(a, b), "alias")
			}
		}
	}
	if n == 0 {
		l.undecided("-", "deprecated aliases", "-", "no `Deprecated: Call X.` doc comment found", "alias")
	}
	return l.list
}

func forwardsTo(alias, target *ssa.Function) bool {
	var call *ssa.Call
	nCalls := 0
	allInstrs(alias, func(in ssa.Instruction) {
		if c, ok := in.(*ssa.Call); ok {
			nCalls++
			call = c
		}
	})
	if nCalls != 1 || call.Common().StaticCallee() != target || len(alias.Blocks) != 1 {
		return false
	}
	for i, a := range call.Common().Args {
		if i >= len(alias.Params) || a != ssa.Value(alias.Params[i]) {
			return false
		}
	}
	return true
}

// ---------------------------------------------------------------------------------------------
// SIB-2

func stripSimple(s string) string {
	s = strings.ReplaceAll(s, "Simple", "")
	return s
}

func ruleSIB2(w *World) []Ob {
	d, pw := w.D(), w.W()
	l := &obs{rule: "SIB-2", cfg: "W"}
	// reject-set: the error origins reachable from the variant's Output are those of the default build's
	// OutputFromMarkdown (a check added to or removed from one side only changes the accept/reject decision)
	{
		construct := "error origins reachable from Output"
		rd, rw := d.Func("gtree.OutputFromMarkdown"), pw.Func("gtree.Output")
		if rd == nil {
			rd = d.Func("gtree.Output")
		}
		if rd == nil || rw == nil {
			l.undecided("gtree.Output", construct, "-", "entry point not found in one of the variants", "reject-set")
		} else {
			od, ow := errorOrigins(d, rd), errorOrigins(pw, rw)
			var onlyD, onlyW []string
			for k := range od {
				if _, ok := ow[k]; !ok && !defaultOnlyOrigin(k) {
					onlyD = append(onlyD, k+" ("+od[k]+")")
				}
			}
			for k := range ow {
				if _, ok := od[k]; !ok {
					onlyW = append(onlyW, k+" ("+ow[k]+")")
				}
			}
			sort.Strings(onlyD)
			sort.Strings(onlyW)
			if len(onlyD)+len(onlyW) == 0 {
				l.ok("gtree.Output", construct, pw.Pos(rw.Pos()), fmt.Sprintf("%d error origins (constant messages and sentinels) reachable in both variants", len(ow)), true, "reject-set")
			} else {
				msg := ""
				if len(onlyD) > 0 {
					msg += "rejections only the default build can produce: " + strings.Join(onlyD, "; ") + ". "
				}
				if len(onlyW) > 0 {
					msg += "rejections only the tinywasm build can produce: " + strings.Join(onlyW, "; ")
				}
				l.bad("gtree.Output", construct, pw.Pos(rw.Pos()), msg, "reject-set")
			}
		}
	}
	// shared functions really are shared: a function the variant reaches from Output that also exists in the
	// default build under the same name must be the same definition (same file compiled into both variants)
	if rw := pw.Func("gtree.Output"); rw != nil {
		var ids []string
		byID := map[string]*ssa.Function{}
		for fn := range reachableFrom(pw, []*ssa.Function{rw}, nil) {
			if fn.Parent() == nil && fn != rw { // the entry point itself is the variant's own by design
				ids = append(ids, pw.FuncID(fn))
				byID[pw.FuncID(fn)] = fn
			}
		}
		sort.Strings(ids)
		for _, name := range ids {
			fw := byID[name]
			fd := d.Func(name)
			if fd == nil {
				continue // variant-only function: covered by the term, reject-set and per-variant rules
			}
			construct := "shared by both variants"
			f1, f2 := d.Fset.Position(fd.Pos()).Filename, pw.Fset.Position(fw.Pos()).Filename
			if f1 == f2 {
				l.ok(name, construct, d.Pos(fd.Pos()), "one definition ("+filepath.Base(f1)+") compiled into the default and the tinywasm build", false, "shared")
			} else {
				l.bad(name, construct, pw.Pos(fw.Pos()), "the two variants compile different definitions of the same function ("+filepath.Base(f1)+" vs "+filepath.Base(f2)+"): shared logic has forked and nothing ties the copies together", "shared")
			}
		}
	}
	// build-constraint partition of the package directory
	dir := w.Repo
	ents, err := os.ReadDir(dir)
	if err != nil {
		l.undecided("-", "build-constraint partition", "-", err.Error(), "partition")
		return l.list
	}
	inD := fileSet(d.ModPkgs[modulePath])
	inW := fileSet(pw.ModPkgs[modulePath])
	var problems []string
	nFiles := 0
	for _, e := range ents {
		name := e.Name()
		if e.IsDir() || !strings.HasSuffix(name, ".go") || strings.HasSuffix(name, "_test.go") {
			continue
		}
		nFiles++
		full := filepath.Join(dir, name)
		cons := buildConstraintOf(full)
		switch cons {
		case "":
			if !inD[full] || !inW[full] {
				problems = append(problems, name+" has no build constraint but is not compiled into both variants")
			}
		case "tinywasm":
			if inD[full] || !inW[full] {
				problems = append(problems, name+" (tinywasm) is compiled into the wrong variant set")
			}
		case "!tinywasm":
			if !inD[full] || inW[full] {
				problems = append(problems, name+" (!tinywasm) is compiled into the wrong variant set")
			}
		default:
			problems = append(problems, name+" has an unexpected build constraint: "+cons)
		}
	}
	if len(problems) > 0 {
		l.bad("gtree", "build-constraint partition", "-", strings.Join(problems, "; "), "partition")
	} else {
		l.ok("gtree", "build-constraint partition", "-", fmt.Sprintf("%d files: each is unconstrained (both variants), tinywasm or !tinywasm, and the loaded packages agree", nFiles), true, "partition")
	}
	// what the web page passes: only the two branch-format options (thorough tier loads the js/wasm main)
	if w.Tier == "thorough" {
		j := w.J()
		l.cfg = "J"
		found := false
		for _, fn := range j.ModFuncs {
			allInstrs(fn, func(in ssa.Instruction) {
				c, ok := in.(*ssa.Call)
				if !ok || c.Common().StaticCallee() == nil || fname(c.Common().StaticCallee()) != "Output" || j.PkgPath(c.Common().StaticCallee()) != modulePath {
					return
				}
				found = true
				elems, ok := variadicElems(c.Common().Args[2])
				var names []string
				for _, e := range elems {
					if oc, isC := stripConv(e).(*ssa.Call); isC && oc.Common().StaticCallee() != nil {
						names = append(names, fname(oc.Common().StaticCallee()))
					} else {
						names = append(names, describeValue(e))
					}
				}
				sort.Strings(names)
				if ok && strings.Join(names, ",") == "WithBranchFormatIntermedialNode,WithBranchFormatLastNode" {
					l.ok(j.FuncID(fn), "options used by the web page", j.InstrPos(c), "Output(writer, reader, WithBranchFormatLastNode, WithBranchFormatIntermedialNode)", true, "web")
				} else {
					l.bad(j.FuncID(fn), "options used by the web page", j.InstrPos(c), "the web page passes "+strings.Join(names, ",")+": options outside the pairs compared by SIB-2/SIB-3", "web")
				}
			})
		}
		if !found {
			l.undecided("cmd/gtree-wasm", "options used by the web page", "-", "call of gtree.Output not found", "web")
		}
	}
	return l.list
}

func fileSet(pk *packages.Package) map[string]bool {
	m := map[string]bool{}
	if pk == nil {
		return m
	}
	for _, f := range pk.CompiledGoFiles {
		m[filepath.Clean(f)] = true
	}
	return m
}

func buildConstraintOf(path string) string {
	b, err := os.ReadFile(path)
	if err != nil {
		return "?"
	}
	for _, line := range strings.Split(string(b), "\n") {
		t := strings.TrimSpace(line)
		if strings.HasPrefix(t, "//go:build ") {
			return strings.TrimSpace(strings.TrimPrefix(t, "//go:build "))
		}
		if strings.HasPrefix(t, "package ") {
			break
		}
	}
	return ""
}

// ---------------------------------------------------------------------------------------------
// SIB-4 (syntax tree)

func ruleSIB4(w *World) []Ob {
	l := &obs{rule: "SIB-4"}
	n := 0
	for _, p := range []*Prog{w.D(), w.W()} {
		l.cfg = p.Cfg.Name
		pk := p.ModPkgs[modulePath]
		for i, file := range pk.Syntax {
			if p.Cfg.Name == "W" && fileInD(w, pk.CompiledGoFiles[i]) {
				continue
			}
			for _, d := range file.Decls {
				fd, ok := d.(*ast.FuncDecl)
				if !ok || fd.Body == nil {
					continue
				}
				for _, o := range traversalObligations(p, pk, fd) {
					n++
					l.add(o)
				}
			}
		}
	}
	if n == 0 {
		l.undecided("-", "recursive traversals over children", "-", "none found", "traversal")
	}
	for _, p := range []*Prog{w.D(), w.W()} {
		l.cfg = p.Cfg.Name
		for _, o := range freshConversionObligations(w, p) {
			l.add(o)
		}
	}
	return l.list
}

// isTreeConverter: a module function that takes a *Node, calls itself (on the children) and returns something that
// is neither a node nor a string nor an error — the record tree handed to a JSON / YAML / TOML encoder.
func isTreeConverter(p *Prog, f *ssa.Function) bool {
	if f == nil {
		return false
	}
	if o := f.Origin(); o != nil {
		f = o
	}
	if !p.InModule(f) || f.Signature.Results().Len() != 1 {
		return false
	}
	rt := f.Signature.Results().At(0).Type()
	if isNodePtr(rt) || isErrorType(rt) {
		return false
	}
	if b, ok := rt.Underlying().(*types.Basic); ok && b.Info()&(types.IsString|types.IsBoolean|types.IsNumeric) != 0 {
		return false
	}
	hasNode := false
	for _, prm := range f.Params {
		if isNodePtr(prm.Type()) {
			hasNode = true
		}
	}
	if !hasNode {
		return false
	}
	rec := false
	allInstrs(f, func(in ssa.Instruction) {
		if c, ok := in.(ssa.CallInstruction); ok {
			if cal := c.Common().StaticCallee(); cal != nil && (cal == f || cal.Origin() == f) {
				rec = true
			}
		}
	})
	return rec
}

// freshConversionObligations: whatever is handed to an encoder is the conversion of the root at hand, made for this
// call — not a record looked up in a map, kept in a field or shared between roots.  (Two roots that look alike
// under some key are still two roots of the output.)
func freshConversionObligations(w *World, p *Prog) []Ob {
	var out []Ob
	var fresh func(v ssa.Value, depth int, why *string) bool
	freshFn := func(f *ssa.Function, idx, depth int, why *string) bool {
		if isTreeConverter(p, f) {
			return true
		}
		if !p.InModule(f) || len(f.Blocks) == 0 {
			*why = "comes from " + f.String() + ", which is not a conversion of the tree"
			return false
		}
		ok := true
		n := 0
		allInstrs(f, func(in ssa.Instruction) {
			if r, isR := in.(*ssa.Return); isR && idx < len(r.Results) {
				n++
				if !fresh(r.Results[idx], depth+1, why) {
					ok = false
				}
			}
		})
		return ok && n > 0
	}
	fresh = func(v ssa.Value, depth int, why *string) bool {
		if depth > 4 {
			*why = "too deep to follow"
			return false
		}
		v = resolve(v)
		switch x := v.(type) {
		case *ssa.Call:
			if f := x.Common().StaticCallee(); f != nil {
				return freshFn(f, 0, depth, why)
			}
			if x.Common().IsInvoke() {
				*why = "comes from an interface call"
				return false
			}
			switch c := resolve(x.Common().Value).(type) {
			case *ssa.MakeClosure:
				return freshFn(c.Fn.(*ssa.Function), 0, depth, why)
			case *ssa.Function:
				return freshFn(c, 0, depth, why)
			case *ssa.Parameter:
				// a conversion handed in by the caller: every call site must hand in a converter
				fn := c.Parent()
				i := paramIndex(fn, c)
				callers := p.Callers(fn)
				if len(callers) == 0 {
					*why = "is made by a function parameter nobody fills"
					return false
				}
				for _, ci := range callers {
					args := callArgs(ci.Common())
					if i >= len(args) {
						*why = "is made by a function parameter"
						return false
					}
					switch a := resolve(args[i]).(type) {
					case *ssa.MakeClosure:
						if !freshFn(a.Fn.(*ssa.Function), 0, depth+1, why) {
							return false
						}
					case *ssa.Function:
						if !freshFn(a, 0, depth+1, why) {
							return false
						}
					default:
						*why = "is made by a function value that cannot be followed"
						return false
					}
				}
				return true
			}
			*why = "is made by a function value that cannot be followed"
			return false
		case *ssa.Phi:
			for _, e := range x.Edges {
				if !fresh(e, depth+1, why) {
					return false
				}
			}
			return true
		case *ssa.Extract:
			if c, ok := x.Tuple.(*ssa.Call); ok {
				if f := c.Common().StaticCallee(); f != nil {
					return freshFn(f, x.Index, depth, why)
				}
			}
			if _, ok := x.Tuple.(*ssa.Lookup); ok {
				*why = "is looked up in a map at " + p.InstrPos(x.Tuple.(ssa.Instruction))
				return false
			}
		case *ssa.Lookup:
			*why = "is looked up in a map at " + p.InstrPos(x)
			return false
		case *ssa.UnOp:
			*why = "is loaded from memory at " + p.InstrPos(x) + " rather than converted here"
			return false
		case *ssa.TypeAssert:
			return fresh(x.X, depth+1, why)
		}
		*why = fmt.Sprintf("has a source that is not a conversion (%T)", v)
		return false
	}
	n := 0
	for _, fn := range libFuncs(p) {
		if p.Cfg.Name == "W" && !wOnlyFunc(w, fn) {
			continue
		}
		allInstrs(fn, func(in ssa.Instruction) {
			c, ok := in.(ssa.CallInstruction)
			if !ok || len(c.Common().Args) == 0 {
				return
			}
			var arg ssa.Value
			if f := c.Common().StaticCallee(); f != nil {
				if p.InModule(f) || fname(f) != "Encode" || f.Signature.Recv() == nil {
					return
				}
				arg = c.Common().Args[len(c.Common().Args)-1]
			} else if !c.Common().IsInvoke() {
				sig, _ := c.Common().Value.Type().Underlying().(*types.Signature)
				if sig == nil || sig.Params().Len() != 1 || sig.Results().Len() != 1 || !isErrorType(sig.Results().At(0).Type()) {
					return
				}
				if it, isI := sig.Params().At(0).Type().Underlying().(*types.Interface); !isI || it.NumMethods() != 0 {
					return
				}
				arg = c.Common().Args[0]
			} else {
				return
			}
			n++
			ob := Ob{Rule: "SIB-4", Cfg: p.Cfg.Name, Func: p.FuncID(fn), Construct: "what is encoded is the conversion of this root", Pos: p.InstrPos(in), Nontrivial: true, Role: "fresh"}
			why := ""
			if fresh(arg, 0, &why) {
				ob.Status = OK
				ob.Detail = "the encoder's argument is the result of the recursive tree conversion, made at this call"
			} else {
				ob.Status = Violation
				ob.Detail = "the encoder's argument " + why + ": a root of the output may be represented by a record that was built for another root"
			}
			out = append(out, ob)
		})
	}
	if n == 0 && p.Cfg.Name == "D" {
		out = append(out, Ob{Rule: "SIB-4", Cfg: p.Cfg.Name, Func: "-", Construct: "what is encoded is the conversion of this root", Pos: "-", Status: Undecided, Nontrivial: true, Role: "fresh", Detail: "no encoder call found in the library"})
	}
	return out
}

// nodeIdents: parameters (and receiver) of type *Node.
func nodeParams(pk *packages.Package, fd *ast.FuncDecl) []types.Object {
	var out []types.Object
	add := func(fl *ast.FieldList) {
		if fl == nil {
			return
		}
		for _, f := range fl.List {
			for _, n := range f.Names {
				if obj := pk.TypesInfo.Defs[n]; obj != nil && isNodePtr(obj.Type()) {
					out = append(out, obj)
				}
			}
		}
	}
	add(fd.Recv)
	add(fd.Type.Params)
	return out
}

func traversalObligations(p *Prog, pk *packages.Package, fd *ast.FuncDecl) []Ob {
	var out []Ob
	fid := funcDeclID(pk.Types, fd)
	self := pk.TypesInfo.Defs[fd.Name]
	for _, node := range nodeParams(pk, fd) {
		childrenOf := func(e ast.Expr) bool {
			sel, ok := e.(*ast.SelectorExpr)
			if !ok || astFieldName(pk, sel) != "children" {
				return false
			}
			id, ok := sel.X.(*ast.Ident)
			return ok && pk.TypesInfo.Uses[id] == node
		}
		isSelfCall := func(c *ast.CallExpr) bool {
			var id *ast.Ident
			switch f := c.Fun.(type) {
			case *ast.Ident:
				id = f
			case *ast.SelectorExpr:
				id = f.Sel
			case *ast.IndexExpr:
				if i, ok := f.X.(*ast.Ident); ok {
					id = i
				}
			}
			return id != nil && pk.TypesInfo.Uses[id] == self
		}
		for idx, st := range fd.Body.List {
			var body *ast.BlockStmt
			var elem types.Object // range value variable
			var key types.Object  // index variable
			forward := true
			why := ""
			switch x := st.(type) {
			case *ast.RangeStmt:
				if !childrenOf(x.X) {
					continue
				}
				body = x.Body
				if id, ok := x.Value.(*ast.Ident); ok {
					elem = pk.TypesInfo.Defs[id]
				}
				if id, ok := x.Key.(*ast.Ident); ok && id.Name != "_" {
					key = pk.TypesInfo.Defs[id]
				}
			case *ast.ForStmt:
				// for i := 0; i < len(node.children); i++
				mentions := false
				ast.Inspect(x, func(n ast.Node) bool {
					if e, ok := n.(ast.Expr); ok && childrenOf(e) {
						mentions = true
					}
					return true
				})
				if !mentions {
					continue
				}
				body = x.Body
				forward, why, key = forwardFor(pk, x, childrenOf)
			default:
				continue
			}
			// recursion inside the loop body
			var rec *ast.CallExpr
			ast.Inspect(body, func(n ast.Node) bool {
				if c, ok := n.(*ast.CallExpr); ok && isSelfCall(c) {
					rec = c
				}
				return true
			})
			if rec == nil {
				continue
			}
			construct := "traversal over " + node.Name() + ".children"
			pos := p.Pos(st.Pos())
			if !forward {
				out = append(out, Ob{Func: fid, Construct: construct, Pos: pos, Status: Violation, Nontrivial: true, Role: "traversal", Detail: "the children are not visited in forward order: " + why})
				continue
			}
			// the recursion's node argument is the loop element
			argOK := false
			args := append([]ast.Expr{}, rec.Args...)
			if sel, ok := rec.Fun.(*ast.SelectorExpr); ok {
				args = append(args, sel.X)
			}
			for _, a := range args {
				switch e := a.(type) {
				case *ast.Ident:
					if elem != nil && pk.TypesInfo.Uses[e] == elem {
						argOK = true
					}
				case *ast.IndexExpr:
					if id, ok := e.Index.(*ast.Ident); ok && childrenOf(e.X) && key != nil && pk.TypesInfo.Uses[id] == key {
						argOK = true
					}
				}
			}
			if !argOK {
				out = append(out, Ob{Func: fid, Construct: construct, Pos: pos, Status: Violation, Nontrivial: true, Role: "traversal", Detail: "the recursive call does not receive the loop's current child"})
				continue
			}
			// pre-order: no statement after the loop (other than a return) mentions the node
			post := ""
			for _, later := range fd.Body.List[idx+1:] {
				if _, isRet := later.(*ast.ReturnStmt); isRet {
					continue
				}
				ast.Inspect(later, func(n ast.Node) bool {
					if id, ok := n.(*ast.Ident); ok && pk.TypesInfo.Uses[id] == node {
						post = p.Pos(later.Pos())
					}
					return true
				})
			}
			if post != "" {
				out = append(out, Ob{Func: fid, Construct: construct, Pos: pos, Status: Violation, Nontrivial: true, Role: "traversal", Detail: "the node is acted on after its children (statement at " + post + "): not pre-order"})
				continue
			}
			// index agreement for copying traversals: every index expression in the loop body uses the loop key
			idxBad := ""
			if key != nil {
				ast.Inspect(body, func(n ast.Node) bool {
					switch e := n.(type) {
					case *ast.IndexExpr:
						if id, ok := e.Index.(*ast.Ident); !ok || pk.TypesInfo.Uses[id] != key {
							if _, isType := pk.TypesInfo.Types[e.Index]; isType && pk.TypesInfo.Types[e.Index].IsType() {
								return true
							}
							idxBad = types.ExprString(e)
						}
					case *ast.CallExpr:
						// a child getter of the copy: any module method taking exactly one int
						if sel, ok := e.Fun.(*ast.SelectorExpr); ok && len(e.Args) == 1 && isIntIndexMethod(pk, sel) {
							if id, ok := e.Args[0].(*ast.Ident); !ok || pk.TypesInfo.Uses[id] != key {
								idxBad = types.ExprString(e)
							}
						}
					}
					return true
				})
			}
			if idxBad != "" {
				out = append(out, Ob{Func: fid, Construct: construct, Pos: pos, Status: Violation, Nontrivial: true, Role: "traversal", Detail: "source child and copied child are addressed with different indices (" + idxBad + ")"})
				continue
			}
			out = append(out, Ob{Func: fid, Construct: construct, Pos: pos, Status: OK, Nontrivial: true, Role: "traversal", Detail: "node first, then a forward loop over its children recursing on the current child"})
		}
	}
	return out
}

func forwardFor(pk *packages.Package, f *ast.ForStmt, childrenOf func(ast.Expr) bool) (bool, string, types.Object) {
	as, ok := f.Init.(*ast.AssignStmt)
	if !ok || len(as.Lhs) != 1 || len(as.Rhs) != 1 {
		return false, "loop initialisation is not `i := 0`", nil
	}
	id, ok := as.Lhs[0].(*ast.Ident)
	if !ok {
		return false, "loop initialisation is not `i := 0`", nil
	}
	key := pk.TypesInfo.Defs[id]
	if !isConstInt(pk, as.Rhs[0], 0) {
		return false, "the loop does not start at index 0", key
	}
	cond, ok := f.Cond.(*ast.BinaryExpr)
	if !ok || cond.Op != token.LSS {
		return false, "the loop condition is not `i < len(children)`", key
	}
	if c, ok := cond.Y.(*ast.CallExpr); !ok || len(c.Args) != 1 || !childrenOf(c.Args[0]) {
		return false, "the loop bound is not len(children)", key
	}
	inc, ok := f.Post.(*ast.IncDecStmt)
	if !ok || inc.Tok != token.INC {
		return false, "the loop does not step by i++", key
	}
	return true, "", key
}

// ---------------------------------------------------------------------------------------------
// SIB-6

// pairObligations: the From-Root form of every massive-mode operation runs the stages its From-Markdown form runs (all
// but the two that read the document): the same stage methods of the tree's parts and the same collector.  A From-Root
// form that is served some other way (delegated to the simple tree, a reduced pipeline) no longer behaves like the
// Markdown form under cancellation, errors in a stage and validation.
func pairObligations(p *Prog, l *obs) {
	stageSet := func(fn *ssa.Function) map[string]bool {
		out := map[string]bool{}
		seen := map[*ssa.Function]bool{}
		var visit func(f *ssa.Function, depth int)
		visit = func(f *ssa.Function, depth int) {
			if seen[f] || depth > 3 {
				return
			}
			seen[f] = true
			for _, a := range f.AnonFuncs {
				visit(a, depth)
			}
			allInstrs(f, func(in ssa.Instruction) {
				ci, ok := in.(ssa.CallInstruction)
				if !ok {
					return
				}
				com := ci.Common()
				if com.IsInvoke() {
					if _, fld, isField := fieldOfLoad(com.Value); isField {
						out[fld+"."+methodName(com.Method)] = true
					}
					return
				}
				g := com.StaticCallee()
				if g == nil || !p.InModule(g) {
					return
				}
				// the collector: a function that is handed the stages' error channels
				if n := len(g.Params); n > 0 {
					if sl, ok := g.Params[n-1].Type().Underlying().(*types.Slice); ok {
						if ch, ok := sl.Elem().Underlying().(*types.Chan); ok && isErrorType(ch.Elem()) {
							out["collector"] = true
							return
						}
					}
				}
				// helpers of the tree itself (a shared prologue, a source builder) are looked into
				if recvTypeName(g) == recvTypeName(fn) {
					visit(g, depth+1)
				}
			})
		}
		visit(fn, 0)
		return out
	}
	n := 0
	for _, fn := range libFuncs(p) {
		if fn.Parent() != nil || recvTypeName(fn) != "treePipeline" || !strings.HasSuffix(fname(fn), "Programmably") {
			continue
		}
		base := strings.TrimSuffix(fname(fn), "Programmably")
		var md *ssa.Function
		for _, g := range libFuncs(p) {
			if g.Parent() == nil && recvTypeName(g) == "treePipeline" && fname(g) == base {
				md = g
			}
		}
		if md == nil {
			continue
		}
		n++
		a, b := stageSet(md), stageSet(fn)
		if len(a) == 0 {
			continue // the Markdown form starts no stage (walkIter): nothing to agree on
		}
		var missing, extra []string
		for k := range a {
			if !b[k] {
				missing = append(missing, k)
			}
		}
		for k := range b {
			if !a[k] {
				extra = append(extra, k)
			}
		}
		sort.Strings(missing)
		sort.Strings(extra)
		construct := "From-Root form runs the stages of the From-Markdown form"
		if len(missing) > 0 {
			l.bad(p.FuncID(fn), construct, p.Pos(fn.Pos()), fmt.Sprintf("compared with %s it does not call %v (and calls %v that the other does not): the two forms of the massive operation no longer share validation, cancellation and error collection, so a tree built with NewRoot/Add behaves differently from the same tree written as Markdown", fname(md), missing, extra), "pair")
		} else {
			l.ok(p.FuncID(fn), construct, p.Pos(fn.Pos()), fmt.Sprintf("same %d stage / collector calls as %s", len(a), fname(md)), true, "pair")
		}
	}
	if n == 0 {
		l.undecided("-", "From-Root / From-Markdown pairs of the pipeline tree", "-", "no pair of methods X / XProgrammably found on the pipeline tree", "pair")
	}
}

// shadowObligations: a pipeline stage type embeds the simple stage type so that its workers do, per root, what the
// simple mode does.  A method declared on the pipeline type with the name and signature of a method of the embedded
// type silently takes over every such call made through the pipeline object (massive mode then runs different per-root
// code than simple mode), whereas the stage entry points differ in signature (they take the context and a channel).
func shadowObligations(p *Prog, l *obs) {
	pk := p.ModPkgs[modulePath]
	if pk == nil {
		return
	}
	scope := pk.Types.Scope()
	n := 0
	for _, name := range scope.Names() {
		tn, ok := scope.Lookup(name).(*types.TypeName)
		if !ok {
			continue
		}
		named, ok := tn.Type().(*types.Named)
		if !ok {
			continue
		}
		st, ok := named.Underlying().(*types.Struct)
		if !ok || !strings.HasSuffix(typeName(named), "Pipeline") {
			continue
		}
		for i := 0; i < st.NumFields(); i++ {
			f := st.Field(i)
			if !f.Embedded() || !strings.HasSuffix(typeName(f.Type()), "Simple") {
				continue
			}
			emb := namedOf(f.Type())
			if emb == nil {
				continue
			}
			n++
			var shadows []string
			for j := 0; j < named.NumMethods(); j++ {
				m := named.Method(j)
				for k := 0; k < emb.NumMethods(); k++ {
					em := emb.Method(k)
					if em.Name() != m.Name() {
						continue
					}
					ms, es := m.Type().(*types.Signature), em.Type().(*types.Signature)
					if types.Identical(types.NewSignatureType(nil, nil, nil, ms.Params(), ms.Results(), ms.Variadic()), types.NewSignatureType(nil, nil, nil, es.Params(), es.Results(), es.Variadic())) {
						shadows = append(shadows, m.Name())
					}
				}
			}
			construct := "no per-root method of the embedded simple stage is replaced"
			if len(shadows) > 0 {
				sort.Strings(shadows)
				l.bad("gtree."+typeName(named), construct, p.Pos(tn.Pos()), fmt.Sprintf("%s declares %v with the signature of the method it gets from the embedded %s: every call through the pipeline object now runs this version, so massive mode does per root something else than simple mode", typeName(named), shadows, typeName(emb)), "shadow")
			} else {
				l.ok("gtree."+typeName(named), construct, p.Pos(tn.Pos()), "no method of "+typeName(named)+" has the name and signature of a method of the embedded "+typeName(emb), true, "shadow")
			}
		}
	}
	if n == 0 {
		l.undecided("-", "pipeline stage types embedding their simple counterpart", "-", "none found", "shadow")
	}
}

func ruleSIB6(w *World) []Ob {
	p := w.D()
	l := &obs{rule: "SIB-6", cfg: "D"}
	pairObligations(p, l)
	shadowObligations(p, l)
	mi := computeMulti(p)
	n := 0
	var workers []*ssa.Function
	for wk, gos := range mi.workers {
		if gos != nil {
			workers = append(workers, wk)
		}
	}
	sort.Slice(workers, func(i, j int) bool { return p.FuncID(workers[i]) < p.FuncID(workers[j]) })
	for _, wk := range workers {
		rt := recvTypeName(wk)
		// embedded simple type
		if wk.Signature.Recv() == nil {
			continue // a worker that is a function literal or a plain function: no stage type to compare
		}
		recvNamed := namedOf(wk.Signature.Recv().Type())
		if recvNamed == nil {
			continue
		}
		st, ok := recvNamed.Underlying().(*types.Struct)
		if !ok {
			continue
		}
		simple := ""
		for i := 0; i < st.NumFields(); i++ {
			if st.Field(i).Embedded() && strings.HasSuffix(typeName(st.Field(i).Type()), "Simple") {
				simple = typeName(st.Field(i).Type())
			}
		}
		if simple == "" {
			continue // e.g. the generator, which has no simple counterpart object
		}
		// the stage method of the pipeline type that starts this worker
		stage := ""
		for _, g := range mi.workers[wk] {
			f := outermost(g.Parent())
			for i := 0; i < 4; i++ {
				stage = fname(f)
				if p.Func("(*gtree."+simple+")."+stage) != nil {
					break
				}
				up := goStartOf(p, f)
				if up == nil {
					if site := soleCallSite(p, f); site != nil {
						f = outermost(site.Parent())
						continue
					}
					break
				}
				f = outermost(up.Parent())
			}
		}
		sm := p.Func("(*gtree." + simple + ")." + stage)
		construct := "per-root methods of " + rt + "." + stage + " vs " + simple + "." + stage
		n++
		if sm == nil {
			l.undecided(p.FuncID(wk), construct, p.Pos(wk.Pos()), "the simple-mode stage method (*"+simple+")."+stage+" was not found", "reuse")
			continue
		}
		perRoot := func(fn *ssa.Function) []string {
			set := map[string]bool{}
			var fam []*ssa.Function
			fam = append(fam, fn)
			fam = append(fam, fn.AnonFuncs...)
			// helpers on the same (pipeline) receiver type that the worker calls
			if recvTypeName(fn) != simple {
				allInstrs(fn, func(in ssa.Instruction) {
					if c, ok := in.(*ssa.Call); ok && c.Common().StaticCallee() != nil {
						if g := c.Common().StaticCallee(); g != fn && g.Blocks != nil && recvTypeName(g) == recvTypeName(fn) && !callsItself(g) {
							fam = append(fam, g)
						}
					}
				})
			}
			for _, f := range fam {
				allInstrs(f, func(in ssa.Instruction) {
					c, ok := in.(*ssa.Call)
					if !ok || c.Common().StaticCallee() == nil {
						return
					}
					callee := c.Common().StaticCallee()
					if recvTypeName(callee) == simple && callee != fn {
						set[fname(callee)] = true
					}
				})
			}
			return sortedKeys(set)
		}
		// the massive-mode stage touches the filesystem only through the methods of the simple stage it embeds: a
		// helper of the pipeline type that stats, lists or creates on its own is a second implementation of the
		// per-root work, and the two modes can then answer differently for the same root
		{
			ds := directSites(p)
			var own []*ssa.Function
			own = append(own, wk)
			own = append(own, wk.AnonFuncs...)
			seenOwn := map[*ssa.Function]bool{wk: true}
			for i := 0; i < len(own); i++ {
				allInstrs(own[i], func(in ssa.Instruction) {
					if c, ok := in.(*ssa.Call); ok && c.Common().StaticCallee() != nil {
						g := c.Common().StaticCallee()
						if !seenOwn[g] && g.Blocks != nil && recvTypeName(g) == recvTypeName(wk) && p.InModule(g) {
							seenOwn[g] = true
							own = append(own, g)
							own = append(own, g.AnonFuncs...)
						}
					}
				})
			}
			bad := ""
			for _, f := range own {
				for _, site := range ds[f] {
					if site.eff == EffFSRead || site.eff == EffFSMutate {
						bad = site.callee + " in " + relFunc(f) + " at " + p.InstrPos(site.instr)
					}
				}
			}
			c2 := "filesystem access of " + rt + "." + stage + " goes through " + simple
			if bad != "" {
				l.bad(p.FuncID(wk), c2, p.Pos(wk.Pos()), "the massive-mode stage reads or changes the filesystem on its own ("+bad+") instead of through the methods of the simple stage it embeds: a second implementation of the per-root work, which can answer differently from simple mode for the same root", "reuse")
			} else {
				l.ok(p.FuncID(wk), c2, p.Pos(wk.Pos()), "no filesystem call in the worker or in helpers of the pipeline type", false, "reuse")
			}
		}
		a, b := perRoot(wk), perRoot(sm)
		// when the direct sets differ (one side goes through a helper of the simple type), compare what they bottom out
		// in: the simple type's leaf methods and the effectful external calls reachable from the per-root calls
		bottom := func(fn *ssa.Function) string {
			set := map[string]bool{}
			var roots []*ssa.Function
			var fam []*ssa.Function
			fam = append(fam, fn)
			fam = append(fam, fn.AnonFuncs...)
			for _, f := range fam {
				allInstrs(f, func(in ssa.Instruction) {
					if c, ok := in.(*ssa.Call); ok && c.Common().StaticCallee() != nil && recvTypeName(c.Common().StaticCallee()) == simple && c.Common().StaticCallee() != fn {
						roots = append(roots, c.Common().StaticCallee())
					}
				})
			}
			for f := range reachableFrom(p, roots, nil) {
				leaf := recvTypeName(f) == simple
				allInstrs(f, func(in ssa.Instruction) {
					ci, ok := in.(ssa.CallInstruction)
					if !ok || ci.Common().StaticCallee() == nil {
						return
					}
					g := ci.Common().StaticCallee()
					if p.InModule(g) {
						if recvTypeName(g) == simple && g != f {
							leaf = false
						}
						return
					}
					if classifyExternal(g) != EffPure {
						set["ext:"+g.String()] = true
					}
				})
				// a method of the simple type handed on as a method value (slices.ContainsFunc(roots, dm.isExist)) is a
				// call of it as well
				for _, e := range succsOf(p, f) {
					g := e.to
					if g.Synthetic != "" {
						allInstrs(g, func(in2 ssa.Instruction) {
							if c2, ok := in2.(*ssa.Call); ok && c2.Common().StaticCallee() != nil {
								g = c2.Common().StaticCallee()
							}
						})
					}
					if g != f && recvTypeName(g) == simple {
						leaf = false
					}
				}
				if leaf {
					set[fname(f)] = true
				}
			}
			return strings.Join(sortedKeys(set), ", ")
		}
		if strings.Join(a, ",") == strings.Join(b, ",") && len(a) > 0 {
			l.ok(p.FuncID(wk), construct, p.Pos(wk.Pos()), "both call exactly {"+strings.Join(a, ", ")+"} of "+simple, true, "reuse")
		} else if ba, bb := bottom(wk), bottom(sm); len(a) > 0 && ba == bb && ba != "" {
			l.ok(p.FuncID(wk), construct, p.Pos(wk.Pos()), "the worker calls {"+strings.Join(a, ", ")+"}, simple mode {"+strings.Join(b, ", ")+"}; both bottom out in the same leaf methods and external calls {"+ba+"}", true, "reuse")
		} else {
			l.bad(p.FuncID(wk), construct, p.Pos(wk.Pos()), "the massive-mode worker handles a root with {"+strings.Join(a, ", ")+"} but simple mode uses {"+strings.Join(b, ", ")+"}: the two modes can give different results for the same root (they bottom out in {"+bottom(wk)+"} and {"+bottom(sm)+"})", "reuse")
		}
	}
	if n == 0 {
		l.undecided("-", "pipeline workers with an embedded simple stage", "-", "none found", "reuse")
	}
	// every pipeline stage type that wraps a simple stage has such a worker
	if pk := p.ModPkgs[modulePath]; pk != nil {
		covered := map[string]bool{}
		for _, o := range l.list {
			if i := strings.Index(o.Func, ")."); i > 0 {
				covered[strings.TrimPrefix(o.Func[:i], "(*gtree.")] = true
			}
		}
		scope := pk.Types.Scope()
		for _, name := range scope.Names() {
			tn, ok := scope.Lookup(name).(*types.TypeName)
			if !ok {
				continue
			}
			st, ok := tn.Type().Underlying().(*types.Struct)
			if !ok {
				continue
			}
			wraps := ""
			for i := 0; i < st.NumFields(); i++ {
				if st.Field(i).Embedded() && strings.HasSuffix(typeName(st.Field(i).Type()), "Simple") {
					wraps = typeName(st.Field(i).Type())
				}
			}
			if wraps == "" || covered[name] {
				continue
			}
			// does the type start goroutines at all?
			starts := false
			for _, fn := range libFuncs(p) {
				if recvTypeName(outermost(fn)) == name {
					allInstrs(fn, func(in ssa.Instruction) {
						if g, isGo := in.(*ssa.Go); isGo && inLoop(g) { // a pool of workers, not a single collector goroutine
							starts = true
						}
					})
				}
			}
			if starts {
				l.bad("gtree."+name, "stage workers run on the pipeline stage object", p.Pos(tn.Pos()), "the massive-mode stage "+name+" starts a pool of goroutines but none of them is a worker method of "+name+" that calls "+wraps+"'s per-root methods through the embedded object: the per-root work runs on something else (a copy, another object), so settings applied to the stage (validation, formats) may not reach it", "reuse")
			}
		}
	}
	// From-Root and From-Markdown routes of one tree use the same stage objects: every method of
	// treeSimple / treePipeline reaches the stages only through the tree's own fields
	for _, tn := range []string{"treeSimple", "treePipeline"} {
		for _, fn := range libFuncs(p) {
			if recvTypeName(fn) != tn || fn.Parent() != nil {
				continue
			}
			bad := ""
			allInstrs(fn, func(in ssa.Instruction) {
				c, ok := in.(*ssa.Call)
				if !ok || !c.Common().IsInvoke() {
					return
				}
				it := typeName(c.Common().Value.Type())
				if !(strings.HasPrefix(it, "grower") || strings.HasPrefix(it, "spreader") || strings.HasPrefix(it, "mkdirer") || strings.HasPrefix(it, "verifier") || strings.HasPrefix(it, "walker") || strings.HasPrefix(it, "growSpreader")) {
					return
				}
				if _, f, ok := fieldOfLoad(c.Common().Value); !ok || !sameVar(baseOfFieldLoad(c.Common().Value), fn.Params[0]) {
					bad = "the " + it + " used at " + p.InstrPos(c) + " is not a field of the receiver tree (" + f + ")"
				}
			})
			if bad != "" {
				l.bad(p.FuncID(fn), "stages come from the tree's own fields", p.Pos(fn.Pos()), bad, "stages")
			}
		}
	}
	return l.list
}

func baseOfFieldLoad(v ssa.Value) ssa.Value {
	if ld, ok := isLoad(stripConv(v)); ok {
		if fa, ok := ld.(*ssa.FieldAddr); ok {
			return fa.X
		}
	}
	return nil
}


// ---------------------------------------------------------------------------------------------
// event skeleton: what a function does, abstracted from how it is spelled

// skeleton lists, in source order, the function's effects — calls, field stores, sends, returns — each
// with its argument terms and the branch conditions it depends on.  Register names, local variable
// names, loop spelling (range vs index), if/else orientation and statement layout do not show.
func skeleton(p *Prog, fn *ssa.Function, norm func(string) string) string {
	var b strings.Builder
	var emit func(f *ssa.Function, label string)
	emit = func(f *ssa.Function, label string) {
		t := &termer{p: p, byIndex: true}
		fmt.Fprintf(&b, "func %s\n", label)
		for _, blk := range f.Blocks {
			for _, in := range blk.Instrs {
				ev := ""
				switch x := in.(type) {
				case *ssa.Call:
					if bi, ok := x.Common().Value.(*ssa.Builtin); ok && (bi.Name() == "len" || bi.Name() == "cap") {
						continue
					}
					if f2 := x.Common().StaticCallee(); f2 != nil && !p.InModule(f2) {
						switch pkgOfFunc(f2).Pkg.Path() {
						case "iter":
							continue
						}
					}
					ev = "call " + t.term(x, 0)
				case *ssa.Go:
					ev = "go " + calleeString(x.Common())
				case *ssa.Defer:
					ev = "defer " + calleeString(x.Common())
				case *ssa.Store:
					if fa, ok := x.Addr.(*ssa.FieldAddr); ok {
						ev = "store " + fieldName(fa.X.Type(), fa.Field) + "(" + t.term(fa.X, 0) + ") = " + t.term(x.Val, 0)
					}
				case *ssa.Send:
					ev = "send " + t.term(x.X, 0)
				case *ssa.Return:
					var parts []string
					for _, v := range rr(x) {
						parts = append(parts, t.term(v, 0))
					}
					ev = "return " + strings.Join(parts, ", ")
				case *ssa.MakeClosure:
					ev = "closure"
				}
				if ev == "" {
					continue
				}
				var gs []string
				for _, g := range guardsOf(blk) {
					c, pol := flattenCond(g.Cond, g.Pol)
					if isRangeLoopCond(c) || isIndexLoopCond(c) {
						continue
					}
					gs = append(gs, condText(t, c, pol, 0))
				}
				sort.Strings(gs)
				fmt.Fprintf(&b, "  %s   if [%s]\n", ev, strings.Join(gs, " & "))
			}
		}
		for i, a := range f.AnonFuncs {
			emit(a, fmt.Sprintf("%s$%d", label, i+1))
		}
	}
	emit(fn, "SELF")
	out := norm(b.String())
	out = strings.ReplaceAll(out, relFunc(fn), "SELF")
	return out
}

// isIndexLoopCond: i < len(x) with i a loop phi.
func isIndexLoopCond(c ssa.Value) bool {
	b, ok := c.(*ssa.BinOp)
	if !ok {
		return false
	}
	isLen := func(v ssa.Value) bool {
		cc, ok := v.(*ssa.Call)
		return ok && isBuiltinCall(cc, "len")
	}
	isLoopPhi := func(v ssa.Value) bool {
		ph, ok := v.(*ssa.Phi)
		return ok && inLoop(ph)
	}
	return (isLen(b.Y) && isLoopPhi(b.X)) || (isLen(b.X) && isLoopPhi(b.Y))
}

// errorOrigins: constant error messages (fmt.Errorf / errors.New with a constant first argument) and error
// sentinels (package-level error variables loaded) in the module functions reachable from root.
func errorOrigins(p *Prog, root *ssa.Function) map[string]string {
	out := map[string]string{}
	for fn := range reachableFrom(p, []*ssa.Function{root}, nil) {
		fn := fn
		allInstrs(fn, func(in ssa.Instruction) {
			switch x := in.(type) {
			case *ssa.Call:
				switch calleeFullName(x.Common()) {
				case "fmt.Errorf", "errors.New":
					if s, ok := constString(x.Common().Args[0]); ok {
						// a %w wrapper around an error that already exists is not where a rejection originates: the
						// wrapped error's own origin (a message, a sentinel, a failing reader / writer) is
						if strings.Contains(s, "%w") && len(x.Common().Args) == 2 {
							if elems, isV := variadicElems(x.Common().Args[1]); isV {
								wraps := false
								for _, e := range elems {
									if ev := stripConv(e); isErrorType(ev.Type()) && !isNilConst(ev) {
										wraps = true
									}
								}
								if wraps {
									return
								}
							}
						}
						out[fmt.Sprintf("%q", s)] = p.FuncID(fn)
					}
				}
			case *ssa.UnOp:
				if g, ok := x.X.(*ssa.Global); ok && x.Op == token.MUL && isErrorType(g.Type().(*types.Pointer).Elem()) && g.Pkg != nil && strings.HasPrefix(g.Pkg.Pkg.Path(), modulePath) {
					out[g.Name()] = p.FuncID(fn)
				}
			}
		})
	}
	return out
}

// origins that exist only because the default build has the massive (pipeline) mode, which the variant lacks
// by construction (WithMassive is not compiled into it): context cancellation is not an input rejection.
func defaultOnlyOrigin(k string) bool { return false }

// isIntIndexMethod: sel names a method of the module with signature func(int) T.
func isIntIndexMethod(pk *packages.Package, sel *ast.SelectorExpr) bool {
	fn, ok := pk.TypesInfo.Uses[sel.Sel].(*types.Func)
	if !ok || fn.Pkg() == nil || !strings.HasPrefix(fn.Pkg().Path(), modulePath) {
		return false
	}
	sig, ok := fn.Type().(*types.Signature)
	if !ok || sig.Recv() == nil || sig.Params().Len() != 1 || sig.Results().Len() != 1 {
		return false
	}
	b, ok := sig.Params().At(0).Type().Underlying().(*types.Basic)
	return ok && b.Kind() == types.Int
}
