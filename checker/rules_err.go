package main

// ERR — error discipline.
//
// ERR-1  every error value produced in module code (call result, channel receive, range-func
//        parameter) is consumed: returned, sent, yielded/passed to a callback or a module
//        function, stored, or wrapped with %w.  A value that is only *tested* (err != nil,
//        errors.Is, os.IsNotExist) and then forgotten is "checked but swallowed".
// ERR-2  the write sites to the user's writer, as ERR-1 obligations with a role per printer type.
// ERR-3  every bufio.Scanner loop is followed by Err() on the same scanner on every path out.
// ERR-4  the user callback's error is returned as the same value and no callback runs after it.

import (
	"fmt"
	"go/ast"
	"go/token"
	"go/types"
	"strings"

	"golang.org/x/tools/go/ssa"
)

func init() {
	register(&Rule{ID: "ERR-1", Doc: "no error value produced in module code is dropped or merely tested: each is returned, sent, yielded, handed to a module function/callback, stored, or wrapped with %w (interprocedural by induction over every level)", Run: ruleERR1})
	register(&Rule{ID: "ERR-2", Doc: "write sites to the caller's io.Writer (fmt.Fprint*, bufio.Writer, Encoder.Encode, encode closures) enumerated per printer type; each must exist and have its error consumed", Run: ruleERR2})
	register(&Rule{ID: "ERR-3", Doc: "every function that loops on (*bufio.Scanner).Scan calls Err() on the same scanner on every path from the loop exit to a return, and that error is consumed", Run: ruleERR3})
	register(&Rule{ID: "ERR-4", Doc: "the error returned by a user callback is returned as the same SSA value, directly from the failing branch, with no further callback call reachable", Run: ruleERR4})
}

// err1Exempt: single named constructs that are outside the properties' quantifiers, one reason each.
var err1Exempt = map[string]string{
	"(*gtree.defaultMkdirerSimple).isExistRoot | os.Stat": "every Stat outcome other than not-exist makes isExistRoot true, which the caller reports as ErrExistPath (EFF-6 checks that branch)",
}

type errSource struct {
	val   ssa.Value       // the error value (nil when the result is not even extracted)
	instr ssa.Instruction // producing instruction
	what  string          // callee / channel description
	kind  string          // call, recv, select-recv, defer, go, rangefunc
}

func scopeOf(p *Prog, fn *ssa.Function) string {
	switch path := p.PkgPath(fn); {
	case path == modulePath:
		return "lib"
	case path == modulePath+"/markdown":
		return "markdown"
	case isCLIPath(path):
		return "cli"
	default:
		return strings.TrimPrefix(path, modulePath+"/")
	}
}

// errorSources lists every error-typed value produced in fn.
func errorSources(fn *ssa.Function) []errSource {
	var out []errSource
	if fn.Parent() == nil && fn.Synthetic == "" {
		for _, prm := range fn.Params {
			if isErrorType(prm.Type()) && fn.Signature.Results().Len() == 0 {
				// a function that receives an error and returns nothing must deliver it somewhere
				out = append(out, errSource{val: prm, instr: firstInstr(fn), what: "error parameter " + prm.Name(), kind: "param"})
			}
		}
	}
	allInstrs(fn, func(in ssa.Instruction) {
		switch x := in.(type) {
		case *ssa.Call:
			res := x.Common().Signature().Results()
			if res.Len() == 1 {
				if isErrorType(res.At(0).Type()) {
					out = append(out, errSource{val: x, instr: x, what: calleeString(x.Common()), kind: "call"})
				}
				return
			}
			for i := 0; i < res.Len(); i++ {
				if !isErrorType(res.At(i).Type()) {
					continue
				}
				var ex ssa.Value
				for _, r := range *x.Referrers() {
					if e, ok := r.(*ssa.Extract); ok && e.Index == i {
						ex = e
					}
				}
				out = append(out, errSource{val: ex, instr: x, what: calleeString(x.Common()), kind: "call"})
			}
		case *ssa.Defer:
			if sigReturnsError(x.Common().Signature()) {
				out = append(out, errSource{val: nil, instr: x, what: calleeString(x.Common()), kind: "defer"})
			}
		case *ssa.Go:
			if sigReturnsError(x.Common().Signature()) {
				out = append(out, errSource{val: nil, instr: x, what: calleeString(x.Common()), kind: "go"})
			}
		case *ssa.UnOp:
			if x.Op == token.ARROW {
				if ch, ok := x.X.Type().Underlying().(*types.Chan); ok && isErrorType(ch.Elem()) {
					var v ssa.Value = x
					if x.CommaOk {
						v = nil
						for _, r := range *x.Referrers() {
							if e, ok := r.(*ssa.Extract); ok && e.Index == 0 {
								v = e
							}
						}
					}
					out = append(out, errSource{val: v, instr: x, what: "<-" + describeValue(x.X), kind: "recv"})
				}
			}
		case *ssa.Select:
			ri := 0
			for _, st := range x.States {
				if st.Dir != types.RecvOnly {
					continue
				}
				ch, ok := st.Chan.Type().Underlying().(*types.Chan)
				idx := 2 + ri
				ri++
				if !ok || !isErrorType(ch.Elem()) {
					continue
				}
				var v ssa.Value
				for _, r := range *x.Referrers() {
					if e, ok := r.(*ssa.Extract); ok && e.Index == idx {
						v = e
					}
				}
				out = append(out, errSource{val: v, instr: x, what: "select <-" + describeValue(st.Chan), kind: "select-recv"})
			}
		}
	})
	return out
}

func firstInstr(fn *ssa.Function) ssa.Instruction { return fn.Blocks[0].Instrs[0] }

func sigReturnsError(sig *types.Signature) bool {
	r := sig.Results()
	for i := 0; i < r.Len(); i++ {
		if isErrorType(r.At(i).Type()) {
			return true
		}
	}
	return false
}

type consumption struct {
	consumed bool
	how      []string
	tests    []string
}

// consumeError classifies the uses of error value v.
func consumeError(p *Prog, v ssa.Value, seen map[ssa.Value]bool, c *consumption) {
	if v == nil || seen[v] {
		return
	}
	seen[v] = true
	refs := v.Referrers()
	if refs == nil {
		return
	}
	for _, r := range *refs {
		switch x := r.(type) {
		case *ssa.Return:
			c.consumed = true
			c.how = append(c.how, "returned")
		case *ssa.Send:
			if x.X == v {
				c.consumed = true
				c.how = append(c.how, "sent on "+describeValue(x.Chan))
			}
		case *ssa.Select:
			for _, st := range x.States {
				if st.Send == v {
					if !x.Blocking {
						c.tests = append(c.tests, "offered on "+describeValue(st.Chan)+" in a select with a default arm: silently dropped when nobody is receiving yet")
						continue
					}
					c.consumed = true
					c.how = append(c.how, "sent on "+describeValue(st.Chan)+" (select)")
				}
			}
		case *ssa.Phi:
			consumeError(p, x, seen, c)
		case *ssa.MakeInterface:
			consumeError(p, x, seen, c)
		case *ssa.ChangeInterface:
			consumeError(p, x, seen, c)
		case *ssa.ChangeType:
			consumeError(p, x, seen, c)
		case *ssa.TypeAssert:
			c.tests = append(c.tests, "type assertion")
			consumeError(p, x, seen, c)
		case *ssa.Extract:
			consumeError(p, x, seen, c)
		case *ssa.BinOp:
			c.tests = append(c.tests, "compared ("+x.Op.String()+")")
		case *ssa.Store:
			if x.Val != v {
				continue
			}
			switch a := x.Addr.(type) {
			case *ssa.Alloc:
				// local cell: follow its loads (in this function and in closures capturing it)
				followCell(p, a, seen, c)
			case *ssa.FreeVar:
				followCell(p, a, seen, c)
			default:
				if why := storedErrorOverwritten(p, x); why != "" {
					c.tests = append(c.tests, why)
					continue
				}
				c.consumed = true
				c.how = append(c.how, "stored into "+describeValue(x.Addr))
			}
		case *ssa.MapUpdate, *ssa.MakeClosure:
			c.consumed = true
			c.how = append(c.how, "stored")
		case ssa.CallInstruction:
			com := x.Common()
			name := calleeFullName(com)
			isArg := false
			for _, a := range com.Args {
				if a == v {
					isArg = true
				}
			}
			if !isArg && !(com.IsInvoke() && com.Value == v) {
				// v is the function value being called?  not for errors.
				if com.IsInvoke() && com.Value == v {
					c.tests = append(c.tests, "method "+methodName(com.Method)+" called on it")
				}
				continue
			}
			if com.IsInvoke() && com.Value == v && !isArg {
				c.tests = append(c.tests, "method "+methodName(com.Method)+" called on it")
				continue
			}
			switch {
			case name == "errors.Is" || name == "errors.As" || name == "os.IsNotExist" || name == "os.IsExist" || name == "os.IsPermission" || name == "os.IsTimeout" || name == "errors.Unwrap":
				c.tests = append(c.tests, name)
			case name == "fmt.Errorf":
				if f, ok := constString(com.Args[0]); ok && strings.Contains(f, "%w") {
					c.consumed = true
					c.how = append(c.how, "wrapped with %w")
				} else {
					c.tests = append(c.tests, "formatted without %w")
				}
			case name == "errors.Join" || name == "github.com/urfave/cli/v2.Exit" || name == "github.com/urfave/cli/v2.NewExitError":
				c.consumed = true
				c.how = append(c.how, "wrapped by "+name)
			case name == "fmt.Fprint" || name == "fmt.Fprintf" || name == "fmt.Fprintln" || name == "fmt.Print" || name == "fmt.Println" || name == "fmt.Printf" ||
				strings.HasPrefix(name, "log.") || name == "fmt.Sprint" || name == "fmt.Sprintf" || name == "fmt.Sprintln":
				c.tests = append(c.tests, "printed/formatted by "+name)
			default:
				callees := p.Callees(x)
				mod := false
				for _, f := range callees {
					if p.InModule(f) {
						mod = true
					}
				}
				switch {
				case mod:
					c.consumed = true
					c.how = append(c.how, "passed to module function "+calleeString(com))
				case com.StaticCallee() == nil && !com.IsInvoke():
					c.consumed = true
					c.how = append(c.how, "passed to callback "+describeValue(com.Value))
				case strings.HasPrefix(name, "(*golang.org/x/sync/errgroup.Group)"):
					c.consumed = true
					c.how = append(c.how, "passed to "+name)
				default:
					c.tests = append(c.tests, "passed to "+calleeString(com))
				}
			}
		}
	}
}

// followCell: the error was stored into a local variable cell; its loads continue the flow.
func followCell(p *Prog, cell ssa.Value, seen map[ssa.Value]bool, c *consumption) {
	if seen[cell] {
		return
	}
	seen[cell] = true
	var visit func(addr ssa.Value)
	visit = func(addr ssa.Value) {
		if addr.Referrers() == nil {
			return
		}
		for _, r := range *addr.Referrers() {
			switch x := r.(type) {
			case *ssa.UnOp:
				if x.Op == token.MUL {
					consumeError(p, x, seen, c)
				}
			case *ssa.MakeClosure:
				// find the FreeVar the cell binds to and follow it inside the closure
				fn := x.Fn.(*ssa.Function)
				for i, b := range x.Bindings {
					if b == addr && i < len(fn.FreeVars) {
						visit(fn.FreeVars[i])
					}
				}
			}
		}
	}
	visit(cell)
	// a captured variable written inside a closure is read by the enclosing function as well: follow the variable
	// from where it is declared
	if _, isFV := cell.(*ssa.FreeVar); isFV {
		if root := rootCell(cell); root != nil && root != cell && !seen[root] {
			seen[root] = true
			visit(root)
			cell = root
		}
	}
	// a named result cell is implicitly returned
	if a, ok := cell.(*ssa.Alloc); ok {
		fn := a.Parent()
		for _, nr := range namedResults(fn) {
			if nr == a {
				c.consumed = true
				c.how = append(c.how, "assigned to named result")
			}
		}
	}
}

func namedResults(fn *ssa.Function) []*ssa.Alloc {
	var out []*ssa.Alloc
	res := fn.Signature.Results()
	names := map[string]bool{}
	for i := 0; i < res.Len(); i++ {
		if n := res.At(i).Name(); n != "" && n != "_" {
			names[n] = true
		}
	}
	if len(names) == 0 {
		return nil
	}
	for _, b := range fn.Blocks {
		for _, in := range b.Instrs {
			if a, ok := in.(*ssa.Alloc); ok && names[a.Comment] {
				out = append(out, a)
			}
		}
	}
	return out
}

// wOnlyFiles: functions of W that do not exist in D (files constrained to tinywasm).
func wOnlyFunc(w *World, fn *ssa.Function) bool {
	pw := w.W()
	pos := fn.Pos()
	for f := fn; !pos.IsValid() && f != nil; f = f.Parent() {
		pos = f.Pos()
	}
	if !pos.IsValid() {
		return false
	}
	name := pw.Fset.Position(pos).Filename
	return !fileInD(w, name)
}

func fileInD(w *World, name string) bool {
	d := w.D()
	for _, pk := range d.ModPkgs {
		for _, f := range pk.CompiledGoFiles {
			if f == name {
				return true
			}
		}
	}
	return false
}

// progsAndFuncs enumerates (prog, fn) over D and the tinywasm-only functions of W.
func eachModFunc(w *World, f func(p *Prog, fn *ssa.Function)) {
	d := w.D()
	for _, fn := range d.ModFuncs {
		f(d, fn)
	}
	pw := w.W()
	for _, fn := range pw.ModFuncs {
		if wOnlyFunc(w, fn) {
			f(pw, fn)
		}
	}
}

func isStderrWrite(com *ssa.CallCommon) bool {
	if len(com.Args) == 0 {
		return false
	}
	a := stripConv(com.Args[0])
	if ld, ok := isLoad(a); ok {
		if g, ok := ld.(*ssa.Global); ok && g.Pkg.Pkg.Path() == "os" && g.Name() == "Stderr" {
			return true
		}
	}
	return false
}

// readOnlyFileClose: Close (deferred) on a file that comes from os.Open or os.Stdin.
func readOnlyFileClose(com *ssa.CallCommon) bool {
	subject := ssa.Value(nil)
	switch {
	case calleeFullName(com) == "(*os.File).Close" && len(com.Args) > 0:
		subject = com.Args[0]
	case com.IsInvoke() && methodName(com.Method) == "Close":
		subject = com.Value
	default:
		// a Close method of the program's own input type that does nothing but close what it wraps
		f := com.StaticCallee()
		if f == nil || f.Name() != "Close" || len(f.Blocks) == 0 || f.Signature.Recv() == nil {
			return false
		}
		var inner []*ssa.CallCommon
		allInstrs(f, func(in ssa.Instruction) {
			if ci, isCI := in.(ssa.CallInstruction); isCI {
				inner = append(inner, ci.Common())
			}
		})
		if len(inner) != 1 {
			return false
		}
		return readOnlyFileClose(inner[0])
	}
	var ok func(v ssa.Value, d int) bool
	ok = func(v ssa.Value, d int) bool {
		if d == 0 {
			return false
		}
		switch x := v.(type) {
		case *ssa.MakeInterface:
			return ok(x.X, d-1)
		case *ssa.ChangeInterface:
			return ok(x.X, d-1)
		case *ssa.Const:
			return x.Value == nil // nothing to close
		case *ssa.Extract:
			if c, isc := x.Tuple.(*ssa.Call); isc && calleeFullName(c.Common()) == "os.Open" {
				return true
			}
		case *ssa.UnOp:
			if g, isg := x.X.(*ssa.Global); isg && x.Op == token.MUL && g.Pkg.Pkg.Path() == "os" && g.Name() == "Stdin" {
				return true
			}
			if a, isa := x.X.(*ssa.Alloc); isa && x.Op == token.MUL {
				all := true
				n := 0
				for _, r := range *a.Referrers() {
					if st, iss := r.(*ssa.Store); iss && st.Addr == a {
						n++
						if !ok(st.Val, d-1) {
							all = false
						}
					}
				}
				return all && n > 0
			}
			if fa, isfa := x.X.(*ssa.FieldAddr); isfa && x.Op == token.MUL {
				// a file kept in a struct field: every store to that field (anywhere in its package) is a read-only file
				key := relTypeString(fa.X.Type()) + "." + fieldName(fa.X.Type(), fa.Field)
				n, all := 0, true
				if pkg := x.Parent().Pkg; pkg != nil {
					for _, m := range pkg.Members {
						mf, isFn := m.(*ssa.Function)
						if !isFn {
							continue
						}
						fns := append([]*ssa.Function{mf}, mf.AnonFuncs...)
						for _, f := range fns {
							allInstrs(f, func(in ssa.Instruction) {
								st, isSt := in.(*ssa.Store)
								if !isSt {
									return
								}
								sfa, isF := st.Addr.(*ssa.FieldAddr)
								if !isF || relTypeString(sfa.X.Type())+"."+fieldName(sfa.X.Type(), sfa.Field) != key {
									return
								}
								n++
								if !ok(st.Val, d-1) {
									all = false
								}
							})
						}
					}
				}
				return all && n > 0
			}
			if fv, isf := x.X.(*ssa.FreeVar); isf && x.Op == token.MUL {
				sts := cellStores(rootCell(fv))
				for _, st := range sts {
					if !ok(st.Val, d-1) {
						return false
					}
				}
				return len(sts) > 0
			}
		case *ssa.Phi:
			for _, e := range x.Edges {
				if !ok(e, d-1) {
					return false
				}
			}
			return true
		}
		if r := resolve(v); r != v {
			return ok(r, d-1) // a captured variable bound to the opened file
		}
		return false
	}
	return ok(subject, 5)
}

func err1Obligations(w *World) []Ob {
	l := &obs{rule: "ERR-1"}
	cliSet, missing := cliScopeFuncs(w.D())
	for _, m := range missing {
		l.add(Ob{Cfg: "D", Func: "cmd/gtree", Construct: "subcommand " + m, Status: Undecided, Nontrivial: true, Scope: "cli",
			Detail: "the cli.Command literal (or main) for " + m + " was not found: CLI routes cannot be enumerated"})
	}
	eachModFunc(w, func(p *Prog, fn *ssa.Function) {
		l.cfg = p.Cfg.Name
		fid := p.FuncID(fn)
		if scopeOf(p, fn) == "cli" && !cliSet[fn] {
			return // version/web subcommands and the --watch route: outside C16's quantifier
		}
		// an error handed in never comes back as nil: a function that receives an error and returns one may replace or
		// wrap it, but `return nil` belongs on the side where the parameter is nil (the parser-error mapper, whose
		// blank-line → nil row is TAB-1's business, is the one named exception)
		if fn.Parent() == nil && fn.Synthetic == "" && scopeOf(p, fn) != "cli" && fn.Signature.Results().Len() > 0 && isErrorType(fn.Signature.Results().At(fn.Signature.Results().Len()-1).Type()) {
			for _, prm := range fn.Params {
				if !isErrorType(prm.Type()) {
					continue
				}
				bad := ""
				allInstrs(fn, func(in ssa.Instruction) {
					r, isR := in.(*ssa.Return)
					if !isR || (fn.Recover != nil && r.Block() == fn.Recover) {
						return
					}
					vals := rr(r)
					if len(vals) == 0 || !isNilConst(vals[len(vals)-1]) {
						return
					}
					onNilSide := false
					for _, g := range guardsOf(r.Block()) {
						if tv, nonNil, ok := nilTest(g.Cond, g.Pol); ok && !nonNil && (tv == ssa.Value(prm) || sameVar(tv, prm)) {
							onNilSide = true
						}
						// the blank-line sentinel of the Markdown parser means "skip this row": that row of the mapping
						// is TAB-1's business wherever the mapper lives and whatever it is called
						cd, pol := flattenCond(g.Cond, g.Pol)
						if pol {
							if call, isC := cd.(*ssa.Call); isC && calleeFullName(call.Common()) == "errors.Is" && sameVar(call.Common().Args[0], prm) && globalName(call.Common().Args[1]) == "ErrBlankLine" {
								onNilSide = true
							}
							if bo, isB := cd.(*ssa.BinOp); isB && bo.Op == token.EQL {
								if (sameVar(bo.X, prm) && globalName(bo.Y) == "ErrBlankLine") || (sameVar(bo.Y, prm) && globalName(bo.X) == "ErrBlankLine") {
									onNilSide = true
								}
							}
						}
					}
					if !onNilSide {
						bad = p.InstrPos(r)
					}
				})
				ob := Ob{Func: fid, Construct: "error parameter " + prm.Name() + " never comes back as nil", Pos: p.Pos(fn.Pos()), Scope: scopeOf(p, fn), Nontrivial: true}
				if bad != "" {
					ob.Status, ob.Detail = Violation, "the return at "+bad+" hands back nil although the error handed in may be non-nil (it is only classified, e.g. with errors.Is): a failure of that class — or any error that wraps it — is reported as success"
				} else {
					ob.Status, ob.Detail = OK, "every `return nil` is on the side where the parameter is nil"
				}
				l.add(ob)
			}
		}
		counts := map[string]int{}
		for _, s := range errorSources(fn) {
			construct := s.what
			if s.kind != "call" {
				construct = s.kind + " " + s.what
			}
			counts[construct]++
			if counts[construct] > 1 {
				construct = fmt.Sprintf("%s #%d", construct, counts[construct])
			}
			pos := p.InstrPos(s.instr)
			role := ""
			if ci, ok := s.instr.(ssa.CallInstruction); ok {
				role = writerSinkRole(p, fn, ci)
			}
			ob := Ob{Func: fid, Construct: construct, Pos: pos, Scope: scopeOf(p, fn), Role: role, Nontrivial: true}
			if (s.what == "os.Stat" || s.what == "os.Lstat") && isExistencePredicate(fn) {
				ob.Status, ob.Detail, ob.Nontrivial = OK, "existence predicate: every Stat outcome other than not-exist answers 'exists', which the caller reports as the path-exists error (EFF-6 checks that branch)", false
				l.add(ob)
				continue
			}
			if reason, ok := err1Exempt[fid+" | "+s.what]; ok {
				ob.Status, ob.Detail, ob.Nontrivial = OK, "exempt (named): "+reason, false
				l.add(ob)
				continue
			}
			if ci, ok := s.instr.(ssa.CallInstruction); ok {
				switch n := calleeFullName(ci.Common()); {
				case strings.HasPrefix(n, "(*strings.Builder).Write"), strings.HasPrefix(n, "(*bytes.Buffer).Write"):
					ob.Status, ob.Detail, ob.Nontrivial = OK, "in-memory writer: documented to always return a nil error", false
					l.add(ob)
					continue
				}
				if isStderrWrite(ci.Common()) && classOfCall(p, ci) == EffWriteGiven {
					ob.Status, ob.Detail, ob.Nontrivial = OK, "diagnostic written to os.Stderr: nothing further can be reported", false
					l.add(ob)
					continue
				}
				if readOnlyFileClose(ci.Common()) {
					ob.Status, ob.Detail, ob.Nontrivial = OK, "Close of a file opened read-only (os.Open / os.Stdin): nothing written can be lost", false
					l.add(ob)
					continue
				}
			}
			if s.kind == "param" {
				// an observer (bookkeeping, logging): every caller keeps delivering the same error itself — it returns it
				if prm, isP := s.val.(*ssa.Parameter); isP && callersReturnArgument(p, fn, prm) {
					ob.Status, ob.Detail, ob.Nontrivial = OK, "the function only observes the error: at every call site the same value is also returned by the caller", false
					l.add(ob)
					continue
				}
			}
			if s.val == nil {
				ob.Status = Violation
				ob.Detail = "the error result of " + s.what + " is discarded (" + s.kind + ")"
				l.add(ob)
				continue
			}
			c := &consumption{}
			consumeError(p, s.val, map[ssa.Value]bool{}, c)
			if c.consumed {
				if why := pairedErrorUntested(s); why != "" {
					ob.Status, ob.Detail = Violation, why
					l.add(ob)
					continue
				}
			}
			if c.consumed {
				if why := errorSideReturnsNil(p, s, fn); why != "" {
					ob.Status, ob.Detail = Violation, why
					l.add(ob)
					continue
				}
			}
			if c.consumed && s.kind == "call" {
				if why := errorSkippedOnLoopRoute(p, s); why != "" {
					ob.Status, ob.Detail = Violation, why
					l.add(ob)
					continue
				}
			}
			if c.consumed && role == "sink" {
				if why := writeErrorBypassed(p, s, fn); why != "" {
					ob.Status, ob.Detail = Violation, why
					l.add(ob)
					continue
				}
			}
			switch {
			case c.consumed:
				ob.Status, ob.Detail = OK, strings.Join(dedupSorted(c.how), "; ")
			case len(c.tests) > 0 && pureSourceReplaced(p, s, fn):
				ob.Status, ob.Detail, ob.Nontrivial = OK, "the error of a pure conversion ("+s.what+") is tested and every return on its non-nil side hands back another non-nil error: the failure is still reported (no I/O error is replaced)", false
			case len(c.tests) > 0:
				ob.Status = Violation
				ob.Detail = "the error of " + s.what + " is only tested (" + strings.Join(dedupSorted(c.tests), ", ") + ") and never returned, sent, yielded or wrapped: checked but swallowed/replaced"
			default:
				ob.Status = Violation
				ob.Detail = "the error of " + s.what + " is never used"
			}
			l.add(ob)
		}
	})
	// range-over-func consumers are checked on the syntax tree as well (the loop variable must be
	// tested and returned inside the body)
	for _, o := range rangeFuncErrObligations(w) {
		l.add(o)
	}
	// an error type of the module that carries another error (a cause kept in a field) lets errors.Is / errors.As see
	// through it: a wrapper without Unwrap hides the reader's, writer's or callback's error from the caller
	{
		p := w.D()
		nTypes := 0
		for _, path := range sortedKeys(p.ModPkgs) {
			pk := p.ModPkgs[path]
			scope := pk.Types.Scope()
			for _, name := range scope.Names() {
				tn, ok := scope.Lookup(name).(*types.TypeName)
				if !ok {
					continue
				}
				named, ok := tn.Type().(*types.Named)
				if !ok {
					continue
				}
				st, ok := named.Underlying().(*types.Struct)
				if !ok {
					continue
				}
				ms := types.NewMethodSet(types.NewPointer(named))
				if ms.Lookup(pk.Types, "Error") == nil {
					continue
				}
				carries := ""
				for i := 0; i < st.NumFields(); i++ {
					if isErrorType(st.Field(i).Type()) {
						carries = st.Field(i).Name()
					}
				}
				if carries == "" {
					continue
				}
				nTypes++
				ob := Ob{Func: relTypeString(named), Construct: "an error type that carries a cause unwraps to it", Pos: p.Pos(tn.Pos()), Scope: "lib", Role: "wrap-type", Nontrivial: true}
				if strings.HasPrefix(path, modulePath+"/cmd") {
					ob.Scope = "cli"
				}
				if ms.Lookup(pk.Types, "Unwrap") != nil || ms.Lookup(pk.Types, "Is") != nil {
					ob.Status, ob.Detail = OK, "has Unwrap (or Is): errors.Is / errors.As reach the error kept in field "+carries
				} else {
					ob.Status, ob.Detail = Violation, "the type keeps an error in field "+carries+" and has an Error method but no Unwrap: an error handed back wrapped in it is no longer recognisable with errors.Is / errors.As (a reader's or writer's failure comes back as a different error)"
				}
				l.add(ob)
			}
		}
		_ = nTypes
	}
	return l.list
}

func dedupSorted(s []string) []string {
	m := map[string]bool{}
	for _, x := range s {
		m[x] = true
	}
	return sortedKeys(m)
}

func classOfCall(p *Prog, ci ssa.CallInstruction) Effect {
	if f := ci.Common().StaticCallee(); f != nil && !p.InModule(f) {
		return classifyExternal(f)
	}
	return EffPure
}

// writerSinkRole: non-empty when the call writes to a writer handed in by the caller.
func writerSinkRole(p *Prog, fn *ssa.Function, ci ssa.CallInstruction) string {
	com := ci.Common()
	if f := com.StaticCallee(); f != nil && !p.InModule(f) && classifyExternal(f) == EffWriteGiven {
		if isStderrWrite(com) {
			return ""
		}
		return "sink"
	}
	if com.StaticCallee() == nil && !com.IsInvoke() {
		// dynamic call of a func(any) error value: the encode closure of the formatted spreaders
		sig := com.Signature()
		if sig.Params().Len() == 1 && sig.Results().Len() == 1 && isErrorType(sig.Results().At(0).Type()) {
			if _, ok := sig.Params().At(0).Type().Underlying().(*types.Interface); ok {
				return "sink"
			}
		}
	}
	if com.IsInvoke() && methodName(com.Method) == "Write" && isNamed(com.Value.Type(), "io", "Writer") {
		return "sink"
	}
	return ""
}

// ownerName: receiver type of the outermost enclosing method, with type arguments stripped.
func ownerName(fn *ssa.Function) string {
	n := recvTypeName(fn)
	if n == "" {
		n = outermost(fn).Name()
	}
	if i := strings.Index(n, "["); i >= 0 {
		n = n[:i]
	}
	return n
}

func ruleERR1(w *World) []Ob { return err1Obligations(w) }

func ruleERR2(w *World) []Ob {
	var out []Ob
	for _, o := range w.run("ERR-1") {
		if o.Role == "sink" {
			o.Rule = "ERR-2"
			out = append(out, o)
		}
	}
	return out
}

// rangeFuncErrObligations: `for err := range seq { … }` over an iter.Seq[error]-like function:
// the loop variable must be tested against nil and returned in the body.
func rangeFuncErrObligations(w *World) []Ob {
	var out []Ob
	p := w.D()
	for _, path := range sortedKeys(p.ModPkgs) {
		pk := p.ModPkgs[path]
		for _, file := range pk.Syntax {
			ast.Inspect(file, func(n ast.Node) bool {
				fd, ok := n.(*ast.FuncDecl)
				if !ok || fd.Body == nil {
					return true
				}
				ast.Inspect(fd.Body, func(m ast.Node) bool {
					rs, ok := m.(*ast.RangeStmt)
					if !ok {
						return true
					}
					t := pk.TypesInfo.TypeOf(rs.X)
					if t == nil {
						return true
					}
					sig, ok := t.Underlying().(*types.Signature)
					if !ok {
						return true
					}
					_ = sig
					for _, e := range []ast.Expr{rs.Key, rs.Value} {
						id, ok := e.(*ast.Ident)
						if !ok || id.Name == "_" {
							if e != nil {
								// an error-typed position bound to _ ?
								if et := rangeFuncElemType(sig, e == rs.Value); et != nil && isErrorType(et) {
									out = append(out, Ob{Rule: "ERR-1", Cfg: "D", Func: funcDeclID(pk.Types, fd), Construct: "range-over-func error element discarded", Pos: p.Pos(rs.Pos()), Status: Violation, Nontrivial: true,
										Scope: scopeOfPath(path), Detail: "the error yielded by the iterator is bound to _"})
								}
							}
							continue
						}
						obj := pk.TypesInfo.Defs[id]
						if obj == nil || !isErrorType(obj.Type()) {
							continue
						}
						returned := false
						ast.Inspect(rs.Body, func(k ast.Node) bool {
							ret, ok := k.(*ast.ReturnStmt)
							if !ok {
								return true
							}
							for _, r := range ret.Results {
								if rid, ok := r.(*ast.Ident); ok && pk.TypesInfo.Uses[rid] == obj {
									returned = true
								}
							}
							return true
						})
						o := Ob{Rule: "ERR-1", Cfg: "D", Func: funcDeclID(pk.Types, fd), Construct: "range-over-func error element " + id.Name, Pos: p.Pos(rs.Pos()), Nontrivial: true, Scope: scopeOfPath(path)}
						if returned {
							o.Status, o.Detail = OK, "loop variable is returned from the loop body"
						} else {
							o.Status, o.Detail = Violation, "the error yielded by the iterator is never returned from the loop body"
						}
						out = append(out, o)
					}
					return true
				})
				return false
			})
		}
	}
	return out
}

func rangeFuncElemType(sig *types.Signature, second bool) types.Type {
	if sig.Params().Len() != 1 {
		return nil
	}
	y, ok := sig.Params().At(0).Type().Underlying().(*types.Signature)
	if !ok {
		return nil
	}
	i := 0
	if second {
		i = 1
	}
	if y.Params().Len() <= i {
		return nil
	}
	return y.Params().At(i).Type()
}

func scopeOfPath(path string) string {
	switch {
	case path == modulePath:
		return "lib"
	case isCLIPath(path):
		return "cli"
	}
	return strings.TrimPrefix(path, modulePath+"/")
}

func funcDeclID(pkg *types.Package, fd *ast.FuncDecl) string {
	prefix := "gtree."
	if pkg.Path() != modulePath {
		prefix = strings.TrimPrefix(pkg.Path(), modulePath+"/") + "."
	}
	if fd.Recv != nil && len(fd.Recv.List) == 1 {
		t := fd.Recv.List[0].Type
		star := ""
		if s, ok := t.(*ast.StarExpr); ok {
			t = s.X
			star = "*"
		}
		if ix, ok := t.(*ast.IndexExpr); ok {
			t = ix.X
		}
		if id, ok := t.(*ast.Ident); ok {
			return "(" + star + strings.TrimSuffix(prefix, ".") + "." + id.Name + ")." + fd.Name.Name
		}
	}
	return prefix + fd.Name.Name
}

// ---------------------------------------------------------------------------------------------
// ERR-3

func ruleERR3(w *World) []Ob {
	l := &obs{rule: "ERR-3"}
	eachModFunc(w, func(p *Prog, fn *ssa.Function) {
		l.cfg = p.Cfg.Name
		fid := p.FuncID(fn)
		// scan calls in this function, grouped by scanner key
		type scanSite struct {
			call *ssa.Call
			key  string
		}
		var scans []scanSite
		errCalls := map[string][]*ssa.Call{}
		allInstrs(fn, func(in ssa.Instruction) {
			c, ok := in.(*ssa.Call)
			if !ok {
				return
			}
			switch calleeFullName(c.Common()) {
			case "(*bufio.Scanner).Scan":
				scans = append(scans, scanSite{c, valueKey(c.Common().Args[0])})
			case "(*bufio.Scanner).Err":
				k := valueKey(c.Common().Args[0])
				errCalls[k] = append(errCalls[k], c)
			}
		})
		for _, s := range scans {
			construct := "Scan loop on " + describeValue(s.call.Common().Args[0])
			pos := p.InstrPos(s.call)
			// the loop exit: the If on the Scan result; its false successor
			var exit *ssa.BasicBlock
			for _, r := range *s.call.Referrers() {
				if iff, ok := r.(*ssa.If); ok {
					exit = iff.Block().Succs[1]
				}
			}
			if exit == nil {
				l.undecided(fid, construct, pos, "Scan() result does not feed a branch directly; loop shape not recognised", "scan")
				continue
			}
			// every path from exit must pass an Err() call on the same scanner before a Return or re-entering the scan block
			errBlocks := map[*ssa.BasicBlock]bool{}
			for _, e := range errCalls[s.key] {
				errBlocks[e.Block()] = true
			}
			bad := ""
			seen := map[*ssa.BasicBlock]bool{}
			var walk func(b *ssa.BasicBlock)
			walk = func(b *ssa.BasicBlock) {
				if seen[b] || bad != "" {
					return
				}
				seen[b] = true
				if errBlocks[b] {
					return
				}
				if b == s.call.Block() {
					bad = "control returns to the Scan call without Err() having been called"
					return
				}
				for _, in := range b.Instrs {
					if _, ok := in.(*ssa.Return); ok {
						bad = "a return at " + p.InstrPos(in) + " is reachable from the loop exit without calling Err() on the scanner"
						return
					}
				}
				for _, su := range b.Succs {
					walk(su)
				}
			}
			walk(exit)
			if bad != "" {
				l.bad(fid, construct, pos, bad, "scan")
			} else {
				l.ok(fid, construct, pos, fmt.Sprintf("Err() on the same scanner is called on every path from the loop exit (%d Err site(s)); its value is an ERR-1 obligation", len(errCalls[s.key])), true, "scan")
			}
		}
	})
	return l.list
}

// ---------------------------------------------------------------------------------------------
// ERR-4

func ruleERR4(w *World) []Ob {
	l := &obs{rule: "ERR-4"}
	p := w.D()
	l.cfg = "D"
	for _, fn := range p.ModFuncs {
		if scopeOf(p, fn) != "lib" {
			continue
		}
		fid := p.FuncID(fn)
		// callback parameters: func(*WalkerNode) error
		var cbs []ssa.Value
		for _, prm := range fn.Params {
			if isWalkCallback(prm.Type()) {
				cbs = append(cbs, prm)
			}
		}
		for _, fv := range fn.FreeVars {
			if isWalkCallback(fv.Type()) {
				cbs = append(cbs, fv)
			}
		}
		// the callback spilled into a cell because a range-over-func body (a synthetic closure) captures it
		var cbCells []ssa.Value
		for _, fv := range fn.FreeVars {
			// (ordinary function literals that capture the callback are not examined here: their error travels
			// through a captured variable and a bool result, which PAIR-7 and ERR-1 look at)
			if pt, ok := fv.Type().(*types.Pointer); ok && isWalkCallback(pt.Elem()) && fn.Synthetic == "range-over-func yield" {
				cbCells = append(cbCells, fv)
			}
		}
		allInstrs(fn, func(in ssa.Instruction) {
			if st, ok := in.(*ssa.Store); ok {
				for _, c := range cbs {
					if st.Val == c {
						if al, isAl := st.Addr.(*ssa.Alloc); isAl {
							cbCells = append(cbCells, al)
						}
					}
				}
			}
		})
		if len(cbs) == 0 && len(cbCells) == 0 {
			continue
		}
		isCB := func(v ssa.Value) bool {
			for _, c := range cbs {
				if c == v {
					return true
				}
			}
			if u, ok := v.(*ssa.UnOp); ok && u.Op == token.MUL {
				for _, c := range cbCells {
					if u.X == c {
						return true
					}
				}
			}
			return false
		}
		// calls that invoke the callback directly or pass it on to a module function returning error
		allInstrs(fn, func(in ssa.Instruction) {
			c, ok := in.(*ssa.Call)
			if !ok {
				return
			}
			com := c.Common()
			direct := isCB(com.Value)
			passes := false
			for _, a := range com.Args {
				if isCB(a) {
					passes = true
				}
			}
			if !direct && !passes {
				return
			}
			if !isErrorType(c.Type()) {
				return // e.g. a stage that returns a channel; its errors are ERR-1 obligations of the worker
			}
			construct := "callback error from " + calleeString(com)
			pos := p.InstrPos(c)
			// the value must be returned itself from a block guarded by err != nil, and from that
			// branch no call involving the callback may be reachable
			var guardSucc *ssa.BasicBlock
			returnedSame := false
			var storedCell ssa.Value
			for _, r := range *c.Referrers() {
				switch x := r.(type) {
				case *ssa.Store:
					if _, isFV := x.Addr.(*ssa.FreeVar); isFV && x.Val == ssa.Value(c) && fn.Synthetic == "range-over-func yield" {
						storedCell = x.Addr
					}
				case *ssa.Return:
					returnedSame = true
					_ = x
				case *ssa.BinOp:
					for _, rr := range *x.Referrers() {
						if iff, ok := rr.(*ssa.If); ok {
							_, nonNil, ok := nilTest(x, true)
							if ok {
								if nonNil {
									guardSucc = iff.Block().Succs[0]
								} else {
									guardSucc = iff.Block().Succs[1]
								}
							}
						}
					}
				case *ssa.Send:
					returnedSame = true // handed to the stage's error channel (pipeline worker)
				case *ssa.Select:
					for _, st := range x.States {
						if st.Send == ssa.Value(c) {
							returnedSame = true
						}
					}
				case ssa.CallInstruction:
					// passed to sendErr-like module helper
					for _, f := range p.ModCallees(x) {
						_ = f
						returnedSame = true
					}
				}
			}
			if storedCell != nil && guardSucc == nil {
				// loop body of a range-over-func loop: the error goes into the enclosing function's variable and is
				// tested through a load of it; what happens after the body returns is decided in the enclosing function
				for _, in3 := range c.Block().Instrs {
					u, ok := in3.(*ssa.UnOp)
					if !ok || u.Op != token.MUL || u.X != storedCell || u.Referrers() == nil {
						continue
					}
					for _, r := range *u.Referrers() {
						if bo, ok := r.(*ssa.BinOp); ok && bo.Referrers() != nil {
							for _, rr := range *bo.Referrers() {
								if iff, ok := rr.(*ssa.If); ok {
									if _, nonNil, ok := nilTest(bo, true); ok {
										if nonNil {
											guardSucc = iff.Block().Succs[0]
										} else {
											guardSucc = iff.Block().Succs[1]
										}
									}
								}
							}
						}
					}
				}
				if guardSucc != nil {
					if again := rangeBodyErrorContinuation(p, fn, guardSucc); again != "" {
						l.bad(fid, construct, pos, "after the callback failed inside a range-over-func loop body, "+again, "callback")
						return
					}
					returnedSame = true
				}
			}
			if !returnedSame {
				l.bad(fid, construct, pos, "the callback's error is not returned (or handed over) as the same value", "callback")
				return
			}
			if guardSucc == nil {
				// `return callback(x)` style: fine, nothing can follow
				if _, isRet := (*c.Referrers())[0].(*ssa.Return); isRet && len(*c.Referrers()) == 1 {
					l.ok(fid, construct, pos, "returned directly", true, "callback")
					return
				}
				l.undecided(fid, construct, pos, "no `err != nil` branch found for the callback's error", "callback")
				return
			}
			// from guardSucc, no call that involves the callback may be reachable
			reach := blockReach(guardSucc, nil)
			again := ""
			for b := range reach {
				for _, in2 := range b.Instrs {
					c2, ok := in2.(ssa.CallInstruction)
					if !ok {
						continue
					}
					com2 := c2.Common()
					inv := isCB(com2.Value)
					for _, a := range com2.Args {
						if isCB(a) {
							inv = true
						}
					}
					if inv {
						again = p.InstrPos(in2)
					}
				}
			}
			if again != "" {
				l.bad(fid, construct, pos, "after the callback failed, another callback invocation is reachable at "+again, "callback")
				return
			}
			l.ok(fid, construct, pos, "error branch returns/hands over the same value; no callback call reachable after it", true, "callback")
		})
	}
	return l.list
}

// rangeBodyErrorContinuation: body is the synthetic closure of a range-over-func loop and errSucc the block its
// callback-error branch enters.  That branch leaves the loop by storing a constant into the loop's jump cell and
// returning false; the enclosing function dispatches on that constant right after the iterator call.  Follows the
// dispatch with the stored constant and reports a callback invocation (a call through the callback, a call that is
// handed it, or the loop body being entered again) reachable from where the enclosing function continues; "" if none.
func rangeBodyErrorContinuation(p *Prog, body *ssa.Function, errSucc *ssa.BasicBlock) string {
	parent := body.Parent()
	if parent == nil {
		return "the enclosing function cannot be found (undecided)"
	}
	// the constant stored into the jump cell on the error branch
	var jumpIdx = -1
	var k *ssa.Const
	for b := range blockReach(errSucc, nil) {
		for _, in := range b.Instrs {
			if st, ok := in.(*ssa.Store); ok {
				if fv, isFV := st.Addr.(*ssa.FreeVar); isFV && strings.HasPrefix(fv.Name(), "jump$") {
					if c, isC := st.Val.(*ssa.Const); isC {
						for i, f := range body.FreeVars {
							if f == fv {
								jumpIdx = i
							}
						}
						k = c
					}
				}
			}
		}
	}
	if k == nil || jumpIdx < 0 {
		return "the way the loop is left cannot be determined (undecided)"
	}
	cbCell := map[ssa.Value]bool{}
	out := ""
	allInstrs(parent, func(in ssa.Instruction) {
		mc, ok := in.(*ssa.MakeClosure)
		if !ok || mc.Fn != ssa.Value(body) || out != "" || mc.Referrers() == nil {
			return
		}
		for i, fv := range body.FreeVars {
			if pt, ok := fv.Type().(*types.Pointer); ok && isWalkCallback(pt.Elem()) && i < len(mc.Bindings) {
				cbCell[mc.Bindings[i]] = true
			}
		}
		jumpCell := mc.Bindings[jumpIdx]
		for _, r := range *mc.Referrers() {
			call, ok := r.(*ssa.Call)
			if !ok {
				continue
			}
			// follow the dispatch on the jump cell with the known constant
			cur := call.Block()
			for steps := 0; steps < 16; steps++ {
				if len(cur.Instrs) == 0 {
					break
				}
				iff, isIf := cur.Instrs[len(cur.Instrs)-1].(*ssa.If)
				if !isIf {
					break
				}
				bo, isB := iff.Cond.(*ssa.BinOp)
				if !isB || bo.Op != token.EQL {
					break
				}
				ld, isL := bo.X.(*ssa.UnOp)
				cst, isC := bo.Y.(*ssa.Const)
				if !isL || !isC || ld.X != jumpCell {
					break
				}
				if cst.Int64() == k.Int64() {
					cur = cur.Succs[0]
					break
				}
				cur = cur.Succs[1]
			}
			for b := range blockReach(cur, nil) {
				for _, in2 := range b.Instrs {
					switch x := in2.(type) {
					case *ssa.MakeClosure:
						if x.Fn == ssa.Value(body) {
							out = "the enclosing function goes on and enters the loop body again at " + p.InstrPos(x) + ": the walk does not stop at the first failing callback and a later result replaces the error"
						}
					case ssa.CallInstruction:
						com := x.Common()
						vals := append([]ssa.Value{com.Value}, com.Args...)
						for _, v := range vals {
							if u, ok := v.(*ssa.UnOp); ok && u.Op == token.MUL && cbCell[u.X] {
								out = "another callback invocation is reachable at " + p.InstrPos(in2)
							}
							for _, prm := range parent.Params {
								if v == ssa.Value(prm) && isWalkCallback(prm.Type()) {
									out = "another callback invocation is reachable at " + p.InstrPos(in2)
								}
							}
						}
					}
				}
			}
		}
	})
	return out
}

func isWalkCallback(t types.Type) bool {
	sig, ok := t.Underlying().(*types.Signature)
	if !ok || sig.Params().Len() != 1 || sig.Results().Len() != 1 {
		return false
	}
	if !isErrorType(sig.Results().At(0).Type()) {
		return false
	}
	p, ok := sig.Params().At(0).Type().(*types.Pointer)
	return ok && isNamed(p.Elem(), modulePath, "WalkerNode")
}


// pairedErrorUntested: an error that arrives together with another result (v, err := f(); next())
// must itself be compared with nil, or be handed on under exactly the conditions it was produced
// under; handing it on only when the *other* result looks wrong lets (value, error) pairs through.
func pairedErrorUntested(s errSource) string {
	ex, ok := s.val.(*ssa.Extract)
	if !ok {
		return ""
	}
	// other results of the tuple that are used at all
	others := false
	if tup := ex.Tuple; tup.Referrers() != nil {
		for _, r := range *tup.Referrers() {
			if e2, ok := r.(*ssa.Extract); ok && e2 != ex && e2.Referrers() != nil && len(*e2.Referrers()) > 0 {
				if b, isB := e2.Type().Underlying().(*types.Basic); isB && b.Kind() == types.Bool {
					continue // the ok flag of a receive / Pull2
				}
				others = true
			}
		}
	}
	if !others {
		return ""
	}
	prodGuards := len(guardsOf(ex.Block()))
	for _, r := range *ex.Referrers() {
		switch x := r.(type) {
		case *ssa.BinOp:
			if _, _, ok := nilTest(x, true); ok {
				return ""
			}
		case *ssa.Return, *ssa.Send:
			if len(guardsOf(r.Block())) == prodGuards {
				return ""
			}
		case ssa.CallInstruction:
			if len(guardsOf(r.Block())) == prodGuards {
				return ""
			}
			_ = x
		case *ssa.Phi, *ssa.Store, *ssa.MakeInterface:
			return "" // flows on; judged where it is finally used
		}
	}
	return "the error of " + s.what + " is never compared with nil; it is only passed on under conditions on the accompanying value, so a (value, non-nil error) pair is treated as success"
}

// errorSideReturnsNil: on the side where the error of a source is known to be non-nil, a return of the enclosing
// function hands back an error value that is not provably non-nil and is not that error: the failure can turn into
// success on that path (`if errors.Is(err, X) { return ctx.Err() }`).  Explicit `return nil` is the documented way to
// ignore a sentinel and is judged by the rules that know the sentinel (TAB-1), so constants are not reported here.
func errorSideReturnsNil(p *Prog, s errSource, fn *ssa.Function) string {
	if s.val == nil || fn.Signature.Results().Len() == 0 {
		return ""
	}
	res := fn.Signature.Results()
	if !isErrorType(res.At(res.Len() - 1).Type()) {
		return ""
	}
	nc := newNilCtxCached(p)
	why := ""
	allInstrs(fn, func(in ssa.Instruction) {
		r, ok := in.(*ssa.Return)
		if !ok || why != "" {
			return
		}
		vals := rr(r)
		if len(vals) == 0 {
			return
		}
		ev := vals[len(vals)-1]
		known := guardedNonNil(s.val, r)
		if !known {
			// errors.Is(e, X) / errors.As(e, &t) holding implies e != nil
			for _, g := range guardsOf(r.Block()) {
				c, pol := flattenCond(g.Cond, g.Pol)
				if call, ok := c.(*ssa.Call); ok && pol {
					switch calleeFullName(call.Common()) {
					case "errors.Is", "errors.As":
						if sameValueAt(call.Common().Args[0], g, s.val, r) {
							known = true
						}
					}
				}
			}
		}
		if !known {
			return
		}
		if _, isConst := ev.(*ssa.Const); isConst {
			return
		}
		if sameVar(ev, s.val) || ev == s.val || nc.nonNil(ev, r, 0) {
			return
		}
		// a value computed from the error (wrapping) counts as that error
		if dependsOnValue(ev, s.val, 0) {
			return
		}
		why = "where the error of " + s.what + " is known to be non-nil, the return at " + p.InstrPos(r) + " hands back " + describeValue(ev) + ", which may be nil: the failure is reported as success on that path"
	})
	return why
}

// writeErrorBypassed: the error of a write is returned on some routes but a `return nil` can be reached from the write
// on a route that never tested it (e.g. the error is looked at only when the byte count is short): a writer that
// reports (len(p), err) — legal for io.Writer — then has its failure turned into success.
func writeErrorBypassed(p *Prog, s errSource, fn *ssa.Function) string {
	if s.val == nil || fn.Signature.Results().Len() == 0 {
		return ""
	}
	res := fn.Signature.Results()
	if !isErrorType(res.At(res.Len() - 1).Type()) {
		return ""
	}
	start := s.instr.Block()
	safeEdge := func(from *ssa.BasicBlock, k int) bool {
		if len(from.Instrs) == 0 || len(from.Succs) != 2 {
			return false
		}
		ifi, ok := from.Instrs[len(from.Instrs)-1].(*ssa.If)
		if !ok {
			return false
		}
		tv, nonNil, ok := nilTest(ifi.Cond, k == 0)
		return ok && !nonNil && (tv == s.val || sameVar(tv, s.val))
	}
	why := ""
	seen := map[*ssa.BasicBlock]bool{}
	var walk func(b *ssa.BasicBlock, first bool)
	walk = func(b *ssa.BasicBlock, first bool) {
		if why != "" || (seen[b] && !first) {
			return
		}
		seen[b] = true
		if len(b.Instrs) > 0 {
			if r, isR := b.Instrs[len(b.Instrs)-1].(*ssa.Return); isR {
				vals := rr(r)
				if len(vals) > 0 && isNilConst(vals[len(vals)-1]) {
					why = "the return at " + p.InstrPos(r) + " hands back nil on a route from " + s.what + " that never compared its error with nil: a writer that reports an error together with a full byte count (allowed by io.Writer) has its failure reported as success"
				}
				return
			}
		}
		for k, s2 := range b.Succs {
			if !safeEdge(b, k) {
				walk(s2, false)
			}
		}
	}
	walk(start, true)
	return why
}

var nilCtxCache = map[*Prog]*nilCtx{}

func newNilCtxCached(p *Prog) *nilCtx {
	if c, ok := nilCtxCache[p]; ok {
		return c
	}
	c := newNilCtx(p)
	nilCtxCache[p] = c
	return c
}

// storedErrorOverwritten: the error is parked in a field of an object handed in by the caller, the store does not
// first look whether an earlier error is still parked there, and a caller invokes the storing function several times
// on the same object without reading the field in between: only the last call's error survives.
func storedErrorOverwritten(p *Prog, st *ssa.Store) string {
	fa, ok := st.Addr.(*ssa.FieldAddr)
	if !ok {
		return ""
	}
	fn := st.Parent()
	prm, ok := resolve(fa.X).(*ssa.Parameter)
	if !ok || prm.Parent() != fn {
		return ""
	}
	field := fieldName(fa.X.Type(), fa.Field)
	// sticky: the store is guarded by a test of the same field
	for _, g := range guardsOf(st.Block()) {
		if tv, _, isNil := nilTest(g.Cond, g.Pol); isNil {
			if ld, isL := isLoad(stripConv(tv)); isL {
				if gfa, ok := ld.(*ssa.FieldAddr); ok && gfa.Field == fa.Field && sameVar(gfa.X, fa.X) {
					return ""
				}
			}
		}
	}
	pi := paramIndex(fn, prm)
	byCaller := map[*ssa.Function][]ssa.CallInstruction{}
	for _, ci := range p.Callers(fn) {
		byCaller[ci.Parent()] = append(byCaller[ci.Parent()], ci)
	}
	for caller, sites := range byCaller {
		if len(sites) < 2 {
			// one site in a loop counts as several
			if len(sites) == 1 && inLoop(sites[0]) {
				sites = append(sites, sites[0])
			} else {
				continue
			}
		}
		for i, a := range sites {
			for j, b := range sites {
				if i == j && !inLoop(a) {
					continue
				}
				args1, args2 := callArgs(a.Common()), callArgs(b.Common())
				if pi >= len(args1) || pi >= len(args2) || !sameObject(args1[pi], args2[pi]) {
					continue
				}
				if a != b && !reachableAfter(a, b) {
					continue
				}
				// is the field read between the two calls?
				read := false
				allInstrs(caller, func(in ssa.Instruction) {
					u, ok := in.(*ssa.UnOp)
					if !ok || u.Op != token.MUL {
						return
					}
					if lfa, ok := u.X.(*ssa.FieldAddr); ok && lfa.Field == fa.Field && sameObject(lfa.X, args1[pi]) {
						if reachableAfter(a, u) && reachableAfter(u, b) && u.Block() != b.Block() || (u.Block() == a.Block() && u.Block() == b.Block() && instrIndex(a) < instrIndex(u) && instrIndex(u) < instrIndex(b)) {
							read = true
						}
					}
				})
				if !read {
					return "parked in field " + field + " by " + fname(fn) + ", which " + p.FuncID(caller) + " calls again on the same object (" + p.InstrPos(b) + ") before looking at the field: an earlier failure is overwritten by a later success"
				}
			}
		}
	}
	return ""
}

// sameObject: two values denote the same object (same variable, or the address of the same local).
func sameObject(a, b ssa.Value) bool {
	if a == b || sameVar(a, b) {
		return true
	}
	return stripConv(a) == stripConv(b)
}

// pureSourceReplaced: the source is an effect-free library function outside the module (strconv, time parsing, …) and
// wherever its error is known non-nil the enclosing function returns a provably non-nil error.
func pureSourceReplaced(p *Prog, s errSource, fn *ssa.Function) bool {
	ci, ok := s.instr.(*ssa.Call)
	if !ok || s.val == nil {
		return false
	}
	callee := ci.Common().StaticCallee()
	if callee == nil || p.InModule(callee) || classifyExternal(callee) != EffPure {
		return false
	}
	switch p.PkgPath(callee) {
	case "strconv", "time", "net/url", "unicode/utf8", "encoding/hex", "encoding/base64", "math/big":
	default:
		return false
	}
	res := fn.Signature.Results()
	if res.Len() == 0 || !isErrorType(res.At(res.Len()-1).Type()) {
		return false
	}
	nc := newNilCtxCached(p)
	// the blocks on the error's non-nil side
	okAll, n := true, 0
	for _, r := range *s.val.Referrers() {
		b, isB := r.(*ssa.BinOp)
		if !isB {
			continue
		}
		_, nonNil, isNil := nilTest(b, true)
		if !isNil {
			continue
		}
		for _, r2 := range *b.Referrers() {
			var side *ssa.BasicBlock
			switch x := r2.(type) {
			case *ssa.If:
				if nonNil {
					side = x.Block().Succs[0]
				} else {
					side = x.Block().Succs[1]
				}
			default:
				continue
			}
			for blk := range blockReach(side, map[*ssa.BasicBlock]bool{}) {
				if !side.Dominates(blk) {
					continue
				}
				if ret, isRet := blk.Instrs[len(blk.Instrs)-1].(*ssa.Return); isRet {
					n++
					vals := rr(ret)
					if !nc.nonNil(vals[len(vals)-1], ret, 0) {
						okAll = false
					}
				}
			}
		}
	}
	return okAll && n > 0
}


// callersReturnArgument: fn has callers, all of them plain calls, and at each the argument bound to prm is a value
// that the caller also returns (as one of the results of a return the call dominates).
func callersReturnArgument(p *Prog, fn *ssa.Function, prm *ssa.Parameter) bool {
	idx := paramIndex(fn, prm)
	callers := p.Callers(fn)
	if idx < 0 || len(callers) == 0 {
		return false
	}
	for _, ci := range callers {
		c, ok := ci.(*ssa.Call)
		if !ok || c.Common().IsInvoke() || idx >= len(c.Common().Args) {
			return false
		}
		arg := c.Common().Args[idx]
		returned := false
		allInstrs(c.Parent(), func(in ssa.Instruction) {
			r, isR := in.(*ssa.Return)
			if !isR || !(c.Block() == r.Block() || c.Block().Dominates(r.Block())) {
				return
			}
			for _, v := range rr(r) {
				if v == arg {
					returned = true
				}
			}
		})
		if !returned {
			return false
		}
	}
	return true
}


// errorSkippedOnLoopRoute: the call of a module function that yields a value together with an error sits in a loop,
// and the loop can go round to the call again — the next iteration overwrites the error — on a route that never
// looked at the error (typically `if v == nil { continue }` placed before `if err != nil`): what the callee reported
// for that item is lost and the item silently skipped.
func errorSkippedOnLoopRoute(p *Prog, s errSource) string {
	ex, isEx := s.val.(*ssa.Extract)
	if !isEx {
		return ""
	}
	call, isCall := ex.Tuple.(*ssa.Call)
	if !isCall || call.Common().StaticCallee() == nil || !p.InModule(call.Common().StaticCallee()) {
		return ""
	}
	start := call.Block()
	looked := func(b *ssa.BasicBlock) bool {
		// the block ends in a test that involves the error, or uses the error in any other way
		for _, in := range b.Instrs {
			if in == ssa.Instruction(call) || in == ssa.Instruction(ex) {
				continue
			}
			for _, op := range in.Operands(nil) {
				if op != nil && *op != nil && (*op == s.val) {
					if _, isDbg := in.(*ssa.DebugRef); !isDbg {
						return true
					}
				}
			}
		}
		return false
	}
	// the error test may be spelled through a comparison instruction in one block and the If in the same block;
	// `looked` covers both because the BinOp has the error as operand
	if looked(start) {
		return ""
	}
	seen := map[*ssa.BasicBlock]bool{}
	why := ""
	var walk func(b *ssa.BasicBlock)
	walk = func(b *ssa.BasicBlock) {
		if why != "" {
			return
		}
		for _, s2 := range b.Succs {
			if s2 == start {
				pos := ""
				if len(b.Instrs) > 0 {
					pos = p.InstrPos(b.Instrs[len(b.Instrs)-1])
				}
				why = "the loop goes round to " + s.what + " again (from " + pos + ") on a route that never looked at the error of the previous call: the failure reported for that item is dropped and the item skipped silently"
				return
			}
			if seen[s2] || looked(s2) {
				continue
			}
			seen[s2] = true
			walk(s2)
		}
	}
	walk(start)
	return why
}
