package main

// Role-based discovery of the CLI's subcommands: the cli.Command composite literals in package
// main give, per command name, the Action and Before functions and the flag names.

import (
	"go/ast"
	"go/constant"
	"go/types"
	"sort"
	"strings"

	"golang.org/x/tools/go/ssa"
)

type cliCommand struct {
	Name   string
	Action *ssa.Function
	Before *ssa.Function
	Flags  []string
	Pos    string
}

const cliPkgPath = modulePath + "/cmd/gtree"

func cliCommands(p *Prog) map[string]*cliCommand {
	out := map[string]*cliCommand{}
	pk := p.ModPkgs[cliPkgPath]
	if pk == nil {
		return out
	}
	bySyntax := map[ast.Node]*ssa.Function{}
	for _, fn := range p.ModFuncs {
		if s := fn.Syntax(); s != nil {
			bySyntax[s] = fn
			if fd, ok := s.(*ast.FuncDecl); ok {
				bySyntax[fd] = fn
			}
		}
	}
	resolveFn := func(e ast.Expr) *ssa.Function {
		switch x := e.(type) {
		case *ast.Ident:
			if obj, ok := pk.TypesInfo.Uses[x].(*types.Func); ok {
				return p.SSA.FuncValue(obj)
			}
		case *ast.FuncLit:
			return bySyntax[x]
		}
		return nil
	}
	// flag slices: variable name -> flag names (from &cli.XFlag{Name: "..."} literals)
	flagVars := map[types.Object][]string{}
	flagNames := func(e ast.Expr) []string {
		var names []string
		ast.Inspect(e, func(n ast.Node) bool {
			cl, ok := n.(*ast.CompositeLit)
			if !ok {
				return true
			}
			t := pk.TypesInfo.TypeOf(cl)
			if t == nil {
				return true
			}
			if nm := namedOf(t); nm != nil && nm.Obj().Pkg() != nil && nm.Obj().Pkg().Path() == "github.com/urfave/cli/v2" && len(nm.Obj().Name()) > 4 && nm.Obj().Name()[len(nm.Obj().Name())-4:] == "Flag" {
				for _, el := range cl.Elts {
					kv, ok := el.(*ast.KeyValueExpr)
					if !ok {
						continue
					}
					if k, ok := kv.Key.(*ast.Ident); ok && k.Name == "Name" {
						if tv, ok := pk.TypesInfo.Types[kv.Value]; ok && tv.Value != nil && tv.Value.Kind() == constant.String {
							names = append(names, constant.StringVal(tv.Value))
						}
					}
				}
			}
			return true
		})
		return names
	}
	for _, file := range pk.Syntax {
		ast.Inspect(file, func(n ast.Node) bool {
			as, ok := n.(*ast.AssignStmt)
			if !ok || len(as.Lhs) != 1 || len(as.Rhs) != 1 {
				return true
			}
			id, ok := as.Lhs[0].(*ast.Ident)
			if !ok {
				return true
			}
			obj := pk.TypesInfo.Defs[id]
			if obj == nil {
				return true
			}
			if names := flagNames(as.Rhs[0]); len(names) > 0 {
				flagVars[obj] = names
			}
			return true
		})
	}
	var flagsOf func(e ast.Expr) []string
	flagsOf = func(e ast.Expr) []string {
		switch x := e.(type) {
		case *ast.Ident:
			return flagVars[pk.TypesInfo.Uses[x]]
		case *ast.CallExpr: // append(a, b...)
			var out []string
			for _, a := range x.Args {
				out = append(out, flagsOf(a)...)
			}
			return out
		case *ast.CompositeLit:
			return flagNames(x)
		}
		return nil
	}
	for _, file := range pk.Syntax {
		ast.Inspect(file, func(n ast.Node) bool {
			cl, ok := n.(*ast.CompositeLit)
			if !ok {
				return true
			}
			t := pk.TypesInfo.TypeOf(cl)
			if t == nil || !isNamed(t, "github.com/urfave/cli/v2", "Command") {
				// element literals of []*cli.Command have elided types; TypeOf still reports *Command or Command
				if t == nil {
					return true
				}
				if pt, ok := t.(*types.Pointer); !ok || !isNamed(pt.Elem(), "github.com/urfave/cli/v2", "Command") {
					return true
				}
			}
			c := &cliCommand{Pos: p.Pos(cl.Pos())}
			for _, el := range cl.Elts {
				kv, ok := el.(*ast.KeyValueExpr)
				if !ok {
					continue
				}
				k, ok := kv.Key.(*ast.Ident)
				if !ok {
					continue
				}
				switch k.Name {
				case "Name":
					if tv, ok := pk.TypesInfo.Types[kv.Value]; ok && tv.Value != nil {
						c.Name = constant.StringVal(tv.Value)
					}
				case "Action":
					c.Action = resolveFn(kv.Value)
				case "Before":
					c.Before = resolveFn(kv.Value)
				case "Flags":
					c.Flags = flagsOf(kv.Value)
					sort.Strings(c.Flags)
				}
			}
			if c.Name != "" {
				out[c.Name] = c
			}
			return true
		})
	}
	return out
}

// reachableFrom computes module functions reachable from the roots through module calls and
// through function values created in reachable functions (closures, method values).
func reachableFrom(p *Prog, roots []*ssa.Function, stop func(*ssa.Function) bool) map[*ssa.Function]bool {
	seen := map[*ssa.Function]bool{}
	var walk func(fn *ssa.Function)
	walk = func(fn *ssa.Function) {
		if fn != nil && !seen[fn] && fn.Blocks != nil && (strings.HasSuffix(fn.Name(), "$bound") || strings.HasSuffix(fn.Name(), "$thunk")) {
			// a method value / method expression: the synthetic wrapper stands for the method it calls
			seen[fn] = true
			for _, b := range fn.Blocks {
				for _, in := range b.Instrs {
					if c, ok := in.(ssa.CallInstruction); ok {
						for _, g := range p.ModCallees(c) {
							walk(g)
						}
					}
				}
			}
			delete(seen, fn)
			return
		}
		if fn == nil || seen[fn] || !p.InModule(fn) || fn.Blocks == nil {
			return
		}
		if stop != nil && stop(fn) {
			return
		}
		seen[fn] = true
		for _, b := range fn.Blocks {
			for _, in := range b.Instrs {
				if c, ok := in.(ssa.CallInstruction); ok {
					for _, g := range p.ModCallees(c) {
						walk(g)
					}
				}
				// function values that escape as operands
				for _, op := range in.Operands(nil) {
					if op == nil || *op == nil {
						continue
					}
					switch v := (*op).(type) {
					case *ssa.Function:
						walk(v)
					case *ssa.MakeClosure:
						walk(v.Fn.(*ssa.Function))
					}
				}
			}
		}
	}
	for _, r := range roots {
		walk(r)
	}
	return seen
}

// cliScopeFuncs: functions of package main on the routes C16 quantifies over (output, mkdir,
// verify, template — without --watch), plus main's own body.
func cliScopeFuncs(p *Prog) (map[*ssa.Function]bool, []string) {
	cmds := cliCommands(p)
	var roots []*ssa.Function
	var missing []string
	for _, name := range []string{"output", "mkdir", "verify", "template"} {
		c := cmds[name]
		if c == nil || c.Action == nil {
			missing = append(missing, name)
			continue
		}
		roots = append(roots, c.Action)
		if c.Before != nil {
			roots = append(roots, c.Before)
		}
	}
	watch := watchRouteFuncs(p)
	set := reachableFrom(p, roots, func(fn *ssa.Function) bool { return watch[outermost(fn)] })
	if m := p.Func("cmd/gtree.main"); m != nil {
		set[m] = true
	} else {
		missing = append(missing, "main")
	}
	return set, missing
}

// watchRouteFuncs: functions of package main that loop on a time.Ticker (the --watch mode).
func watchRouteFuncs(p *Prog) map[*ssa.Function]bool {
	out := map[*ssa.Function]bool{}
	for _, fn := range p.ModFuncs {
		if p.PkgPath(fn) != cliPkgPath {
			continue
		}
		allInstrs(fn, func(in ssa.Instruction) {
			if c, ok := in.(*ssa.Call); ok && calleeFullName(c.Common()) == "time.NewTicker" {
				out[outermost(fn)] = true
			}
		})
	}
	return out
}
