package main

// Shared SSA helpers: callee naming, guards (dominating branches), cell
// identity for re-loaded variables/fields, nil-ness proofs, reachability.

import (
	"fmt"
	"go/constant"
	"go/token"
	"go/types"
	"sort"
	"strings"

	"golang.org/x/tools/go/ssa"
)

var errorType = types.Universe.Lookup("error").Type()

func isErrorType(t types.Type) bool { return t != nil && types.Identical(t, errorType) }

func isPointerToNamed(t types.Type, pkgSuffix, name string) bool {
	p, ok := t.Underlying().(*types.Pointer)
	if !ok {
		if pp, ok2 := t.(*types.Pointer); ok2 {
			p = pp
		} else {
			return false
		}
	}
	return isNamed(p.Elem(), pkgSuffix, name)
}

func isNamed(t types.Type, pkgPath, name string) bool {
	n, ok := types.Unalias(t).(*types.Named)
	if !ok {
		return false
	}
	nm := n.Obj().Name()
	if old, ok := canonTypes[n.Obj()]; ok {
		nm = old
	}
	if nm != name {
		return false
	}
	if n.Obj().Pkg() == nil {
		return pkgPath == ""
	}
	return n.Obj().Pkg().Path() == pkgPath
}

// isNodePtr: *gtree.Node
func isNodePtr(t types.Type) bool {
	p, ok := types.Unalias(t).(*types.Pointer)
	return ok && isNamed(p.Elem(), modulePath, "Node")
}

func isContextType(t types.Type) bool { return isNamed(t, "context", "Context") }

// calleeString names what a call invokes: "pkg.Func", "(*pkg.T).M", "iface:(pkg.I).M", "dynamic:<sig>", "builtin:x".
func calleeString(c *ssa.CallCommon) string {
	if c.IsInvoke() {
		return "iface:(" + relType(c.Value.Type()) + ")." + methodName(c.Method)
	}
	switch v := c.Value.(type) {
	case *ssa.Builtin:
		return "builtin:" + v.Name()
	case *ssa.Function:
		return relFunc(v)
	case *ssa.MakeClosure:
		return relFunc(v.Fn.(*ssa.Function))
	}
	return "dynamic:" + describeValue(c.Value)
}

func relFunc(f *ssa.Function) string {
	s := f.String()
	s = strings.ReplaceAll(s, modulePath+"/", "")
	s = strings.ReplaceAll(s, modulePath+".", "gtree.")
	s = strings.ReplaceAll(s, modulePath, "gtree")
	return s
}

func relType(t types.Type) string {
	s := types.TypeString(t, func(p *types.Package) string {
		path := p.Path()
		if path == modulePath {
			return "gtree"
		}
		return strings.TrimPrefix(path, modulePath+"/")
	})
	for _, r := range typeRenameRx {
		s = replaceWord(s, r.from, r.to)
	}
	return s
}

// staticCalleeIs reports whether the call statically targets pkgPath.name (function) or a method
// "(*T).M"/"(T).M" given as recv+"."+name with recv like "*bufio.Scanner".
func staticCalleeIs(c *ssa.CallCommon, full string) bool {
	f := c.StaticCallee()
	if f == nil {
		return false
	}
	return f.String() == full
}

func calleeFullName(c *ssa.CallCommon) string {
	if f := c.StaticCallee(); f != nil {
		return f.String()
	}
	if c.IsInvoke() {
		return "(" + c.Value.Type().String() + ")." + methodName(c.Method)
	}
	return ""
}

// describeValue gives a line-free description of a value for obligation keys.
func describeValue(v ssa.Value) string {
	return describeValueDepth(v, 4)
}

func describeValueDepth(v ssa.Value, d int) string {
	if d == 0 {
		return "…"
	}
	switch x := v.(type) {
	case *ssa.Parameter:
		return x.Name()
	case *ssa.FreeVar:
		return x.Name()
	case *ssa.Const:
		if x.Value == nil {
			return "nil"
		}
		return x.Value.String()
	case *ssa.Global:
		return x.Name()
	case *ssa.Function:
		return relFunc(x)
	case *ssa.Alloc:
		if x.Comment != "" {
			return x.Comment
		}
		return "new(" + relType(x.Type().(*types.Pointer).Elem()) + ")"
	case *ssa.FieldAddr:
		return describeValueDepth(x.X, d-1) + "." + fieldName(x.X.Type(), x.Field)
	case *ssa.Field:
		return describeValueDepth(x.X, d-1) + "." + fieldName(x.X.Type(), x.Field)
	case *ssa.UnOp:
		if x.Op == token.MUL {
			return describeValueDepth(x.X, d)
		}
		if x.Op == token.ARROW {
			return "<-" + describeValueDepth(x.X, d-1)
		}
		return x.Op.String() + describeValueDepth(x.X, d-1)
	case *ssa.Call:
		return calleeString(x.Common()) + "(…)"
	case *ssa.Extract:
		return describeValueDepth(x.Tuple, d-1) + fmt.Sprintf("#%d", x.Index)
	case *ssa.MakeInterface:
		return describeValueDepth(x.X, d)
	case *ssa.ChangeType:
		return describeValueDepth(x.X, d)
	case *ssa.ChangeInterface:
		return describeValueDepth(x.X, d)
	case *ssa.Convert:
		return describeValueDepth(x.X, d)
	case *ssa.MakeClosure:
		return "closure " + relFunc(x.Fn.(*ssa.Function))
	case *ssa.Phi:
		var parts []string
		for _, e := range x.Edges {
			parts = append(parts, describeValueDepth(e, d-1))
		}
		sort.Strings(parts)
		parts = dedup(parts)
		if x.Comment != "" {
			return x.Comment
		}
		return "φ(" + strings.Join(parts, "|") + ")"
	case *ssa.BinOp:
		return describeValueDepth(x.X, d-1) + " " + x.Op.String() + " " + describeValueDepth(x.Y, d-1)
	case *ssa.IndexAddr:
		return describeValueDepth(x.X, d-1) + "[" + describeValueDepth(x.Index, d-1) + "]"
	case *ssa.Index:
		return describeValueDepth(x.X, d-1) + "[" + describeValueDepth(x.Index, d-1) + "]"
	case *ssa.Lookup:
		return describeValueDepth(x.X, d-1) + "[" + describeValueDepth(x.Index, d-1) + "]"
	case *ssa.Slice:
		return describeValueDepth(x.X, d-1) + "[:]"
	case *ssa.TypeAssert:
		return describeValueDepth(x.X, d-1) + ".(" + relType(x.AssertedType) + ")"
	case *ssa.MakeChan:
		return "make(" + relType(x.Type()) + ")"
	case *ssa.Select:
		return "select"
	case *ssa.Next:
		return "next"
	case *ssa.Range:
		return "range " + describeValueDepth(x.X, d-1)
	}
	return strings.TrimPrefix(fmt.Sprintf("%T", v), "*ssa.")
}

func dedup(s []string) []string {
	var out []string
	for i, x := range s {
		if i == 0 || x != s[i-1] {
			out = append(out, x)
		}
	}
	return out
}

func fieldName(t types.Type, idx int) string {
	if p, ok := t.Underlying().(*types.Pointer); ok {
		t = p.Elem()
	}
	st, ok := t.Underlying().(*types.Struct)
	if !ok || idx >= st.NumFields() {
		return fmt.Sprintf("f%d", idx)
	}
	n := st.Field(idx).Name()
	if len(canonFields) > 0 {
		if m := canonFields[structKey(relTypeString(t))]; m != nil {
			if old, ok := m[n]; ok {
				return old
			}
		}
	}
	return n
}

// fieldOf returns (struct type name, field name) for a FieldAddr/Field.
func fieldOf(v ssa.Value) (string, string, bool) {
	switch x := v.(type) {
	case *ssa.FieldAddr:
		return typeName(x.X.Type()), fieldName(x.X.Type(), x.Field), true
	case *ssa.Field:
		return typeName(x.X.Type()), fieldName(x.X.Type(), x.Field), true
	}
	return "", "", false
}

// stripConv removes value-preserving wrappers.
func stripConv(v ssa.Value) ssa.Value {
	for {
		switch x := v.(type) {
		case *ssa.MakeInterface:
			v = x.X
		case *ssa.ChangeType:
			v = x.X
		case *ssa.ChangeInterface:
			v = x.X
		default:
			return v
		}
	}
}

// ---------------------------------------------------------------------------------------------
// cells: identity of memory locations that SSA keeps as loads/stores (captured variables, fields)

// cellKey gives a canonical name to an address value; "" if it cannot be named.
func cellKey(addr ssa.Value) string {
	switch x := addr.(type) {
	case *ssa.Alloc:
		return fmt.Sprintf("alloc:%s:%s", x.Parent().Name(), x.Name())
	case *ssa.FreeVar:
		return "free:" + x.Name()
	case *ssa.Global:
		return "global:" + x.Pkg.Pkg.Path() + "." + x.Name()
	case *ssa.FieldAddr:
		b := valueKey(x.X)
		if b == "" {
			return ""
		}
		return b + "." + fieldName(x.X.Type(), x.Field)
	case *ssa.IndexAddr:
		b := valueKey(x.X)
		i := valueKey(x.Index)
		if b == "" || i == "" {
			return ""
		}
		return b + "[" + i + "]"
	}
	return ""
}

// valueKey names a value so that two loads of the same cell get the same key.
func valueKey(v ssa.Value) string {
	switch x := v.(type) {
	case *ssa.Parameter:
		return "param:" + x.Name()
	case *ssa.FreeVar:
		return "free:" + x.Name()
	case *ssa.Global:
		return "global:" + x.Pkg.Pkg.Path() + "." + x.Name()
	case *ssa.Const:
		if x.Value == nil {
			return "const:nil"
		}
		return "const:" + x.Value.ExactString()
	case *ssa.UnOp:
		if x.Op == token.MUL {
			k := cellKey(x.X)
			if k == "" {
				return "reg:" + x.Name()
			}
			return "*" + k
		}
	case *ssa.Alloc:
		return cellKey(x)
	case *ssa.FieldAddr:
		return "&" + cellKey(x)
	case *ssa.ChangeType:
		return valueKey(x.X)
	}
	if v == nil {
		return ""
	}
	return "reg:" + v.Name()
}

// isLoad reports whether v is a load and returns the address.
func isLoad(v ssa.Value) (ssa.Value, bool) {
	if u, ok := v.(*ssa.UnOp); ok && u.Op == token.MUL {
		return u.X, true
	}
	return nil, false
}

// blockReach computes blocks reachable from 'from' (inclusive) without entering 'stop' blocks.
func blockReach(from *ssa.BasicBlock, stop map[*ssa.BasicBlock]bool) map[*ssa.BasicBlock]bool {
	seen := map[*ssa.BasicBlock]bool{}
	var walk func(b *ssa.BasicBlock)
	walk = func(b *ssa.BasicBlock) {
		if seen[b] || stop[b] {
			return
		}
		seen[b] = true
		for _, s := range b.Succs {
			walk(s)
		}
	}
	walk(from)
	return seen
}

func canReach(from, to *ssa.BasicBlock) bool {
	return blockReach(from, nil)[to]
}

func instrIndex(in ssa.Instruction) int {
	for i, x := range in.Block().Instrs {
		if x == in {
			return i
		}
	}
	return -1
}

// storeBetween reports whether a store to a cell with the given key can execute after 'from' block
// entry and before instruction 'to' (conservative: block-level reachability).
func storeBetween(key string, from *ssa.BasicBlock, to ssa.Instruction) bool {
	fn := to.Parent()
	reach := blockReach(from, nil)
	tb := to.Block()
	ti := instrIndex(to)
	for _, b := range fn.Blocks {
		if !reach[b] {
			continue
		}
		for i, in := range b.Instrs {
			st, ok := in.(*ssa.Store)
			if !ok || cellKey(st.Addr) != key {
				continue
			}
			if b == tb {
				if i < ti || canReachNonTrivially(b, b) {
					return true
				}
				continue
			}
			if canReach(b, tb) {
				return true
			}
		}
	}
	return false
}

// canReachNonTrivially: is there a cycle from b back to b?
func canReachNonTrivially(a, b *ssa.BasicBlock) bool {
	for _, s := range a.Succs {
		if canReach(s, b) {
			return true
		}
	}
	return false
}

// ---------------------------------------------------------------------------------------------
// guards

// Guard is a dominating conditional branch: the block is only reachable through the Pol side of If.
type Guard struct {
	If   *ssa.If
	Cond ssa.Value
	Pol  bool
	Succ *ssa.BasicBlock // the successor block on that side
}

// guardsOf lists the branch conditions that must hold for control to reach block b
// (nearest first).  A branch counts when one of its successors dominates b and is entered only
// from the branch.
func guardsOf(b *ssa.BasicBlock) []Guard {
	var out []Guard
	for x := b.Idom(); x != nil; x = x.Idom() {
		if len(x.Instrs) == 0 {
			continue
		}
		iff, ok := x.Instrs[len(x.Instrs)-1].(*ssa.If)
		if !ok {
			continue
		}
		t, f := x.Succs[0], x.Succs[1]
		if t == f {
			continue
		}
		onT := sideDominates(x, t, b)
		onF := sideDominates(x, f, b)
		if onT && !onF {
			out = append(out, Guard{If: iff, Cond: iff.Cond, Pol: true, Succ: t})
		} else if onF && !onT {
			out = append(out, Guard{If: iff, Cond: iff.Cond, Pol: false, Succ: f})
		}
	}
	return out
}

// sideDominates: succ s of branch block x is entered only from x and dominates b.
func sideDominates(x, s, b *ssa.BasicBlock) bool {
	if !s.Dominates(b) {
		return false
	}
	for _, p := range s.Preds {
		if p != x {
			return false
		}
	}
	return true
}

// flattenCond expands !c and returns the core condition with adjusted polarity.
func flattenCond(c ssa.Value, pol bool) (ssa.Value, bool) {
	for {
		u, ok := c.(*ssa.UnOp)
		if ok && u.Op == token.NOT {
			c = u.X
			pol = !pol
			continue
		}
		return c, pol
	}
}

// nilTest: if cond (with polarity) is a comparison of some value with nil, return that value and
// whether the value is known NON-nil on this side.
func nilTest(c ssa.Value, pol bool) (ssa.Value, bool, bool) {
	c, pol = flattenCond(c, pol)
	b, ok := c.(*ssa.BinOp)
	if !ok || (b.Op != token.EQL && b.Op != token.NEQ) {
		return nil, false, false
	}
	var v ssa.Value
	if isNilConst(b.Y) {
		v = b.X
	} else if isNilConst(b.X) {
		v = b.Y
	} else {
		return nil, false, false
	}
	nonNil := (b.Op == token.NEQ) == pol
	return v, nonNil, true
}

func isNilConst(v ssa.Value) bool {
	c, ok := v.(*ssa.Const)
	return ok && c.Value == nil && !isBasicNonPointer(c.Type())
}

func isBasicNonPointer(t types.Type) bool {
	_, ok := t.Underlying().(*types.Basic)
	return ok
}

// sameValueAt: is guard value g (tested in block of the guard) the same run-time value as v used at 'use'?
func sameValueAt(g ssa.Value, gd Guard, v ssa.Value, use ssa.Instruction) bool {
	g, v = stripConv(g), stripConv(v)
	if g == v {
		return true
	}
	ga, ok1 := isLoad(g)
	va, ok2 := isLoad(v)
	if ok1 && ok2 {
		k1, k2 := cellKey(ga), cellKey(va)
		if k1 != "" && k1 == k2 {
			return !storeBetween(k1, gd.Succ, use)
		}
	}
	return false
}

// guardedNonNil: is v proven non-nil at instruction 'use' by a dominating nil test?
func guardedNonNil(v ssa.Value, use ssa.Instruction) bool {
	for _, g := range guardsOf(use.Block()) {
		tv, nonNil, ok := nilTest(g.Cond, g.Pol)
		if !ok || !nonNil {
			continue
		}
		if sameValueAt(tv, g, v, use) {
			return true
		}
	}
	return false
}

// guardedNil: is v proven nil at 'use' by a dominating test?
func guardedNil(v ssa.Value, use ssa.Instruction) bool {
	for _, g := range guardsOf(use.Block()) {
		tv, nonNil, ok := nilTest(g.Cond, g.Pol)
		if !ok || nonNil {
			continue
		}
		if sameValueAt(tv, g, v, use) {
			return true
		}
	}
	return false
}

// ---------------------------------------------------------------------------------------------
// misc

func constInt(v ssa.Value) (int64, bool) {
	c, ok := v.(*ssa.Const)
	if !ok || c.Value == nil || c.Value.Kind() != constant.Int {
		return 0, false
	}
	n, ok := constant.Int64Val(c.Value)
	return n, ok
}

func constString(v ssa.Value) (string, bool) {
	c, ok := v.(*ssa.Const)
	if !ok || c.Value == nil || c.Value.Kind() != constant.String {
		return "", false
	}
	return constant.StringVal(c.Value), true
}

func constBool(v ssa.Value) (bool, bool) {
	c, ok := v.(*ssa.Const)
	if !ok || c.Value == nil || c.Value.Kind() != constant.Bool {
		return false, false
	}
	return constant.BoolVal(c.Value), true
}

// variadicElems returns the elements stored into the backing array of a variadic slice argument
// (t = new [n]T; t[i] = v; slice t[:]).  ok=false if the shape is not recognised.
func variadicElems(v ssa.Value) ([]ssa.Value, bool) {
	if c, ok := v.(*ssa.Const); ok && c.Value == nil {
		return nil, true // nil slice: no elements
	}
	sl, ok := v.(*ssa.Slice)
	if !ok {
		return nil, false
	}
	al, ok := sl.X.(*ssa.Alloc)
	if !ok {
		return nil, false
	}
	arr, ok := al.Type().(*types.Pointer).Elem().Underlying().(*types.Array)
	if !ok {
		return nil, false
	}
	elems := make([]ssa.Value, arr.Len())
	for _, r := range *al.Referrers() {
		ia, ok := r.(*ssa.IndexAddr)
		if !ok {
			continue
		}
		idx, ok := constInt(ia.Index)
		if !ok || idx < 0 || idx >= arr.Len() {
			return nil, false
		}
		for _, rr := range *ia.Referrers() {
			if st, ok := rr.(*ssa.Store); ok && st.Addr == ia {
				elems[idx] = st.Val
			}
		}
	}
	for _, e := range elems {
		if e == nil {
			return nil, false
		}
	}
	return elems, true
}

// allInstrs iterates instructions of fn.
func allInstrs(fn *ssa.Function, f func(ssa.Instruction)) {
	for _, b := range fn.Blocks {
		for _, in := range b.Instrs {
			f(in)
		}
	}
}

// enclosingNamed returns the outermost named (non-anonymous) function enclosing fn.
func outermost(fn *ssa.Function) *ssa.Function {
	for fn.Parent() != nil {
		fn = fn.Parent()
	}
	return fn
}

// recvTypeName returns the receiver's named type name of a method ("" if none).
func recvTypeName(fn *ssa.Function) string {
	fn = outermost(fn)
	if fn.Signature.Recv() == nil {
		return ""
	}
	return typeName(fn.Signature.Recv().Type())
}

func sortedKeys[M ~map[string]V, V any](m M) []string {
	var ks []string
	for k := range m {
		ks = append(ks, k)
	}
	sort.Strings(ks)
	return ks
}

// ---------------------------------------------------------------------------------------------
// resolution of captured variables: go/ssa keeps every variable that a closure refers to as a
// heap cell (Alloc in the declaring function, FreeVar in the closure).  resolve() follows loads of
// such cells to the value stored, when the cell has exactly one store.

// makeClosureOf finds the MakeClosure instruction that creates closure fn in its parent.
func makeClosureOf(fn *ssa.Function) *ssa.MakeClosure {
	par := fn.Parent()
	if par == nil {
		return nil
	}
	for _, b := range par.Blocks {
		for _, in := range b.Instrs {
			if mc, ok := in.(*ssa.MakeClosure); ok && mc.Fn == fn {
				return mc
			}
		}
	}
	return nil
}

// rootCell maps a FreeVar (or Alloc) to the Alloc that declares the variable.
func rootCell(addr ssa.Value) ssa.Value {
	for i := 0; i < 8; i++ {
		fv, ok := addr.(*ssa.FreeVar)
		if !ok {
			return addr
		}
		fn := fv.Parent()
		mc := makeClosureOf(fn)
		if mc == nil {
			return addr
		}
		idx := -1
		for j, f := range fn.FreeVars {
			if f == fv {
				idx = j
			}
		}
		if idx < 0 || idx >= len(mc.Bindings) {
			return addr
		}
		addr = mc.Bindings[idx]
	}
	return addr
}

// cellAliases returns the Alloc and every FreeVar (in nested closures) bound to it.
func cellAliases(cell ssa.Value) []ssa.Value {
	out := []ssa.Value{cell}
	for i := 0; i < len(out); i++ {
		c := out[i]
		refs := c.Referrers()
		if refs == nil {
			continue
		}
		for _, r := range *refs {
			mc, ok := r.(*ssa.MakeClosure)
			if !ok {
				continue
			}
			fn := mc.Fn.(*ssa.Function)
			for j, b := range mc.Bindings {
				if b == c && j < len(fn.FreeVars) {
					out = append(out, fn.FreeVars[j])
				}
			}
		}
	}
	return out
}

// cellStores lists every store to the variable (through any alias).
func cellStores(cell ssa.Value) []*ssa.Store {
	var out []*ssa.Store
	for _, a := range cellAliases(rootCell(cell)) {
		if a.Referrers() == nil {
			continue
		}
		for _, r := range *a.Referrers() {
			if st, ok := r.(*ssa.Store); ok && st.Addr == a {
				out = append(out, st)
			}
		}
	}
	return out
}

// cellLoads lists every load of the variable (through any alias).
func cellLoads(cell ssa.Value) []*ssa.UnOp {
	var out []*ssa.UnOp
	for _, a := range cellAliases(rootCell(cell)) {
		if a.Referrers() == nil {
			continue
		}
		for _, r := range *a.Referrers() {
			if u, ok := r.(*ssa.UnOp); ok && u.Op == token.MUL && u.X == a {
				out = append(out, u)
			}
		}
	}
	return out
}

// resolve follows conversions and loads of single-assignment variable cells.
func resolve(v ssa.Value) ssa.Value {
	for i := 0; i < 16; i++ {
		switch x := v.(type) {
		case *ssa.ChangeType:
			v = x.X
			continue
		case *ssa.MakeInterface:
			v = x.X
			continue
		case *ssa.ChangeInterface:
			v = x.X
			continue
		case *ssa.UnOp:
			if x.Op != token.MUL {
				return v
			}
			switch x.X.(type) {
			case *ssa.Alloc, *ssa.FreeVar:
				if st := initStore(x.X); st != nil {
					v = st.Val
					continue
				}
			}
			return v
		}
		return v
	}
	return v
}

// sameVar: do a and b denote the same run-time value (same SSA value, or loads of one variable
// that is assigned once)?
func sameVar(a, b ssa.Value) bool {
	a, b = resolve(a), resolve(b)
	if a == b {
		return true
	}
	la, ok1 := isLoad(a)
	lb, ok2 := isLoad(b)
	if ok1 && ok2 {
		ra, rb := rootCell(la), rootCell(lb)
		if ra == rb {
			if _, isAlloc := ra.(*ssa.Alloc); isAlloc {
				return true
			}
		}
		ka, kb := cellKey(la), cellKey(lb)
		return ka != "" && ka == kb && la.Parent() == lb.Parent()
	}
	return false
}

// inLoop reports whether the instruction's block lies on a CFG cycle.
func inLoop(in ssa.Instruction) bool {
	b := in.Block()
	return canReachNonTrivially(b, b)
}


// initStore: the variable behind cell is assigned exactly once, by a store that initialises it
// right where it is declared (same function and block as its Alloc: parameters, `x := v`).  A
// variable declared without a value and assigned later keeps its zero value for earlier loads and is
// therefore not resolved.
func initStore(cell ssa.Value) *ssa.Store {
	root := rootCell(cell)
	al, ok := root.(*ssa.Alloc)
	if !ok {
		return nil
	}
	st := cellStores(root)
	if len(st) != 1 {
		return nil
	}
	if st[0].Parent() != al.Parent() || st[0].Block() != al.Block() {
		return nil
	}
	return st[0]
}

// rr returns the values a return statement hands back.  In functions with defers go/ssa spills the
// results into local cells (`*t1 = v; rundefers; t9 = *t1; return t9`); the loads are resolved to the
// values stored in the same block.
func rr(r *ssa.Return) []ssa.Value {
	out := make([]ssa.Value, len(r.Results))
	for i, v := range r.Results {
		out[i] = v
		ld, ok := v.(*ssa.UnOp)
		if !ok || ld.Op != token.MUL || ld.Block() != r.Block() {
			continue
		}
		al, ok := ld.X.(*ssa.Alloc)
		if !ok {
			continue
		}
		idx := instrIndex(ld)
		sawDefers := false
		for j := idx - 1; j >= 0; j-- {
			switch in := r.Block().Instrs[j].(type) {
			case *ssa.RunDefers:
				sawDefers = true
			case *ssa.Store:
				if in.Addr == ssa.Value(al) && sawDefers {
					out[i] = in.Val
					j = -1
				}
			}
		}
	}
	return out
}

// ---------------------------------------------------------------------------------------------
// following values through single call sites (a goroutine closure turned into a named function, a
// helper that receives what its only caller made)

// soleCallSite: the only module call site (call, go or defer) of a named function, or nil.
func soleCallSite(p *Prog, fn *ssa.Function) ssa.CallInstruction {
	cs := p.Callers(fn)
	if len(cs) != 1 {
		return nil
	}
	return cs[0]
}

// resolveArg is resolve() extended through parameters of functions that have a single call site.
func resolveArg(p *Prog, v ssa.Value) ssa.Value {
	for i := 0; i < 6; i++ {
		v = resolve(v)
		prm, ok := v.(*ssa.Parameter)
		if !ok {
			return v
		}
		fn := prm.Parent()
		if fn.Parent() != nil {
			return v
		}
		site := soleCallSite(p, fn)
		if site == nil {
			return v
		}
		idx := inputIndexParam(fn, prm)
		args := site.Common().Args
		if site.Common().IsInvoke() {
			args = append([]ssa.Value{site.Common().Value}, args...)
		}
		if idx < 0 || idx >= len(args) {
			return v
		}
		v = args[idx]
	}
	return v
}

func inputIndexParam(fn *ssa.Function, prm *ssa.Parameter) int {
	for i, q := range fn.Params {
		if q == prm {
			return i
		}
	}
	return -1
}

// goStartOf: the single `go` statement that starts fn (a closure started where it is made, or a named
// function whose only call site is a go statement); nil otherwise.
func goStartOf(p *Prog, fn *ssa.Function) *ssa.Go {
	if mk := makeClosureOf(fn); mk != nil {
		var g *ssa.Go
		n := 0
		for _, r := range *mk.Referrers() {
			switch x := r.(type) {
			case *ssa.Go:
				if x.Common().Value == ssa.Value(mk) {
					g = x
					n++
				}
			case *ssa.DebugRef:
			default:
				return nil
			}
		}
		if n == 1 {
			return g
		}
		return nil
	}
	if site := soleCallSite(p, fn); site != nil {
		if g, ok := site.(*ssa.Go); ok {
			return g
		}
	}
	return nil
}

// deferredIn: fn is a closure that its parent defers (defer func(){…}()); returns the parent.
func deferredIn(fn *ssa.Function) *ssa.Function {
	mk := makeClosureOf(fn)
	if mk == nil {
		return nil
	}
	for _, r := range *mk.Referrers() {
		if d, ok := r.(*ssa.Defer); ok && d.Common().Value == ssa.Value(mk) {
			return fn.Parent()
		}
	}
	return nil
}

// paramIndex: position of prm in fn.Params (receiver included), -1 if not a parameter of fn.
func paramIndex(fn *ssa.Function, prm *ssa.Parameter) int {
	for i, q := range fn.Params {
		if q == prm {
			return i
		}
	}
	return -1
}

// dependsOnValue: v is computed from x (operands, call arguments, loads through x), depth-limited.
func dependsOnValue(v, x ssa.Value, d int) bool {
	if v == nil || d > 6 {
		return false
	}
	if sameVar(v, x) {
		return true
	}
	switch t := v.(type) {
	case *ssa.Call:
		for _, a := range t.Common().Args {
			if dependsOnValue(a, x, d+1) {
				return true
			}
		}
		if t.Common().IsInvoke() {
			return dependsOnValue(t.Common().Value, x, d+1)
		}
	case *ssa.BinOp:
		return dependsOnValue(t.X, x, d+1) || dependsOnValue(t.Y, x, d+1)
	case *ssa.UnOp:
		return dependsOnValue(t.X, x, d+1)
	case *ssa.FieldAddr:
		return dependsOnValue(t.X, x, d+1)
	case *ssa.Field:
		return dependsOnValue(t.X, x, d+1)
	case *ssa.IndexAddr:
		return dependsOnValue(t.X, x, d+1)
	case *ssa.Phi:
		for _, e := range t.Edges {
			if dependsOnValue(e, x, d+1) {
				return true
			}
		}
	case *ssa.Convert:
		return dependsOnValue(t.X, x, d+1)
	case *ssa.ChangeType:
		return dependsOnValue(t.X, x, d+1)
	case *ssa.ChangeInterface:
		return dependsOnValue(t.X, x, d+1)
	case *ssa.MakeInterface:
		return dependsOnValue(t.X, x, d+1)
	case *ssa.TypeAssert:
		return dependsOnValue(t.X, x, d+1)
	case *ssa.Extract:
		return dependsOnValue(t.Tuple, x, d+1)
	}
	return false
}

// resolveArgAll is resolveArg for functions with several call sites: every value the parameter can stand for.
func resolveArgAll(p *Prog, v ssa.Value, depth int) []ssa.Value {
	v = resolve(v)
	prm, ok := v.(*ssa.Parameter)
	if !ok || depth > 4 {
		return []ssa.Value{v}
	}
	fn := prm.Parent()
	if fn.Parent() != nil {
		return []ssa.Value{v}
	}
	sites := p.Callers(fn)
	if len(sites) == 0 {
		return []ssa.Value{v}
	}
	idx := inputIndexParam(fn, prm)
	var out []ssa.Value
	for _, site := range sites {
		args := site.Common().Args
		if site.Common().IsInvoke() {
			args = append([]ssa.Value{site.Common().Value}, args...)
		}
		if idx < 0 || idx >= len(args) {
			return []ssa.Value{v}
		}
		out = append(out, resolveArgAll(p, args[idx], depth+1)...)
	}
	return out
}

func containsValue(vs []ssa.Value, x ssa.Value) bool {
	for _, v := range vs {
		if v == x {
			return true
		}
	}
	return false
}

// goStartFor: the go statement in maker that starts g (a named function with possibly several go sites elsewhere)
// and hands it the value v; nil if there is none or more than one.
func goStartFor(p *Prog, g, maker *ssa.Function, v ssa.Value) *ssa.Go {
	var found *ssa.Go
	n := 0
	for _, ci := range p.Callers(g) {
		gi, ok := ci.(*ssa.Go)
		if !ok || gi.Parent() != maker {
			continue
		}
		for _, a := range gi.Common().Args {
			if resolve(a) == v {
				found = gi
				n++
			}
		}
	}
	if n == 1 {
		return found
	}
	return nil
}
