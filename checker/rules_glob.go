package main

// GLOB — call-history freedom.
//
// GLOB-1  package-level mutable state must not reach a decision, an output or an API result.
//         Summary-based taint: labels {GLOBAL, param i}; per-function summaries for results, field
//         stores and sinks are instantiated at call sites (receiver-sensitive, so a per-call counter
//         and the package-level counter are kept apart); fields are tainted module-wide.
// GLOB-3  the per-node cache (branch, path) is cleared before it is extended, on every route.

import (
	"fmt"
	"go/token"
	"go/types"
	"sort"
	"strings"

	"golang.org/x/tools/go/ssa"
)

func init() {
	register(&Rule{ID: "GLOB-1", Doc: "package-level variables of the module are enumerated; one is mutable if it is stored to outside init, written through (field/element/map stores via a value loaded from it, directly or in callees), or handed as receiver to a method of an external type; values derived from a mutable global must not reach a branch condition, an output/filesystem call or an exported result (interprocedural, receiver-sensitive summary taint; fields tainted module-wide)", Run: ruleGLOB1})
	register(&Rule{ID: "GLOB-3", Doc: "reset before accumulate: every call that extends a node's cached branch/path from its previous value (setBranch(n.branch(),…), setPath(…, n.path())) is dominated, on every call route, by the call that clears that node's cache", Run: ruleGLOB3})
}

type label uint64

const labGlobal label = 1

func paramBit(i int) label {
	if i >= 62 {
		return 0
	}
	return 1 << uint(i+1)
}

type fieldKey struct{ typ, field string }

type fnSummary struct {
	ret        []label              // labels of each result
	fieldStore map[fieldKey]label   // labels stored into fields (param-relative)
	sinkParams label                // params (and GLOBAL) that reach a sink inside (transitively)
	writesThru label                // params written through (stores via pointer/map/slice derived from them)
}

type globAnalysis struct {
	p          *Prog
	fns        []*ssa.Function
	sum        map[*ssa.Function]*fnSummary
	fieldTaint map[fieldKey]bool
	mutable    map[*ssa.Global]string // reason
	poolOK     map[*ssa.Global]bool
	val        map[ssa.Value]label
	sinks      []Ob
}

// inputs of a function: params then free variables
func inputIndex(fn *ssa.Function, v ssa.Value) int {
	for i, p := range fn.Params {
		if ssa.Value(p) == v {
			return i
		}
	}
	for i, f := range fn.FreeVars {
		if ssa.Value(f) == v {
			return len(fn.Params) + i
		}
	}
	return -1
}

func (g *globAnalysis) labelsOf(v ssa.Value) label {
	if v == nil {
		return 0
	}
	switch x := v.(type) {
	case *ssa.Const, *ssa.Function, *ssa.Builtin:
		return 0
	case *ssa.Parameter:
		return paramBit(inputIndex(x.Parent(), x))
	case *ssa.FreeVar:
		return paramBit(inputIndex(x.Parent(), x))
	case *ssa.Global:
		if _, ok := g.mutable[x]; ok {
			return labGlobal
		}
		return 0
	}
	return g.val[v]
}

func isInit(fn *ssa.Function) bool {
	return fname(fn) == "init" || strings.HasPrefix(fname(fn), "init#") || fn.Synthetic == "package initializer"
}

// findMutableGlobals classifies the module's package-level variables.
func (g *globAnalysis) findMutableGlobals() {
	// write-through summaries first (param-relative), ignoring globals
	for changed := true; changed; {
		changed = false
		for _, fn := range g.fns {
			s := g.sum[fn]
			before := s.writesThru
			der := g.derivedFromInputs(fn)
			allInstrs(fn, func(in ssa.Instruction) {
				switch x := in.(type) {
				case *ssa.Store:
					switch a := x.Addr.(type) {
					case *ssa.FieldAddr:
						s.writesThru |= der[a.X]
					case *ssa.IndexAddr:
						s.writesThru |= der[a.X]
					case *ssa.UnOp, *ssa.Parameter, *ssa.FreeVar:
						if _, isCell := x.Addr.(*ssa.FreeVar); !isCell {
							s.writesThru |= der[x.Addr]
						}
					}
				case *ssa.MapUpdate:
					s.writesThru |= der[x.Map]
				case ssa.CallInstruction:
					com := x.Common()
					args := com.Args
					if com.IsInvoke() {
						args = append([]ssa.Value{com.Value}, args...)
					}
					callees := g.p.ModCallees(x)
					for _, callee := range callees {
						cs := g.sum[callee]
						if cs == nil {
							continue
						}
						for i, a := range args {
							if cs.writesThru&paramBit(i) != 0 {
								s.writesThru |= der[a]
							}
						}
					}
					if len(callees) == 0 && !com.IsInvoke() && com.StaticCallee() != nil {
						// external method with pointer receiver: assume it may write through the receiver
						f := com.StaticCallee()
						if f.Signature.Recv() != nil && len(args) > 0 && externalMutator(f) {
							s.writesThru |= der[args[0]]
						}
					}
				}
			})
			if s.writesThru != before {
				changed = true
			}
		}
	}
	for _, path := range sortedKeys(g.p.SSAPkgs) {
		pkg := g.p.SSAPkgs[path]
		for _, m := range pkg.Members {
			gl, ok := m.(*ssa.Global)
			if !ok || strings.HasPrefix(gl.Name(), "init$") {
				continue
			}
			_ = gl
		}
	}
	// a global pointer that escapes (returned, stored into a field, kept in an interface) can be written
	// through any alias: it is mutable if module code outside init writes a field of its type at all,
	// and those fields are then tainted module-wide
	writtenFields := map[string][]string{} // type name -> fields stored outside init
	for _, fn := range g.fns {
		if isInit(fn) {
			continue
		}
		allInstrs(fn, func(in ssa.Instruction) {
			if st, ok := in.(*ssa.Store); ok {
				if fa, ok := st.Addr.(*ssa.FieldAddr); ok {
					if _, isAlloc := fa.X.(*ssa.Alloc); isAlloc {
						return // initialising a fresh object
					}
					tn, f, _ := fieldOf(fa)
					writtenFields[tn] = append(writtenFields[tn], f)
				}
			}
		})
	}
	for _, fn := range g.fns {
		der := g.derivedFromGlobals(fn)
		allInstrs(fn, func(in ssa.Instruction) {
			esc := func(v ssa.Value) {
				for gl := range der[v] {
					pt, ok := gl.Type().(*types.Pointer)
					if !ok {
						continue
					}
					_ = pt
					// what the escaping value lets others write: the objects reachable from it through references
					// (a struct or array copied out by value shares nothing but what its pointer / slice / map
					// fields point to)
					for _, tn := range sharedTypeNames(v.Type()) {
						if fs := writtenFields[tn]; len(fs) > 0 {
							if _, ok := g.mutable[gl]; !ok {
								g.mutable[gl] = "its pointer escapes in " + g.p.FuncID(fn) + " (" + g.p.InstrPos(in) + ") and fields of " + tn + " (reachable from it) are written elsewhere"
							}
							for _, f := range fs {
								g.fieldTaint[fieldKey{tn, f}] = true
							}
						}
					}
				}
			}
			switch x := in.(type) {
			case *ssa.Return:
				for _, r := range x.Results {
					esc(r)
				}
			case *ssa.Store:
				if _, isGlobal := x.Addr.(*ssa.Global); !isGlobal {
					esc(x.Val)
				}
			case *ssa.MakeInterface:
				esc(x.X)
			}
		})
	}
	for _, fn := range g.fns {
		if isInit(fn) {
			continue
		}
		der := g.derivedFromGlobals(fn)
		allInstrs(fn, func(in ssa.Instruction) {
			mark := func(v ssa.Value, why string) {
				for gl := range der[v] {
					if _, ok := g.mutable[gl]; !ok {
						g.mutable[gl] = why + " in " + g.p.FuncID(fn) + " (" + g.p.InstrPos(in) + ")"
					}
				}
			}
			switch x := in.(type) {
			case *ssa.Store:
				if gl, ok := x.Addr.(*ssa.Global); ok && g.inModuleGlobal(gl) {
					if _, ok := g.mutable[gl]; !ok {
						g.mutable[gl] = "assigned in " + g.p.FuncID(fn) + " (" + g.p.InstrPos(in) + ")"
					}
				}
				switch a := x.Addr.(type) {
				case *ssa.FieldAddr:
					mark(a.X, "a field of its object is written")
				case *ssa.IndexAddr:
					mark(a.X, "an element is written")
				}
			case *ssa.MapUpdate:
				mark(x.Map, "map entry written")
			case *ssa.Send:
				mark(x.Chan, "a value is sent on it (a package-level channel is a queue that outlives the call: a free list, a pool)")
			case *ssa.Select:
				for _, st := range x.States {
					if st.Dir == types.SendOnly {
						mark(st.Chan, "a value is sent on it (a package-level channel is a queue that outlives the call: a free list, a pool)")
					}
				}
			case ssa.CallInstruction:
				com := x.Common()
				args := com.Args
				if com.IsInvoke() {
					args = append([]ssa.Value{com.Value}, args...)
				}
				callees := g.p.ModCallees(x)
				for _, callee := range callees {
					cs := g.sum[callee]
					if cs == nil {
						continue
					}
					for i, a := range args {
						if cs.writesThru&paramBit(i) != 0 {
							mark(a, "passed to "+relFunc(callee)+", which writes through it,")
						}
					}
				}
				if len(callees) == 0 && com.StaticCallee() != nil {
					f := com.StaticCallee()
					if f.Signature.Recv() != nil && len(args) > 0 && externalMutator(f) {
						if gl, isG := args[0].(*ssa.Global); isG && g.disciplinedPool(gl) {
							return
						}
						mark(args[0], "receiver of "+f.String())
					}
				}
			}
		})
	}
}

// disciplinedPool: gl is a package-level sync.Pool and whatever module code takes out of it is emptied before
// anything else is done with it (`b := pool.Get().(*bytes.Buffer); b.Reset()`): the pool then only recycles memory,
// it carries no content from one call to the next.  A pool used without that reset stays mutable shared state.
func (g *globAnalysis) disciplinedPool(gl *ssa.Global) bool {
	if g.poolOK == nil {
		g.poolOK = map[*ssa.Global]bool{}
	}
	if v, ok := g.poolOK[gl]; ok {
		return v
	}
	g.poolOK[gl] = false
	pt, ok := gl.Type().(*types.Pointer)
	if !ok {
		return false
	}
	if n, ok := types.Unalias(pt.Elem()).(*types.Named); !ok || n.Obj().Pkg() == nil || n.Obj().Pkg().Path() != "sync" || n.Obj().Name() != "Pool" {
		return false
	}
	nGet := 0
	good := true
	for _, fn := range g.fns {
		allInstrs(fn, func(in ssa.Instruction) {
			c, ok := in.(*ssa.Call)
			if !ok || calleeFullName(c.Common()) != "(*sync.Pool).Get" || len(c.Common().Args) == 0 || c.Common().Args[0] != ssa.Value(gl) {
				return
			}
			nGet++
			// the typed value
			var vals []ssa.Value
			vals = append(vals, c)
			for _, r := range *c.Referrers() {
				if ta, ok := r.(*ssa.TypeAssert); ok {
					vals = append(vals, ta)
					for _, r2 := range *ta.Referrers() {
						if ex, ok := r2.(*ssa.Extract); ok && ex.Index == 0 {
							vals = append(vals, ex)
						}
					}
				}
			}
			isVal := func(v ssa.Value) bool {
				for _, x := range vals {
					if x == v || sameVar(x, v) {
						return true
					}
				}
				return false
			}
			// the reset call
			var reset ssa.Instruction
			allInstrs(fn, func(in2 ssa.Instruction) {
				c2, ok := in2.(*ssa.Call)
				if !ok || c2.Common().StaticCallee() == nil || len(c2.Common().Args) == 0 || !isVal(c2.Common().Args[0]) {
					return
				}
				// only the standard library's emptying methods are taken on trust; a module-defined Reset is as good as its
				// author's memory of the type's fields
				if g.p.InModule(c2.Common().StaticCallee()) {
					return
				}
				switch c2.Common().StaticCallee().Name() {
				case "Reset":
					if reset == nil {
						reset = c2
					}
				case "Truncate":
					if k, isC := constInt(c2.Common().Args[len(c2.Common().Args)-1]); isC && k == 0 && reset == nil {
						reset = c2
					}
				}
			})
			if reset == nil {
				good = false
				return
			}
			// every other use of the value comes after the reset
			for _, v := range vals {
				if v.Referrers() == nil {
					continue
				}
				for _, r := range *v.Referrers() {
					if r == reset {
						continue
					}
					switch r.(type) {
					case *ssa.TypeAssert, *ssa.Extract, *ssa.DebugRef:
						continue
					case *ssa.Store:
						// kept in a local variable: its loads are covered through sameVar above
						continue
					}
					if r.Block() == reset.Block() {
						if instrIndex(r) < instrIndex(reset) {
							good = false
						}
					} else if !reset.Block().Dominates(r.Block()) {
						good = false
					}
				}
			}
		})
	}
	g.poolOK[gl] = good && nGet > 0
	return g.poolOK[gl]
}

// externalMutator: an external method that may change its receiver's state.
func externalMutator(f *ssa.Function) bool {
	if f.Signature.Recv() == nil {
		return false
	}
	pk := pkgOfFunc(f)
	if pk == nil || pk.Pkg == nil {
		return false
	}
	switch pk.Pkg.Path() {
	case "sync", "sync/atomic", "bytes", "strings", "container/list", "container/heap", "container/ring", "bufio", "math/rand", "math/rand/v2":
		// read-only accessors
		switch fname(f) {
		case "Len", "String", "Bytes", "Cap", "Load", "Front", "Back", "Value", "Next", "Prev", "RLock", "RUnlock", "Lock", "Unlock", "TryLock", "Err":
			return fname(f) == "Load" && false
		}
		return true
	}
	return false
}

func (g *globAnalysis) inModuleGlobal(gl *ssa.Global) bool {
	return gl.Pkg != nil && gl.Pkg.Pkg != nil && strings.HasPrefix(gl.Pkg.Pkg.Path(), modulePath)
}

// derivedFromInputs: for each value, which inputs (params/free vars) it is derived from by loads,
// field/element addressing and conversions (pointer derivation only).
func (g *globAnalysis) derivedFromInputs(fn *ssa.Function) map[ssa.Value]label {
	der := map[ssa.Value]label{}
	for i, p := range fn.Params {
		der[p] = paramBit(i)
	}
	for i, f := range fn.FreeVars {
		der[f] = paramBit(len(fn.Params) + i)
	}
	for changed := true; changed; {
		changed = false
		allInstrs(fn, func(in ssa.Instruction) {
			v, ok := in.(ssa.Value)
			if !ok {
				return
			}
			var l label
			switch x := in.(type) {
			case *ssa.FieldAddr:
				l = der[x.X]
			case *ssa.IndexAddr:
				l = der[x.X]
			case *ssa.UnOp:
				if x.Op == token.MUL {
					l = der[x.X]
				}
			case *ssa.Field:
				l = der[x.X]
			case *ssa.ChangeType:
				l = der[x.X]
			case *ssa.MakeInterface:
				l = der[x.X]
			case *ssa.Slice:
				l = der[x.X]
			case *ssa.Phi:
				for _, e := range x.Edges {
					l |= der[e]
				}
			case *ssa.TypeAssert:
				l = der[x.X]
			}
			if l|der[v] != der[v] {
				der[v] |= l
				changed = true
			}
		})
	}
	return der
}

// derivedFromGlobals: same, but tracking which module globals a pointer value derives from.
func (g *globAnalysis) derivedFromGlobals(fn *ssa.Function) map[ssa.Value]map[*ssa.Global]bool {
	der := map[ssa.Value]map[*ssa.Global]bool{}
	add := func(v ssa.Value, from map[*ssa.Global]bool) bool {
		ch := false
		for gl := range from {
			if der[v] == nil {
				der[v] = map[*ssa.Global]bool{}
			}
			if !der[v][gl] {
				der[v][gl] = true
				ch = true
			}
		}
		return ch
	}
	for changed := true; changed; {
		changed = false
		allInstrs(fn, func(in ssa.Instruction) {
			v, ok := in.(ssa.Value)
			if !ok {
				return
			}
			src := func(x ssa.Value) map[*ssa.Global]bool {
				if gl, ok := x.(*ssa.Global); ok && g.inModuleGlobal(gl) {
					return map[*ssa.Global]bool{gl: true}
				}
				return der[x]
			}
			switch x := in.(type) {
			case *ssa.FieldAddr:
				changed = add(v, src(x.X)) || changed
			case *ssa.IndexAddr:
				changed = add(v, src(x.X)) || changed
			case *ssa.UnOp:
				if x.Op == token.MUL {
					changed = add(v, src(x.X)) || changed
				}
			case *ssa.Field:
				changed = add(v, src(x.X)) || changed
			case *ssa.ChangeType:
				changed = add(v, src(x.X)) || changed
			case *ssa.MakeInterface:
				changed = add(v, src(x.X)) || changed
			case *ssa.Slice:
				changed = add(v, src(x.X)) || changed
			case *ssa.Phi:
				for _, e := range x.Edges {
					changed = add(v, src(e)) || changed
				}
			}
		})
	}
	// make globals themselves resolvable as keys
	for _, b := range fn.Blocks {
		for _, in := range b.Instrs {
			for _, op := range in.Operands(nil) {
				if op == nil || *op == nil {
					continue
				}
				if gl, ok := (*op).(*ssa.Global); ok && g.inModuleGlobal(gl) {
					if der[gl] == nil {
						der[gl] = map[*ssa.Global]bool{gl: true}
					}
				}
			}
		}
	}
	return der
}

// instantiate maps callee-relative labels to caller labels through the actual arguments.
func (g *globAnalysis) instantiate(l label, args []ssa.Value) label {
	var out label
	if l&labGlobal != 0 {
		out |= labGlobal
	}
	for i, a := range args {
		if l&paramBit(i) != 0 {
			out |= g.labelsOf(a)
		}
	}
	return out
}

func callArgs(com *ssa.CallCommon) []ssa.Value {
	if com.IsInvoke() {
		return append([]ssa.Value{com.Value}, com.Args...)
	}
	return com.Args
}

// closureArgs: for a call whose callee is a closure created here, args followed by the bindings.
func (g *globAnalysis) calleeInputs(ci ssa.CallInstruction, callee *ssa.Function) []ssa.Value {
	args := callArgs(ci.Common())
	if mc, ok := ci.Common().Value.(*ssa.MakeClosure); ok && mc.Fn == callee {
		return append(append([]ssa.Value{}, args...), mc.Bindings...)
	}
	return args
}

func (g *globAnalysis) run() {
	for _, fn := range g.fns {
		g.sum[fn] = &fnSummary{ret: make([]label, fn.Signature.Results().Len()), fieldStore: map[fieldKey]label{}}
	}
	g.findMutableGlobals()
	for iter := 0; iter < 30; iter++ {
		changed := false
		for _, fn := range g.fns {
			if g.analyseFunc(fn) {
				changed = true
			}
		}
		if !changed {
			break
		}
	}
}

// analyseFunc recomputes value labels and the summary of fn; reports whether anything grew.
func (g *globAnalysis) analyseFunc(fn *ssa.Function) bool {
	s := g.sum[fn]
	grew := false
	set := func(v ssa.Value, l label) {
		if g.val[v]|l != g.val[v] {
			g.val[v] |= l
			grew = true
		}
	}
	for pass := 0; pass < 6; pass++ {
		before := grew
		grew = false
		allInstrs(fn, func(in ssa.Instruction) {
			switch x := in.(type) {
			case *ssa.Store:
				l := g.labelsOf(x.Val)
				switch a := x.Addr.(type) {
				case *ssa.Alloc:
					set(a, l)
				case *ssa.FreeVar:
					// assignment to a captured variable: seen by the parent through the binding cell
					if rc := rootCell(a); rc != ssa.Value(a) {
						if l&labGlobal != 0 {
							set(rc, labGlobal)
						}
					}
				case *ssa.FieldAddr:
					tn, f, _ := fieldOf(a)
					k := fieldKey{tn, f}
					// a value derived from the object itself adds nothing: loads through the object
					// already carry the object's labels (keeps per-call counters apart from the global one)
					l &^= g.labelsOf(a.X)
					if l == 0 {
						return
					}
					if s.fieldStore[k]|l != s.fieldStore[k] {
						s.fieldStore[k] |= l
						grew = true
					}
					if l&labGlobal != 0 && !g.fieldTaint[k] {
						g.fieldTaint[k] = true
						grew = true
					}
				case *ssa.IndexAddr:
					set(a.X, l)
				}
			case *ssa.MapUpdate:
				set(x.Map, g.labelsOf(x.Key)|g.labelsOf(x.Value))
			case *ssa.Return:
				for i, r := range rr(x) {
					if i < len(s.ret) {
						l := g.labelsOf(r)
						if s.ret[i]|l != s.ret[i] {
							s.ret[i] |= l
							grew = true
						}
					}
				}
			}
			v, ok := in.(ssa.Value)
			if !ok {
				return
			}
			var l label
			switch x := in.(type) {
			case *ssa.UnOp:
				l = g.labelsOf(x.X)
				if x.Op == token.MUL {
					if fa, ok := x.X.(*ssa.FieldAddr); ok {
						tn, f, _ := fieldOf(fa)
						if g.fieldTaint[fieldKey{tn, f}] {
							l |= labGlobal
						}
					}
				}
			case *ssa.FieldAddr:
				l = g.labelsOf(x.X)
			case *ssa.Field:
				l = g.labelsOf(x.X)
				tn, f, _ := fieldOf(x)
				if g.fieldTaint[fieldKey{tn, f}] {
					l |= labGlobal
				}
			case *ssa.IndexAddr:
				l = g.labelsOf(x.X) | g.labelsOf(x.Index)
			case *ssa.Index:
				l = g.labelsOf(x.X) | g.labelsOf(x.Index)
			case *ssa.Lookup:
				l = g.labelsOf(x.X) | g.labelsOf(x.Index)
			case *ssa.Slice:
				l = g.labelsOf(x.X)
			case *ssa.BinOp:
				l = g.labelsOf(x.X) | g.labelsOf(x.Y)
			case *ssa.Convert:
				l = g.labelsOf(x.X)
			case *ssa.ChangeType:
				l = g.labelsOf(x.X)
			case *ssa.ChangeInterface:
				l = g.labelsOf(x.X)
			case *ssa.MakeInterface:
				l = g.labelsOf(x.X)
			case *ssa.TypeAssert:
				l = g.labelsOf(x.X)
			case *ssa.Extract:
				if c, ok := x.Tuple.(*ssa.Call); ok {
					l = g.callResult(c, x.Index)
				} else {
					l = g.labelsOf(x.Tuple)
				}
			case *ssa.Phi:
				for _, e := range x.Edges {
					l |= g.labelsOf(e)
				}
			case *ssa.Range:
				l = g.labelsOf(x.X)
			case *ssa.Next:
				l = g.labelsOf(x.Iter)
			case *ssa.MakeClosure:
				for _, b := range x.Bindings {
					l |= g.labelsOf(b)
				}
			case *ssa.Call:
				if x.Common().Signature().Results().Len() == 1 {
					l = g.callResult(x, 0)
				} else {
					// tuple: union, refined by Extract
					for i := 0; i < x.Common().Signature().Results().Len(); i++ {
						l |= g.callResult(x, i)
					}
				}
			case *ssa.Select:
				for _, st := range x.States {
					l |= g.labelsOf(st.Chan)
				}
			}
			if l != 0 {
				set(v, l)
			}
		})
		// call effects: field stores and sinks of callees, instantiated
		allInstrs(fn, func(in ssa.Instruction) {
			ci, ok := in.(ssa.CallInstruction)
			if !ok {
				return
			}
			for _, callee := range g.p.ModCallees(ci) {
				cs := g.sum[callee]
				if cs == nil {
					continue
				}
				inputs := g.calleeInputs(ci, callee)
				for k, l := range cs.fieldStore {
					il := g.instantiate(l, inputs)
					if s.fieldStore[k]|il != s.fieldStore[k] {
						s.fieldStore[k] |= il
						grew = true
					}
					if il&labGlobal != 0 && !g.fieldTaint[k] {
						g.fieldTaint[k] = true
						grew = true
					}
				}
				il := g.instantiate(cs.sinkParams&^labGlobal, inputs)
				if s.sinkParams|(il&^labGlobal) != s.sinkParams {
					s.sinkParams |= il &^ labGlobal
					grew = true
				}
			}
			// go/defer of closures: bindings flow into the closure's free variables — handled through
			// calleeInputs when the MakeClosure is the call value
		})
		// local sinks with param labels
		for _, sk := range g.localSinks(fn) {
			if s.sinkParams|(sk.l&^labGlobal) != s.sinkParams {
				s.sinkParams |= sk.l &^ labGlobal
				grew = true
			}
		}
		if !grew {
			grew = before
			break
		}
		grew = true
	}
	return grew
}

func (g *globAnalysis) callResult(c *ssa.Call, idx int) label {
	com := c.Common()
	callees := g.p.ModCallees(c)
	var l label
	if len(callees) > 0 {
		for _, callee := range callees {
			cs := g.sum[callee]
			if cs == nil || idx >= len(cs.ret) {
				continue
			}
			l |= g.instantiate(cs.ret[idx], g.calleeInputs(c, callee))
		}
		return l
	}
	// external or dynamic callee: the result may depend on every argument and on the function value
	for _, a := range callArgs(com) {
		l |= g.labelsOf(a)
	}
	if com.StaticCallee() == nil && !com.IsInvoke() {
		l |= g.labelsOf(com.Value)
	}
	return l
}

type sinkUse struct {
	instr ssa.Instruction
	what  string
	l     label
}

func (g *globAnalysis) localSinks(fn *ssa.Function) []sinkUse {
	var out []sinkUse
	exported := fn.Parent() == nil && fn.Object() != nil && fn.Object().Exported() && g.p.PkgPath(fn) == modulePath
	allInstrs(fn, func(in ssa.Instruction) {
		switch x := in.(type) {
		case *ssa.If:
			if l := g.labelsOf(x.Cond); l != 0 {
				out = append(out, sinkUse{x, "branch condition " + describeValue(x.Cond), l})
			}
		case *ssa.Return:
			if exported {
				for _, r := range rr(x) {
					if l := g.labelsOf(r); l != 0 && !isPointerLikeType(r.Type()) {
						out = append(out, sinkUse{x, "result of exported " + fname(fn), l})
					}
				}
			}
		case ssa.CallInstruction:
			f := x.Common().StaticCallee()
			if f == nil || g.p.InModule(f) {
				return
			}
			switch classifyExternal(f) {
			case EffWriteGiven, EffStdout, EffFSMutate, EffFSRead:
				var l label
				for _, a := range callArgs(x.Common()) {
					l |= g.labelsOf(a)
				}
				// variadic ...any arguments
				for _, a := range x.Common().Args {
					if elems, ok := variadicElems(a); ok {
						for _, e := range elems {
							l |= g.labelsOf(e)
						}
					}
				}
				if l != 0 {
					out = append(out, sinkUse{in, "argument of " + f.String(), l})
				}
			}
		}
	})
	return out
}

func isPointerLikeType(t types.Type) bool {
	switch t.Underlying().(type) {
	case *types.Pointer, *types.Signature, *types.Chan:
		return true
	}
	return false
}

func ruleGLOB1(w *World) []Ob {
	l := &obs{rule: "GLOB-1"}
	for _, p := range []*Prog{w.D(), w.W()} {
		l.cfg = p.Cfg.Name
		g := &globAnalysis{p: p, fns: p.ModFuncs, sum: map[*ssa.Function]*fnSummary{}, fieldTaint: map[fieldKey]bool{}, mutable: map[*ssa.Global]string{}, val: map[ssa.Value]label{}}
		g.run()
		// enumerate globals
		nGlobals := 0
		for _, path := range sortedKeys(p.SSAPkgs) {
			pkg := p.SSAPkgs[path]
			var names []string
			for n, m := range pkg.Members {
				if _, ok := m.(*ssa.Global); ok && !strings.HasPrefix(n, "init$") {
					names = append(names, n)
				}
			}
			sort.Strings(names)
			for _, n := range names {
				gl := pkg.Members[n].(*ssa.Global)
				nGlobals++
				fid := strings.TrimPrefix(strings.TrimPrefix(path, modulePath), "/")
				if fid == "" {
					fid = "gtree"
				}
				if p.Cfg.Name == "W" && path != modulePath {
					continue
				}
				if why, mut := g.mutable[gl]; mut {
					l.ok(fid, "package-level variable "+n, p.Pos(gl.Pos()), "MUTABLE ("+why+"); flows from it are tracked: see sink obligations", true, "global-mutable")
				} else {
					l.ok(fid, "package-level variable "+n, p.Pos(gl.Pos()), "immutable: never assigned outside init, never written through", false, "global")
				}
			}
		}
		if nGlobals == 0 {
			l.undecided("-", "package-level variables", "-", "none enumerated", "global")
		}
		// sinks with GLOBAL taint
		nSinkSites := 0
		for _, fn := range p.ModFuncs {
			if p.Cfg.Name == "W" && !wOnlyFunc(w, fn) {
				continue
			}
			fid := p.FuncID(fn)
			num := numbered{}
			for _, sk := range g.localSinks(fn) {
				nSinkSites++
				if sk.l&labGlobal != 0 {
					l.bad(fid, num.name(sk.what), p.InstrPos(sk.instr), "a value derived from mutable package-level state ("+g.taintOrigin()+") decides a branch / reaches an output or result here: the outcome depends on the history of earlier library calls", "sink")
				}
			}
			// call sites passing GLOBAL-tainted values into callee sinks
			allInstrs(fn, func(in ssa.Instruction) {
				ci, ok := in.(ssa.CallInstruction)
				if !ok {
					return
				}
				for _, callee := range p.ModCallees(ci) {
					cs := g.sum[callee]
					if cs == nil {
						continue
					}
					inputs := g.calleeInputs(ci, callee)
					for i, a := range inputs {
						if cs.sinkParams&paramBit(i) != 0 && g.labelsOf(a)&labGlobal != 0 {
							l.bad(fid, num.name("argument "+describeValue(a)+" of "+calleeString(ci.Common())), p.InstrPos(in), "a value derived from mutable package-level state ("+g.taintOrigin()+") is passed to "+relFunc(callee)+", where it decides a branch or reaches an output", "sink")
						}
					}
				}
			})
		}
		// tainted fields that are read anywhere
		var tf []string
		for k := range g.fieldTaint {
			tf = append(tf, k.typ+"."+k.field)
		}
		sort.Strings(tf)
		l.ok("-", fmt.Sprintf("taint summary (%d functions, %d sink sites examined)", len(p.ModFuncs), nSinkSites), "-", "fields holding values derived from mutable package-level state: "+strings.Join(tf, ", ")+" — none of them reaches a branch, output or result unless reported", true, "summary")
	}
	return l.list
}

func (g *globAnalysis) taintOrigin() string {
	var names []string
	for gl := range g.mutable {
		names = append(names, gl.Name())
	}
	sort.Strings(names)
	return strings.Join(names, ", ")
}

// ---------------------------------------------------------------------------------------------
// GLOB-3

func ruleGLOB3(w *World) []Ob {
	l := &obs{rule: "GLOB-3"}
	for _, p := range []*Prog{w.D(), w.W()} {
		l.cfg = p.Cfg.Name
		// accumulating calls: setBranch/setPath on n where an argument is n.branch()/n.path() of the same n
		type need struct{ param int } // the function needs its param i to be clean on entry
		needs := map[*ssa.Function]map[int]string{}
		isCacheGetter := func(c *ssa.Call) (ssa.Value, bool) {
			f := c.Common().StaticCallee()
			if f == nil || recvTypeName(f) != "Node" || (fname(f) != "branch" && fname(f) != "path") {
				return nil, false
			}
			return c.Common().Args[0], true
		}
		// which caches a Node method empties: calls of setBranch("") / setPath("") on its receiver (one level of helpers)
		resetKinds := map[*ssa.Function]map[string]bool{}
		for _, f := range libFuncs(p) {
			if recvTypeName(f) != "Node" || f.Parent() != nil {
				continue
			}
			kinds := map[string]bool{}
			allInstrs(f, func(in ssa.Instruction) {
				if st, ok := in.(*ssa.Store); ok {
					// n.brnch = branch{} / n.brnch.value = "" / n.brnch.path = ""
					if fa, ok := st.Addr.(*ssa.FieldAddr); ok {
						_, fld, _ := fieldOf(fa)
						zero := false
						if c, isC := st.Val.(*ssa.Const); isC && (c.Value == nil || c.Value.ExactString() == `""`) {
							zero = true
						}
						if zero && sameVar(baseObject(fa), f.Params[0]) {
							switch fld {
							case "brnch":
								kinds["Branch"], kinds["Path"] = true, true
							case "value":
								kinds["Branch"] = true
							case "path":
								kinds["Path"] = true
							}
						}
					}
				}
				c, ok := in.(*ssa.Call)
				if !ok || c.Common().StaticCallee() == nil || recvTypeName(c.Common().StaticCallee()) != "Node" {
					return
				}
				n := fname(c.Common().StaticCallee())
				if (n != "setBranch" && n != "setPath") || !sameVar(c.Common().Args[0], f.Params[0]) {
					return
				}
				elems, ok := variadicElems(c.Common().Args[1])
				if !ok {
					return
				}
				empty := true
				for _, e := range elems {
					if s, isS := constString(e); !isS || s != "" {
						empty = false
					}
				}
				if empty {
					kinds[strings.TrimPrefix(n, "set")] = true
				}
			})
			if len(kinds) > 0 {
				resetKinds[f] = kinds
			}
		}
		cleans := func(c ssa.CallInstruction, kind string) (ssa.Value, bool) {
			f := c.Common().StaticCallee()
			if f == nil || !resetKinds[f][kind] {
				return nil, false
			}
			return c.Common().Args[0], true
		}
		// does the value x (string) derive from getter on node n?
		fromGetterOn := func(x ssa.Value, n ssa.Value) bool {
			seen := map[ssa.Value]bool{}
			var rec func(v ssa.Value, d int) bool
			rec = func(v ssa.Value, d int) bool {
				if d > 4 || seen[v] {
					return false
				}
				seen[v] = true
				switch y := v.(type) {
				case *ssa.Call:
					if recv, ok := isCacheGetter(y); ok {
						return sameVar(recv, n)
					}
				case *ssa.Phi:
					for _, e := range y.Edges {
						if rec(e, d+1) {
							return true
						}
					}
				case *ssa.BinOp:
					return rec(y.X, d+1) || rec(y.Y, d+1)
				}
				return false
			}
			return rec(x, 0)
		}
		type site struct {
			fn    *ssa.Function
			instr ssa.Instruction
			node  ssa.Value
			what  string
			kind  string
		}
		var sites []site
		for _, fn := range libFuncs(p) {
			allInstrs(fn, func(in ssa.Instruction) {
				c, ok := in.(*ssa.Call)
				if !ok {
					return
				}
				f := c.Common().StaticCallee()
				if f == nil || recvTypeName(f) != "Node" || (fname(f) != "setBranch" && fname(f) != "setPath") {
					return
				}
				n := c.Common().Args[0]
				elems, ok := variadicElems(c.Common().Args[1])
				if !ok {
					return
				}
				for _, e := range elems {
					if fromGetterOn(e, n) {
						sites = append(sites, site{fn, c, n, fname(f) + " extending the node's previous " + strings.TrimPrefix(fname(f), "set"), strings.TrimPrefix(fname(f), "set")})
						return
					}
				}
			})
		}
		if len(sites) == 0 {
			l.undecided("-", "accumulating setBranch/setPath calls", "-", "none found: the branch assembly no longer has the expected shape", "accumulate")
			continue
		}
		// propagate the need for a clean node up the call graph until a dominating clean() is found
		type obligation struct {
			fn    *ssa.Function
			instr ssa.Instruction
			node  ssa.Value
			chain []string
			kind  string
		}
		work := []obligation{}
		for _, s := range sites {
			work = append(work, obligation{s.fn, s.instr, s.node, []string{p.FuncID(s.fn) + ": " + s.what}, s.kind})
		}
		seenNeed := map[string]bool{}
		reported := map[string]bool{}
		for len(work) > 0 {
			o := work[0]
			work = work[1:]
			// is there a clean() on the same node dominating o.instr in o.fn?
			dominated := false
			allInstrs(o.fn, func(in ssa.Instruction) {
				ci, ok := in.(ssa.CallInstruction)
				if !ok {
					return
				}
				if recv, ok := cleans(ci, o.kind); ok && sameVar(recv, o.node) {
					if (in.Block() == o.instr.Block() && instrIndex(in) < instrIndex(o.instr)) || (in.Block() != o.instr.Block() && in.Block().Dominates(o.instr.Block())) {
						dominated = true
					}
				}
			})
			if dominated {
				key := p.FuncID(o.fn) + "|" + strings.Join(o.chain, ">")
				if !reported[key] {
					reported[key] = true
					l.ok(p.FuncID(o.fn), "clean() before "+shortChain(o.chain), p.InstrPos(o.instr), "the node's cache is cleared on a dominating path before it is extended", true, "accumulate")
				}
				continue
			}
			// the node must be an input of o.fn; push the obligation to the callers
			idx := -1
			if prm, ok := resolve(o.node).(*ssa.Parameter); ok {
				idx = inputIndex(o.fn, prm)
			} else if prm, ok := o.node.(*ssa.Parameter); ok {
				idx = inputIndex(o.fn, prm)
			}
			if idx < 0 {
				l.bad(p.FuncID(o.fn), "clean() before "+shortChain(o.chain), p.InstrPos(o.instr), "the node's cached branch/path is extended without having been cleared on this route: repeating an operation on the same tree appends to the previous result", "accumulate")
				continue
			}
			if needs[o.fn] == nil {
				needs[o.fn] = map[int]string{}
			}
			callers := p.Callers(o.fn)
			if len(callers) == 0 {
				l.bad(p.FuncID(o.fn), "clean() before "+shortChain(o.chain), p.InstrPos(o.instr), "no caller clears the node's cache before it is extended", "accumulate")
				continue
			}
			for _, ci := range callers {
				args := callArgs(ci.Common())
				if idx >= len(args) {
					continue
				}
				key := fmt.Sprintf("%p|%d|%s", ci, idx, strings.Join(o.chain, ">"))
				if seenNeed[key] || len(o.chain) > 6 {
					continue
				}
				seenNeed[key] = true
				if ci.Parent() == o.fn {
					// recursion on a different node (child): the callee clears or not independently
					if !sameVar(args[idx], o.node) {
						// recursive call with another node: same obligation holds by induction on that node
						continue
					}
				}
				chain := append(append([]string{}, o.chain...), p.FuncID(ci.Parent()))
				work = append(work, obligation{ci.Parent(), ci.(ssa.Instruction), args[idx], chain, o.kind})
			}
		}
	}
	for _, pp := range []*Prog{w.D(), w.W()} {
		for _, o := range memoObligations(w, pp) {
			l.add(o)
		}
	}
	// only the default build lets a caller keep a tree and use it again (NewRoot/Add + the FromRoot operations);
	// the tinywasm variant builds a fresh tree inside its single Output call, so a write there is not observable
	for _, o := range structureObligations(w, w.D()) {
		l.add(o)
	}
	// node.go is shared by both variants; the default configuration covers it
	for _, o := range setterObligations(w, w.D()) {
		l.add(o)
	}
	return l.list
}

func shortChain(c []string) string {
	if len(c) == 1 {
		return c[0]
	}
	return c[0] + " via " + strings.Join(c[1:], " <- ")
}

// memoObligations: whether and how a node is (re)assembled must not depend on what earlier operations left on the
// node.  In the growers' traversal functions no branch condition may read a field of Node (or of the structs nested in
// it) that the growing itself writes: such a condition is a cache test, and the tree can have changed since.
func memoObligations(w *World, p *Prog) []Ob {
	var out []Ob
	isNodeStruct := func(t types.Type) bool {
		if pt, ok := t.Underlying().(*types.Pointer); ok {
			t = pt.Elem()
		}
		n := namedOf(t)
		if n == nil || n.Obj().Pkg() == nil || n.Obj().Pkg().Path() != modulePath {
			return false
		}
		if typeName(n) == "Node" {
			return true
		}
		// struct types nested by value in Node
		if nd := lookupByCanonName(n.Obj().Pkg().Scope(), "Node"); nd != nil {
			if st, ok := nd.Type().Underlying().(*types.Struct); ok {
				for i := 0; i < st.NumFields(); i++ {
					if types.Identical(st.Field(i).Type(), n) {
						return true
					}
				}
			}
		}
		return false
	}
	var roots []*ssa.Function
	for _, fn := range libFuncs(p) {
		if fn.Parent() == nil && strings.Contains(recvTypeName(fn), "rower") {
			roots = append(roots, fn)
		}
	}
	if len(roots) == 0 {
		return []Ob{{Rule: "GLOB-3", Cfg: p.Cfg.Name, Func: "-", Construct: "grower traversal functions", Pos: "-", Status: Undecided, Nontrivial: true, Role: "memo", Detail: "no grower methods found"}}
	}
	reach := reachableFrom(p, roots, nil)
	written := map[string]string{}
	for fn := range reach {
		fn := fn
		allInstrs(fn, func(in ssa.Instruction) {
			if st, ok := in.(*ssa.Store); ok {
				if fa, ok := st.Addr.(*ssa.FieldAddr); ok && isNodeStruct(fa.X.Type()) {
					written[fieldName(fa.X.Type(), fa.Field)] = p.FuncID(fn)
				}
			}
		})
	}
	// fields of the node read by a Node method (transitively)
	readsMemo := map[*ssa.Function]map[string]bool{}
	var reads func(f *ssa.Function, depth int) map[string]bool
	reads = func(f *ssa.Function, depth int) map[string]bool {
		if m, ok := readsMemo[f]; ok {
			return m
		}
		m := map[string]bool{}
		readsMemo[f] = m
		if depth > 4 || f.Blocks == nil {
			return m
		}
		allInstrs(f, func(in ssa.Instruction) {
			switch x := in.(type) {
			case *ssa.UnOp:
				if fa, ok := x.X.(*ssa.FieldAddr); ok && x.Op == token.MUL && isNodeStruct(fa.X.Type()) {
					m[fieldName(fa.X.Type(), fa.Field)] = true
				}
			case *ssa.Field:
				if isNodeStruct(x.X.Type()) {
					m[fieldName(x.X.Type(), x.Field)] = true
				}
			case *ssa.Call:
				if g := x.Common().StaticCallee(); g != nil && p.InModule(g) && recvTypeName(g) == "Node" {
					for k := range reads(g, depth+1) {
						m[k] = true
					}
				}
			}
		})
		return m
	}
	var slice func(v ssa.Value, seen map[ssa.Value]bool, acc map[string]bool, d int)
	slice = func(v ssa.Value, seen map[ssa.Value]bool, acc map[string]bool, d int) {
		if v == nil || seen[v] || d > 8 {
			return
		}
		seen[v] = true
		switch x := v.(type) {
		case *ssa.UnOp:
			if fa, ok := x.X.(*ssa.FieldAddr); ok && x.Op == token.MUL && isNodeStruct(fa.X.Type()) {
				acc[fieldName(fa.X.Type(), fa.Field)] = true
				return
			}
			slice(x.X, seen, acc, d+1)
		case *ssa.Field:
			if isNodeStruct(x.X.Type()) {
				acc[fieldName(x.X.Type(), x.Field)] = true
			}
			slice(x.X, seen, acc, d+1)
		case *ssa.BinOp:
			slice(x.X, seen, acc, d+1)
			slice(x.Y, seen, acc, d+1)
		case *ssa.Phi:
			for _, e := range x.Edges {
				slice(e, seen, acc, d+1)
			}
		case *ssa.Call:
			// an error verdict about the node as it has just been assembled (validatePath and the like) is not a
			// remembered result: testing it against nil decides nothing about reuse
			if isErrorType(x.Type()) {
				return
			}
			if g := x.Common().StaticCallee(); g != nil && p.InModule(g) && recvTypeName(g) == "Node" {
				for k := range reads(g, 0) {
					acc[k] = true
				}
			}
		case *ssa.Extract:
			slice(x.Tuple, seen, acc, d+1)
		case *ssa.Convert:
			slice(x.X, seen, acc, d+1)
		case *ssa.ChangeType:
			slice(x.X, seen, acc, d+1)
		}
	}
	var fns []*ssa.Function
	for fn := range reach {
		if strings.Contains(recvTypeName(fn), "rower") {
			fns = append(fns, fn)
		}
	}
	sort.Slice(fns, func(i, j int) bool { return p.FuncID(fns[i]) < p.FuncID(fns[j]) })
	for _, fn := range fns {
		if p.Cfg.Name == "W" && !wOnlyFunc(w, fn) {
			continue
		}
		var hits []string
		nIf := 0
		allInstrs(fn, func(in ssa.Instruction) {
			iff, ok := in.(*ssa.If)
			if !ok {
				return
			}
			nIf++
			acc := map[string]bool{}
			slice(iff.Cond, map[ssa.Value]bool{}, acc, 0)
			for k := range acc {
				if by, isW := written[k]; isW {
					hits = append(hits, fmt.Sprintf("the condition at %s reads the node's %s, which growing itself writes (%s)", p.InstrPos(iff), k, by))
				}
			}
		})
		if nIf == 0 {
			continue
		}
		ob := Ob{Rule: "GLOB-3", Cfg: p.Cfg.Name, Func: p.FuncID(fn), Construct: "assembly does not depend on what an earlier operation left on the node", Pos: p.Pos(fn.Pos()), Nontrivial: nIf > 0, Role: "memo"}
		if len(hits) > 0 {
			sort.Strings(hits)
			ob.Status, ob.Detail = Violation, strings.Join(dedup(hits), "; ")+": a remembered result is reused although the tree (children added below, a sibling added, other options) may have changed since — rows, paths or validation then reflect the earlier state"
		} else {
			ob.Status, ob.Detail = OK, fmt.Sprintf("%d branch condition(s), none reads a node field written while growing (%s)", nIf, strings.Join(sortedKeys(written), ", "))
		}
		out = append(out, ob)
	}
	return out
}

// ownedTypeNames: the named module struct types reachable from t through pointers, struct fields, slices, arrays and maps.
func ownedTypeNames(t types.Type) []string {
	seen := map[string]bool{}
	var out []string
	var walk func(t types.Type, d int)
	walk = func(t types.Type, d int) {
		if t == nil || d > 8 {
			return
		}
		if pt, ok := types.Unalias(t).(*types.Pointer); ok {
			walk(pt.Elem(), d+1)
			return
		}
		if n, ok := types.Unalias(t).(*types.Named); ok {
			if n.Obj().Pkg() == nil || !strings.HasPrefix(n.Obj().Pkg().Path(), modulePath) {
				return
			}
			nm := typeName(n)
			if seen[nm] {
				return
			}
			seen[nm] = true
			if _, isStruct := n.Underlying().(*types.Struct); isStruct {
				out = append(out, nm)
			}
		}
		switch u := t.Underlying().(type) {
		case *types.Pointer:
			walk(u.Elem(), d+1)
		case *types.Struct:
			for i := 0; i < u.NumFields(); i++ {
				walk(u.Field(i).Type(), d+1)
			}
		case *types.Slice:
			walk(u.Elem(), d+1)
		case *types.Array:
			walk(u.Elem(), d+1)
		case *types.Map:
			walk(u.Elem(), d+1)
		}
	}
	walk(t, 0)
	return out
}

// sharedTypeNames: the named module struct types whose objects are shared (not copied) when a value of type t is
// handed out: through pointers, slices, maps, channels and interfaces, also when these sit inside value structs or arrays.
func sharedTypeNames(t types.Type) []string {
	seen := map[string]bool{}
	var out []string
	var walk func(t types.Type, d int)
	walk = func(t types.Type, d int) {
		if t == nil || d > 8 {
			return
		}
		switch u := types.Unalias(t).Underlying().(type) {
		case *types.Pointer:
			for _, n := range ownedTypeNames(u.Elem()) {
				if !seen[n] {
					seen[n] = true
					out = append(out, n)
				}
			}
		case *types.Slice:
			for _, n := range ownedTypeNames(u.Elem()) {
				if !seen[n] {
					seen[n] = true
					out = append(out, n)
				}
			}
		case *types.Map:
			for _, n := range ownedTypeNames(u.Elem()) {
				if !seen[n] {
					seen[n] = true
					out = append(out, n)
				}
			}
		case *types.Struct:
			for i := 0; i < u.NumFields(); i++ {
				walk(u.Field(i).Type(), d+1)
			}
		case *types.Array:
			walk(u.Elem(), d+1)
		}
	}
	walk(t, 0)
	return out
}

// structureObligations: the shape of a tree (names, levels, parent links, child lists and their order) is written only
// while the tree is built — by newNode / addChild / setParent and the literal that creates a node.  Every operation
// that consumes a tree (walk, output, mkdir, verify) leaves it as it found it, so that using a tree does not change
// what the next use sees.  Handing a node's child list to an in-place library mutator counts as a write.
func structureObligations(w *World, p *Prog) []Ob {
	var out []Ob
	structural := map[string]bool{"name": true, "hierarchy": true, "parent": true, "children": true}
	builders := map[string]bool{"newNode": true, "addChild": true, "setParent": true}
	isChildrenLoad := func(v ssa.Value) bool {
		if ld, ok := isLoad(stripConv(v)); ok {
			if fa, ok := ld.(*ssa.FieldAddr); ok {
				if tn, f, _ := fieldOf(fa); tn == "Node" && f == "children" {
					return true
				}
			}
		}
		return false
	}
	inPlace := map[string]bool{"slices.Reverse": true, "slices.Sort": true, "slices.SortFunc": true, "slices.SortStableFunc": true, "sort.Slice": true, "sort.SliceStable": true, "sort.Sort": true, "sort.Stable": true, "math/rand.Shuffle": true}
	n := 0
	for _, fn := range libFuncs(p) {
		if p.Cfg.Name == "W" && !wOnlyFunc(w, fn) {
			continue
		}
		if recvTypeName(fn) == "Node" && builders[fname(outermost(fn))] || builders[fname(outermost(fn))] {
			continue
		}
		fn := fn
		var bad []string
		allInstrs(fn, func(in ssa.Instruction) {
			switch x := in.(type) {
			case *ssa.Store:
				switch a := x.Addr.(type) {
				case *ssa.FieldAddr:
					tn, f, _ := fieldOf(a)
					if tn != "Node" || !structural[f] {
						return
					}
					if _, fresh := a.X.(*ssa.Alloc); fresh {
						return // the literal that creates the node
					}
					bad = append(bad, "writes Node."+f+" at "+p.InstrPos(x))
				case *ssa.IndexAddr:
					if isChildrenLoad(a.X) {
						bad = append(bad, "overwrites an element of a child list at "+p.InstrPos(x))
					}
				}
			case *ssa.Call:
				// append onto a child list (or a prefix / alias of one) without storing the result back into the node:
				// the extra elements land in the list's own backing array when it has room, or over its tail when the
				// operand is a prefix — an explicit work stack that starts as `pending := n.children` does exactly that
				if isBuiltinCall(x, "append") && len(x.Common().Args) > 0 {
					seen := map[ssa.Value]bool{}
					var aliases func(v ssa.Value, d int) bool
					aliases = func(v ssa.Value, d int) bool {
						if v == nil || seen[v] || d > 6 {
							return false
						}
						seen[v] = true
						if isChildrenLoad(v) {
							return true
						}
						switch y := v.(type) {
						case *ssa.Slice:
							return aliases(y.X, d+1)
						case *ssa.Phi:
							for _, e := range y.Edges {
								if aliases(e, d+1) {
									return true
								}
							}
						case *ssa.Call:
							if isBuiltinCall(y, "append") && len(y.Common().Args) > 0 {
								return aliases(y.Common().Args[0], d+1)
							}
						case *ssa.UnOp:
							if r := resolve(y); r != ssa.Value(y) {
								return aliases(r, d+1)
							}
						}
						return false
					}
					if aliases(x.Common().Args[0], 0) {
						bad = append(bad, "appends onto (an alias or prefix of) a node's child list at "+p.InstrPos(x)+" without that being the list's own growth")
					}
					return
				}
				callee := x.Common().StaticCallee()
				if callee == nil {
					return
				}
				name := callee.String()
				if o := callee.Origin(); o != nil {
					name = o.String()
				}
				if !inPlace[name] {
					return
				}
				for _, a := range x.Common().Args {
					v := a
					if mi, ok := v.(*ssa.MakeInterface); ok {
						v = mi.X
					}
					if isChildrenLoad(v) {
						bad = append(bad, "reorders a child list in place with "+name+" at "+p.InstrPos(x))
					}
					// a parameter that call sites fill with a child list
					if prm, ok := resolve(v).(*ssa.Parameter); ok && prm.Parent() == fn {
						i := paramIndex(fn, prm)
						for _, ci := range p.Callers(fn) {
							args := callArgs(ci.Common())
							if i < len(args) && isChildrenLoad(args[i]) {
								bad = append(bad, "reorders in place (with "+name+" at "+p.InstrPos(x)+") the child list it is handed at "+p.InstrPos(ci.(ssa.Instruction)))
							}
						}
					}
				}
			}
		})
		if len(bad) > 0 {
			n++
			sort.Strings(bad)
			out = append(out, Ob{Rule: "GLOB-3", Cfg: p.Cfg.Name, Func: p.FuncID(fn), Construct: "the tree's shape is written only while it is built", Pos: p.Pos(fn.Pos()), Status: Violation, Nontrivial: true, Role: "structure",
				Detail: strings.Join(dedup(bad), "; ") + ": an operation that consumes a tree changes it, so the next operation on the same tree (or the caller's own view of it) sees a different tree"})
		}
	}
	if n == 0 {
		out = append(out, Ob{Rule: "GLOB-3", Cfg: p.Cfg.Name, Func: "-", Construct: "the tree's shape is written only while it is built", Pos: "-", Status: OK, Nontrivial: true, Role: "structure",
			Detail: "Node.name / hierarchy / parent / children and the elements of child lists are stored only by newNode, addChild, setParent and node literals; no child list is handed to an in-place sort / reverse"})
	}
	return out
}

// setterObligations: a Node method that writes the node's cached branch or path writes it on every route to its
// return.  The growers assemble the cache by calling these setters in a fixed order (clear, then extend); a setter
// that can return without storing leaves what an earlier stage — or an earlier operation — put there.
func setterObligations(w *World, p *Prog) []Ob {
	var out []Ob
	n := 0
	for _, fn := range libFuncs(p) {
		if recvTypeName(fn) != "Node" || fn.Parent() != nil || len(fn.Blocks) == 0 {
			continue
		}
		storeBlocks := map[string]map[*ssa.BasicBlock]bool{}
		allInstrs(fn, func(in ssa.Instruction) {
			st, ok := in.(*ssa.Store)
			if !ok {
				return
			}
			fa, ok := st.Addr.(*ssa.FieldAddr)
			if !ok || !sameVar(baseObject(fa), fn.Params[0]) {
				return
			}
			tn, f, _ := fieldOf(fa)
			var keys []string
			switch {
			case tn == "branch" && (f == "value" || f == "path"):
				keys = []string{f}
			case tn == "Node" && f == "brnch":
				keys = []string{"value", "path"}
			}
			for _, k := range keys {
				if storeBlocks[k] == nil {
					storeBlocks[k] = map[*ssa.BasicBlock]bool{}
				}
				storeBlocks[k][in.Block()] = true
			}
		})
		var keys []string
		for k := range storeBlocks {
			keys = append(keys, k)
		}
		sort.Strings(keys)
		for _, k := range keys {
			n++
			// is a return reachable from the entry without passing a block that stores the field?
			seen := map[*ssa.BasicBlock]bool{}
			var escape *ssa.BasicBlock
			var walk func(b *ssa.BasicBlock)
			walk = func(b *ssa.BasicBlock) {
				if seen[b] || storeBlocks[k][b] || escape != nil {
					return
				}
				seen[b] = true
				if len(b.Instrs) > 0 {
					if _, isRet := b.Instrs[len(b.Instrs)-1].(*ssa.Return); isRet {
						escape = b
						return
					}
				}
				for _, s := range b.Succs {
					walk(s)
				}
			}
			walk(fn.Blocks[0])
			ob := Ob{Rule: "GLOB-3", Cfg: p.Cfg.Name, Func: p.FuncID(fn), Construct: "a setter of the node's cached " + k + " stores on every route", Pos: p.Pos(fn.Pos()), Nontrivial: true, Role: "setter"}
			// "nothing to add" decided from the arguments alone (len(parts) == 0) is not a remembered state: only a
			// return that depends on the node itself can keep an earlier stage's value alive
			if escape != nil {
				onNode := false
				for _, g := range guardsOf(escape) {
					if dependsOnValue(g.Cond, fn.Params[0], 0) {
						onNode = true
					}
					// loads of the receiver's fields
					var refs func(v ssa.Value, d int) bool
					refs = func(v ssa.Value, d int) bool {
						if d > 4 || v == nil {
							return false
						}
						if _, _, isF := fieldOfLoad(v); isF {
							return true
						}
						switch y := v.(type) {
						case *ssa.BinOp:
							return refs(y.X, d+1) || refs(y.Y, d+1)
						case *ssa.UnOp:
							return refs(y.X, d+1)
						case *ssa.Call:
							for _, a := range y.Common().Args {
								if refs(a, d+1) {
									return true
								}
							}
						}
						return false
					}
					if refs(g.Cond, 0) {
						onNode = true
					}
				}
				if len(guardsOf(escape)) > 0 && !onNode {
					escape = nil
				}
			}
			if escape != nil {
				ob.Status = Violation
				ob.Detail = "the return at " + p.InstrPos(escape.Instrs[len(escape.Instrs)-1]) + " is reached without storing the node's " + k + ": the caller's clear / extend sequence silently keeps whatever was cached before"
			} else {
				ob.Status = OK
				ob.Detail = "every route from entry to a return passes a store to the receiver's " + k
			}
			out = append(out, ob)
		}
	}
	if n == 0 {
		out = append(out, Ob{Rule: "GLOB-3", Cfg: p.Cfg.Name, Func: "-", Construct: "setters of the node's cached branch / path", Pos: "-", Status: Undecided, Nontrivial: true, Role: "setter", Detail: "no Node method stores branch.value / branch.path: the cache no longer has the expected shape"})
	}
	return out
}
