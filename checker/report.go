package main

import (
	"bufio"
	"encoding/json"
	"fmt"
	"os"
	"path/filepath"
	"sort"
	"strings"
)

type Status int

const (
	OK Status = iota
	Violation
	Undecided
)

func (s Status) String() string {
	switch s {
	case OK:
		return "ok"
	case Violation:
		return "violation"
	}
	return "undecided"
}

// Ob is one obligation: a rule instantiated at one construct of the analysed source.
type Ob struct {
	Rule       string   `json:"rule"`
	Cfg        string   `json:"cfg"`
	Func       string   `json:"func"`
	Construct  string   `json:"construct"`
	Pos        string   `json:"pos"`
	Status     Status   `json:"-"`
	StatusText string   `json:"status"`
	Detail     string   `json:"detail,omitempty"`
	Nontrivial bool     `json:"nontrivial,omitempty"`
	Path       []string `json:"path,omitempty"`
	Scope      string   `json:"scope,omitempty"` // lib / cli / markdown / pipeline … used by property filters
	Role       string   `json:"role,omitempty"`  // role for vacuity floors
}

// Key identifies an obligation independent of line numbers.
func (o Ob) Key() string {
	k := o.Rule + " | " + o.Func + " | " + o.Construct
	if o.Cfg != "" && o.Cfg != "D" {
		k = o.Cfg + ": " + k
	}
	return k
}

type obs struct {
	list []Ob
	rule string
	cfg  string
}

func (l *obs) add(o Ob) {
	if o.Rule == "" {
		o.Rule = l.rule
	}
	if o.Cfg == "" {
		o.Cfg = l.cfg
	}
	l.list = append(l.list, o)
}

func (l *obs) ok(fn, construct, pos, detail string, nontrivial bool, role string) {
	l.add(Ob{Func: fn, Construct: construct, Pos: pos, Status: OK, Detail: detail, Nontrivial: nontrivial, Role: role})
}
func (l *obs) bad(fn, construct, pos, detail string, role string) {
	l.add(Ob{Func: fn, Construct: construct, Pos: pos, Status: Violation, Detail: detail, Nontrivial: true, Role: role})
}
func (l *obs) undecided(fn, construct, pos, detail string, role string) {
	l.add(Ob{Func: fn, Construct: construct, Pos: pos, Status: Undecided, Detail: detail, Nontrivial: true, Role: role})
}

// ---------------------------------------------------------------------------------------------
// known findings file (text, one entry per line):
//   known: property=<id> key=<obligation key> :: <what fails>
//   fixed: property=<id> <commit> <what failed>

type knownFinding struct {
	Property string
	Key      string
	What     string
}

func loadKnown(path string) ([]knownFinding, []string, error) {
	f, err := os.Open(path)
	if err != nil {
		if os.IsNotExist(err) {
			return nil, nil, nil
		}
		return nil, nil, err
	}
	defer f.Close()
	var known []knownFinding
	var fixed []string
	sc := bufio.NewScanner(f)
	sc.Buffer(make([]byte, 1<<20), 1<<20)
	for sc.Scan() {
		line := strings.TrimSpace(sc.Text())
		switch {
		case strings.HasPrefix(line, "known:"):
			rest := strings.TrimSpace(strings.TrimPrefix(line, "known:"))
			if !strings.HasPrefix(rest, "property=") {
				return nil, nil, fmt.Errorf("bad known line: %s", line)
			}
			sp := strings.SplitN(rest, " ", 2)
			if len(sp) != 2 {
				return nil, nil, fmt.Errorf("bad known line: %s", line)
			}
			prop := strings.TrimPrefix(sp[0], "property=")
			kv := strings.SplitN(sp[1], " :: ", 2)
			if !strings.HasPrefix(kv[0], "key=") {
				return nil, nil, fmt.Errorf("bad known line: %s", line)
			}
			k := knownFinding{Property: prop, Key: strings.TrimPrefix(kv[0], "key=")}
			if len(kv) == 2 {
				k.What = kv[1]
			}
			known = append(known, k)
		case strings.HasPrefix(line, "fixed:"):
			fixed = append(fixed, line)
		}
	}
	return known, fixed, sc.Err()
}

// ---------------------------------------------------------------------------------------------
// evidence

type evidence struct {
	PropertyID  string         `json:"property_id"`
	Tier        string         `json:"tier"`
	Seed        int64          `json:"seed"`
	Level       string         `json:"level"`
	Coverage    map[string]any `json:"coverage"`
	Assumptions []string       `json:"assumptions"`
	WallS       float64        `json:"wall_s"`
	Violations  int            `json:"violations"`
}

func writeJSON(path string, v any) error {
	if err := os.MkdirAll(filepath.Dir(path), 0o755); err != nil {
		return err
	}
	b, err := json.MarshalIndent(v, "", " ")
	if err != nil {
		return err
	}
	tmp := path + ".tmp"
	if err := os.WriteFile(tmp, append(b, '\n'), 0o644); err != nil {
		return err
	}
	return os.Rename(tmp, path)
}

func sortObs(l []Ob) {
	sort.SliceStable(l, func(i, j int) bool {
		if l[i].Rule != l[j].Rule {
			return l[i].Rule < l[j].Rule
		}
		if l[i].Cfg != l[j].Cfg {
			return l[i].Cfg < l[j].Cfg
		}
		if l[i].Func != l[j].Func {
			return l[i].Func < l[j].Func
		}
		return l[i].Construct < l[j].Construct
	})
}

func safeName(s string) string {
	var b strings.Builder
	for _, r := range s {
		switch {
		case r >= 'a' && r <= 'z', r >= 'A' && r <= 'Z', r >= '0' && r <= '9', r == '-', r == '_', r == '.':
			b.WriteRune(r)
		default:
			b.WriteByte('_')
		}
	}
	out := b.String()
	if len(out) > 120 {
		out = out[:120]
	}
	return out
}
