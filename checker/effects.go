package main

// Effect table: how calls that leave the module are classified.  Traversal of the call graph
// stays inside the module; an external callee is a leaf whose class comes from this table.

import (
	"strings"

	"golang.org/x/tools/go/ssa"
)

type Effect int

const (
	EffPure Effect = iota
	EffWriteGiven   // writes to a writer it is handed (fmt.Fprint, io.WriteString, Encoder.Encode…)
	EffStdout       // writes to the process's stdout (fmt.Print*, println)
	EffFSRead
	EffFSMutate
	EffProcess      // ends the process / goroutine
	EffExec         // exec / network
	EffUnclassified // in an effectful package but not in the table
)

func (e Effect) String() string {
	return [...]string{"pure", "writes-to-given-writer", "stdout", "fs-read", "fs-mutate", "process", "exec/net", "unclassified"}[e]
}

var purePkgs = map[string]bool{
	"strings": true, "bytes": true, "errors": true, "strconv": true, "unicode": true, "unicode/utf8": true,
	"sort": true, "slices": true, "maps": true, "path": true, "sync": true, "sync/atomic": true, "context": true,
	"iter": true, "container/list": true, "time": true, "math": true, "reflect": true, "runtime": true,
	"golang.org/x/sync/errgroup": true, "github.com/fatih/color": true, "html/template": true,
	"github.com/urfave/cli/v2": true, "syscall/js": true, "bufio": true, "encoding/json": true,
	"gopkg.in/yaml.v3": true, "github.com/pelletier/go-toml/v2": true, "internal/race": true,
}

var fsMutate = map[string]bool{
	"os.Mkdir": true, "os.MkdirAll": true, "os.MkdirTemp": true, "os.Create": true, "os.CreateTemp": true,
	"os.OpenFile": true, "os.WriteFile": true, "os.Remove": true, "os.RemoveAll": true, "os.Rename": true,
	"os.Symlink": true, "os.Link": true, "os.Truncate": true, "os.Chmod": true, "os.Chown": true,
	"os.Lchown": true, "os.Chtimes": true, "os.Chdir": true, "os.CopyFS": true,
	"(*os.File).Write": true, "(*os.File).WriteString": true, "(*os.File).WriteAt": true, "(*os.File).Truncate": true,
	"(*os.File).Chmod": true, "(*os.File).Chown": true, "(*os.File).ReadFrom": true, "(*os.File).Sync": true,
	"(*os.Root).Mkdir": true, "(*os.Root).Create": true, "(*os.Root).OpenFile": true, "(*os.Root).Remove": true,
	"(*os.Root).MkdirAll": true, "(*os.Root).RemoveAll": true, "(*os.Root).Rename": true, "(*os.Root).WriteFile": true,
}

var fsRead = map[string]bool{
	"os.Stat": true, "os.Lstat": true, "os.Open": true, "os.ReadDir": true, "os.ReadFile": true, "os.DirFS": true,
	"os.Getwd": true, "os.IsNotExist": true, "os.IsExist": true, "os.Getenv": true, "os.LookupEnv": true, "os.Readlink": true,
	"io/fs.WalkDir": true, "io/fs.ReadDir": true, "io/fs.Stat": true, "io/fs.ReadFile": true, "io/fs.Glob": true,
	"(*os.File).Close": true, "(*os.File).Stat": true, "(*os.File).Read": true, "(*os.File).Name": true, "(*os.File).Fd": true,
	"(*os.File).ReadDir": true, "(*os.File).Readdir": true, "(*os.File).Readdirnames": true, "(*os.File).Seek": true,
	"os.OpenRoot": true, "(*os.Root).Open": true, "(*os.Root).Stat": true, "(*os.Root).Lstat": true, "(*os.Root).Close": true,
	"path/filepath.WalkDir": true, "path/filepath.Walk": true, "path/filepath.Glob": true, "path/filepath.Abs": true, "path/filepath.EvalSymlinks": true,
}

var pureOS = map[string]bool{"os.Exit": false}

var processFns = map[string]bool{
	"os.Exit": true, "log.Fatal": true, "log.Fatalf": true, "log.Fatalln": true, "runtime.Goexit": true,
	"log.Panic": true, "log.Panicf": true, "log.Panicln": true, "(*log.Logger).Fatal": true, "(*log.Logger).Fatalf": true,
	"(*log.Logger).Fatalln": true, "(*log.Logger).Panic": true, "(*log.Logger).Panicf": true, "syscall.Exit": true,
}

var writeGiven = map[string]bool{
	"fmt.Fprint": true, "fmt.Fprintf": true, "fmt.Fprintln": true, "io.WriteString": true, "io.Copy": true, "io.CopyN": true, "io.CopyBuffer": true,
	"(*bufio.Writer).Write": true, "(*bufio.Writer).WriteString": true, "(*bufio.Writer).WriteByte": true, "(*bufio.Writer).WriteRune": true,
	"(*bufio.Writer).Flush": true, "(*bufio.Writer).ReadFrom": true,
	"(*encoding/json.Encoder).Encode": true, "(*gopkg.in/yaml.v3.Encoder).Encode": true, "(*gopkg.in/yaml.v3.Encoder).Close": true,
	"(*github.com/pelletier/go-toml/v2.Encoder).Encode": true,
	"(*github.com/fatih/color.Color).Fprint": true, "(*github.com/fatih/color.Color).Fprintf": true, "(*github.com/fatih/color.Color).Fprintln": true,
}

var stdoutFns = map[string]bool{
	"fmt.Print": true, "fmt.Printf": true, "fmt.Println": true,
	"(*github.com/fatih/color.Color).Print": true, "(*github.com/fatih/color.Color).Printf": true, "(*github.com/fatih/color.Color).Println": true,
	"log.Print": true, "log.Printf": true, "log.Println": true,
}

// classifyExternal classifies a function outside the module by its full name.
func classifyExternal(f *ssa.Function) Effect {
	if f.Synthetic == "package initializer" {
		return EffPure
	}
	name := f.String()
	// instantiations and wrappers: normalise "(*T).M$bound" etc.
	name = strings.TrimSuffix(name, "$bound")
	name = strings.TrimSuffix(name, "$thunk")
	switch {
	case fsMutate[name]:
		return EffFSMutate
	case fsRead[name]:
		return EffFSRead
	case processFns[name]:
		return EffProcess
	case writeGiven[name]:
		return EffWriteGiven
	case stdoutFns[name]:
		return EffStdout
	}
	pkg := ""
	if pk := pkgOfFunc(f); pk != nil && pk.Pkg != nil {
		pkg = pk.Pkg.Path()
	}
	// value methods of the file-mode / file-info vocabulary and the error predicates touch nothing
	if f.Signature.Recv() != nil {
		switch typeName(f.Signature.Recv().Type()) {
		case "FileMode", "PathError", "LinkError", "SyscallError":
			if pkg == "io/fs" || pkg == "os" {
				return EffPure
			}
		}
	}
	switch name {
	case "os.IsNotExist", "os.IsExist", "os.IsPermission", "os.IsTimeout", "os.IsPathSeparator", "io/fs.ValidPath", "io/fs.FormatFileInfo", "io/fs.FormatDirEntry", "io/fs.FileInfoToDirEntry":
		return EffPure
	}
	switch {
	case pkg == "os/exec" || strings.HasPrefix(pkg, "net"):
		return EffExec
	case pkg == "os" || pkg == "io/fs" || pkg == "syscall" || pkg == "unsafe" || pkg == "golang.org/x/sys/unix" || pkg == "log" || pkg == "io/ioutil":
		return EffUnclassified
	case pkg == "path/filepath":
		return EffPure // lexical functions; the walking ones are listed in fsRead
	case pkg == "fmt" || pkg == "io":
		return EffPure // Sprint*, Errorf, Sscan…; writers are listed above
	}
	if purePkgs[pkg] {
		return EffPure
	}
	if pkg == "" {
		return EffPure // builtins / synthetic
	}
	return EffPure
}
