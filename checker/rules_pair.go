package main

// PAIR — pairing and ordering templates (dominance on SSA).

import (
	"sort"
	"fmt"
	"go/token"
	"go/types"
	"strings"

	"golang.org/x/tools/go/ssa"
)

func init() {
	register(&Rule{ID: "PAIR-1", Doc: "lookup before insert: every (*Node).addChild(c) on p is reachable only where p.findChildByText(<name of c>) returned nil, and the non-nil side uses the existing child", Run: rulePAIR1})
	register(&Rule{ID: "PAIR-2", Doc: "links are bidirectional and one level apart: every addChild(c) on p is paired in the same block with c.setParent(p), and c's level is p's + 1 (constructor argument or isDirectlyUnder guard)", Run: rulePAIR2})
	register(&Rule{ID: "PAIR-3", Doc: "no silent drop: the attach function reports failure (returns true only after linking or merging) and every caller turns a false result into an error exit", Run: rulePAIR3})
	register(&Rule{ID: "PAIR-4", Doc: "validate first: in every exported function taking a *Node (and inside the iterator closures they return) validateTreeRoot(root) is the first call, everything else lies on its nil side, and its error is returned/yielded as is", Run: rulePAIR4})
	register(&Rule{ID: "PAIR-5", Doc: "count pipeline of the dry-run report: per root both counters are reset, then the root is printed (each node passes through colorize exactly once), then summary() is read — in that order", Run: rulePAIR5})
	register(&Rule{ID: "PAIR-6", Doc: "one encoder per call: the encoder constructor (json/yaml/toml NewEncoder, or the spreader's encode factory) is not called inside a per-root loop nor from a function called inside one; Encode is called once per root", Run: rulePAIR6})
	register(&Rule{ID: "PAIR-7", Doc: "yield discipline: in every iterator function that can be ranged over directly, no yield call is reachable after a yield that returned false or that delivered an error; producers consumed only through iter.Pull2 are exempt", Run: rulePAIR7})
}

func nodeMethodCall(in ssa.Instruction, name string) (*ssa.Call, bool) {
	c, ok := in.(*ssa.Call)
	if !ok {
		return nil, false
	}
	f := c.Common().StaticCallee()
	if f == nil || recvTypeName(f) != "Node" || fname(f) != name {
		return nil, false
	}
	return c, true
}

func dominatesInstr(a, b ssa.Instruction) bool {
	if a.Block() == b.Block() {
		return instrIndex(a) < instrIndex(b)
	}
	return a.Block().Dominates(b.Block())
}

// nameOf: does v denote the name of node c (c.name load, or the first argument of the newNode call that made c)?
func isNameOfNode(v, c ssa.Value) bool {
	v, c = resolve(v), resolve(c)
	if _, f, ok := fieldOfLoad(v); ok && f == "name" {
		if ld, ok2 := isLoad(stripConv(v)); ok2 {
			if fa, ok3 := ld.(*ssa.FieldAddr); ok3 && sameVar(fa.X, c) {
				return true
			}
		}
	}
	if call, ok := c.(*ssa.Call); ok && call.Common().StaticCallee() != nil && fname(call.Common().StaticCallee()) == "newNode" {
		return sameVar(call.Common().Args[0], v)
	}
	return false
}

func eachLibFuncDW(w *World, f func(p *Prog, fn *ssa.Function)) {
	d := w.D()
	for _, fn := range libFuncs(d) {
		f(d, fn)
	}
	pw := w.W()
	for _, fn := range libFuncs(pw) {
		if wOnlyFunc(w, fn) {
			f(pw, fn)
		}
	}
}

func rulePAIR1(w *World) []Ob {
	l := &obs{rule: "PAIR-1"}
	n := 0
	eachLibFuncDW(w, func(p *Prog, fn *ssa.Function) {
		l.cfg = p.Cfg.Name
		fid := p.FuncID(fn)
		num := numbered{}
		allInstrs(fn, func(in ssa.Instruction) {
			ac, ok := nodeMethodCall(in, "addChild")
			if !ok {
				return
			}
			n++
			parent, child := ac.Common().Args[0], ac.Common().Args[1]
			construct := num.name("addChild(" + describeValue(child) + ") on " + describeValue(parent))
			var lookup *ssa.Call
			for _, g := range guardsOf(ac.Block()) {
				tv, nonNil, ok := nilTest(g.Cond, g.Pol)
				if !ok || nonNil {
					continue
				}
				lc, ok := stripConv(tv).(*ssa.Call)
				if !ok || lc.Common().StaticCallee() == nil || fname(lc.Common().StaticCallee()) != "findChildByText" {
					continue
				}
				if sameVar(lc.Common().Args[0], parent) && isNameOfNode(lc.Common().Args[1], child) {
					lookup = lc
				}
			}
			if lookup == nil {
				// a helper that creates and links the child: the lookup may guard its only call site
				pp, okP := resolve(parent).(*ssa.Parameter)
				var namePrm *ssa.Parameter
				if nc, ok := resolve(child).(*ssa.Call); ok && nc.Common().StaticCallee() != nil && fname(nc.Common().StaticCallee()) == "newNode" {
					namePrm, _ = resolve(nc.Common().Args[0]).(*ssa.Parameter)
				} else if cp, ok := resolve(child).(*ssa.Parameter); ok {
					namePrm = cp // the child itself is handed in: its name is compared at the call site
				}
				if site := soleCallSite(p, fn); okP && namePrm != nil && site != nil {
					pi, ni := paramIndex(fn, pp), paramIndex(fn, namePrm)
					args := site.Common().Args
					if pi >= 0 && ni >= 0 && pi < len(args) && ni < len(args) {
						for _, g := range guardsOf(site.Block()) {
							tv, nonNil, ok := nilTest(g.Cond, g.Pol)
							if !ok || nonNil {
								continue
							}
							lc, ok := stripConv(tv).(*ssa.Call)
							if !ok || lc.Common().StaticCallee() == nil || fname(lc.Common().StaticCallee()) != "findChildByText" {
								continue
							}
							if sameVar(lc.Common().Args[0], args[pi]) && (sameVar(lc.Common().Args[1], args[ni]) || isNameOfNode(lc.Common().Args[1], args[ni])) {
								lookup = lc
							}
						}
					}
				}
			}
			if lookup == nil {
				l.bad(fid, construct, p.InstrPos(ac), "the child is appended without a dominating `parent.findChildByText(<its name>) == nil` test on the same parent: equally named siblings would become two nodes", "insert")
				return
			}
			// the found child is used (returned / pushed) on the non-nil side
			used := false
			for _, r := range *lookup.Referrers() {
				switch r.(type) {
				case *ssa.BinOp, *ssa.DebugRef:
				default:
					used = true
				}
			}
			if !used {
				l.bad(fid, construct, p.InstrPos(ac), "the existing child found by findChildByText is never used: the merge side does not continue with it", "insert")
				return
			}
			l.ok(fid, construct, p.InstrPos(ac), "dominated by findChildByText(name of the child) == nil on the same parent; the existing child is used on the other side", true, "insert")
		})
	})
	if n == 0 {
		l.undecided("-", "addChild call sites", "-", "none found", "insert")
	}
	// findChildByText compares the text with child.name over all children
	l.cfg = "D"
	for _, p := range []*Prog{w.D()} {
		fn := p.Func("(*gtree.Node).findChildByText")
		if fn == nil {
			l.undecided("(*gtree.Node).findChildByText", "lookup", "-", "function not found", "lookup")
			continue
		}
		okCmp := false
		allInstrs(fn, func(in ssa.Instruction) {
			b, ok := in.(*ssa.BinOp)
			if !ok {
				return
			}
			_, f1, ok1 := fieldOfLoad(b.X)
			_, f2, ok2 := fieldOfLoad(b.Y)
			if (ok1 && f1 == "name") || (ok2 && f2 == "name") {
				if _, isP := b.X.(*ssa.Parameter); isP || func() bool { _, q := b.Y.(*ssa.Parameter); return q }() {
					okCmp = b.Op.String() == "=="
				}
			}
		})
		// the same search spelled with a library helper: slices.IndexFunc(n.children, func(c *Node) bool { return c.name == text })
		libSearch := false
		allInstrs(fn, func(in ssa.Instruction) {
			c, ok := in.(*ssa.Call)
			if !ok || c.Common().StaticCallee() == nil || len(c.Common().Args) != 2 {
				return
			}
			name := c.Common().StaticCallee().String()
			if o := c.Common().StaticCallee().Origin(); o != nil {
				name = o.String()
			}
			if name != "slices.IndexFunc" && name != "slices.ContainsFunc" {
				return
			}
			if _, f, isF := fieldOfLoad(c.Common().Args[0]); !isF || f != "children" {
				return
			}
			mc, ok := resolve(c.Common().Args[1]).(*ssa.MakeClosure)
			if !ok {
				return
			}
			pred := mc.Fn.(*ssa.Function)
			allInstrs(pred, func(in2 ssa.Instruction) {
				b, ok := in2.(*ssa.BinOp)
				if !ok || b.Op.String() != "==" {
					return
				}
				for _, pair := range [][2]ssa.Value{{b.X, b.Y}, {b.Y, b.X}} {
					_, f1, ok1 := fieldOfLoad(pair[0])
					if !ok1 || f1 != "name" {
						continue
					}
					// the other side is the captured text parameter
					if ld, isL := isLoad(stripConv(pair[1])); isL {
						if fv, isFV := ld.(*ssa.FreeVar); isFV {
							for i, q := range pred.FreeVars {
								if q == fv && i < len(mc.Bindings) {
									if al, isAl := mc.Bindings[i].(*ssa.Alloc); isAl {
										if st := initStore(al); st != nil {
											if _, isP := st.Val.(*ssa.Parameter); isP {
												libSearch = true
											}
										}
									}
								}
							}
						}
					}
				}
			})
		})
		if libSearch {
			l.ok(p.FuncID(fn), "lookup compares text with child.name over children", p.Pos(fn.Pos()), "slices.IndexFunc / ContainsFunc over n.children with the predicate child.name == text", true, "lookup")
		} else if okCmp && loopsOverField(fn, "children") {
			l.ok(p.FuncID(fn), "lookup compares text with child.name over children", p.Pos(fn.Pos()), "text == child.name inside a loop over n.children", true, "lookup")
		} else {
			l.bad(p.FuncID(fn), "lookup compares text with child.name over children", p.Pos(fn.Pos()), "findChildByText no longer compares its argument for equality with each child's name", "lookup")
		}
		// a second container consulted by the lookup (an index) must mirror children
		for _, o := range lookupIndexObligations(p, fn) {
			l.add(o)
		}
	}
	return l.list
}

// lookupIndexObligations: if the lookup reads a container field of the node other than children (a name index), then
// wherever a node is appended to children the same node must reach the index: either the index is created after the
// append by a loop over the whole children slice, or the appended node is inserted explicitly.
func lookupIndexObligations(p *Prog, lookup *ssa.Function) []Ob {
	var out []Ob
	recv := lookup.Params[0]
	idxFields := map[string]bool{}
	allInstrs(lookup, func(in ssa.Instruction) {
		var x ssa.Value
		switch i := in.(type) {
		case *ssa.Lookup:
			x = i.X
		case *ssa.IndexAddr:
			x = i.X
		case *ssa.Range:
			x = i.X
		default:
			return
		}
		if ld, ok := isLoad(stripConv(x)); ok {
			if fa, ok := ld.(*ssa.FieldAddr); ok && sameVar(fa.X, recv) {
				if f := fieldName(fa.X.Type(), fa.Field); f != "children" {
					idxFields[f] = true
				}
			}
		}
	})
	for _, f := range sortedKeys(idxFields) {
		construct := "index " + f + " mirrors children"
		bad := ""
		nApp := 0
		for _, g := range libFuncs(p) {
			if recvTypeName(g) != "Node" || g.Parent() != nil {
				continue
			}
			var app *ssa.Store
			var appended ssa.Value
			allInstrs(g, func(in ssa.Instruction) {
				st, ok := in.(*ssa.Store)
				if !ok {
					return
				}
				fa, ok := st.Addr.(*ssa.FieldAddr)
				if !ok || fieldName(fa.X.Type(), fa.Field) != "children" {
					return
				}
				if c, ok := st.Val.(*ssa.Call); ok {
					if b, ok := c.Common().Value.(*ssa.Builtin); ok && b.Name() == "append" {
						if els, ok := variadicElems(c.Common().Args[1]); ok && len(els) == 1 {
							app, appended = st, els[0]
						}
					}
				}
			})
			if app == nil {
				continue
			}
			nApp++
			// explicit inserts of the appended node, creations of the index
			var inserts []*ssa.MapUpdate
			var creations []*ssa.Store
			fullFill := map[*ssa.Store]bool{}
			allInstrs(g, func(in ssa.Instruction) {
				switch x := in.(type) {
				case *ssa.MapUpdate:
					if ld, ok := isLoad(stripConv(x.Map)); ok {
						if fa, ok := ld.(*ssa.FieldAddr); ok && fieldName(fa.X.Type(), fa.Field) == f && sameVar(x.Value, appended) {
							inserts = append(inserts, x)
						}
					}
				case *ssa.Store:
					if fa, ok := x.Addr.(*ssa.FieldAddr); ok && fieldName(fa.X.Type(), fa.Field) == f {
						if _, isMk := x.Val.(*ssa.MakeMap); isMk {
							creations = append(creations, x)
						}
					}
				}
			})
			for _, c := range creations {
				// a fill loop over the whole children slice reachable from the creation
				allInstrs(g, func(in ssa.Instruction) {
					mu, ok := in.(*ssa.MapUpdate)
					if !ok || !inLoop(mu) || !canReach(c.Block(), mu.Block()) {
						return
					}
					if ld, ok := isLoad(stripConv(mu.Value)); ok {
						if ia, ok := ld.(*ssa.IndexAddr); ok {
							if base, ok := isLoad(stripConv(ia.X)); ok {
								if fa, ok := base.(*ssa.FieldAddr); ok && fieldName(fa.X.Type(), fa.Field) == "children" {
									fullFill[c] = true
								}
							}
						}
					}
				})
			}
			for _, c := range creations {
				covered := false
				if fullFill[c] && dominatesInstr(app, c) {
					covered = true // created after the append from all children: the new node is in
				}
				for _, u := range inserts {
					if canReach(c.Block(), u.Block()) {
						covered = true
					}
				}
				if !covered {
					why := "the appended node is not inserted on that path"
					if !fullFill[c] {
						why = "it is not filled from the whole children slice"
					} else if !dominatesInstr(app, c) {
						why = "it is filled before the new node is appended, and the new node is not inserted afterwards"
					}
					bad = fmt.Sprintf("%s creates the index %s at %s but %s: the lookup (which trusts the index once it exists) cannot find that child, so an equally named sibling is added twice", p.FuncID(g), f, p.InstrPos(c), why)
				}
			}
			if len(creations) == 0 && len(inserts) == 0 {
				bad = fmt.Sprintf("%s appends to children but never updates the index %s that the lookup reads", p.FuncID(g), f)
			}
		}
		if nApp == 0 {
			out = append(out, Ob{Rule: "PAIR-1", Cfg: "D", Func: p.FuncID(lookup), Construct: construct, Pos: p.Pos(lookup.Pos()), Status: Undecided, Nontrivial: true, Role: "lookup", Detail: "the lookup reads " + f + " but no function appending to children was found"})
		} else if bad != "" {
			out = append(out, Ob{Rule: "PAIR-1", Cfg: "D", Func: p.FuncID(lookup), Construct: construct, Pos: p.Pos(lookup.Pos()), Status: Violation, Nontrivial: true, Role: "lookup", Detail: bad})
		} else {
			out = append(out, Ob{Rule: "PAIR-1", Cfg: "D", Func: p.FuncID(lookup), Construct: construct, Pos: p.Pos(lookup.Pos()), Status: OK, Nontrivial: true, Role: "lookup", Detail: "every append to children reaches the index (created from the whole slice after the append, or inserted explicitly)"})
		}
	}
	return out
}

func loopsOverField(fn *ssa.Function, field string) bool {
	found := false
	allInstrs(fn, func(in ssa.Instruction) {
		if ia, ok := in.(*ssa.IndexAddr); ok && inLoop(ia) {
			if _, f, ok := fieldOfLoad(ia.X); ok && f == field {
				found = true
			}
		}
	})
	return found
}

func rulePAIR2(w *World) []Ob {
	l := &obs{rule: "PAIR-2"}
	n := 0
	eachLibFuncDW(w, func(p *Prog, fn *ssa.Function) {
		l.cfg = p.Cfg.Name
		fid := p.FuncID(fn)
		num := numbered{}
		allInstrs(fn, func(in ssa.Instruction) {
			ac, ok := nodeMethodCall(in, "addChild")
			if !ok {
				return
			}
			n++
			parent, child := ac.Common().Args[0], ac.Common().Args[1]
			construct := num.name("link " + describeValue(child) + " under " + describeValue(parent))
			paired := false
			for _, in2 := range ac.Block().Instrs {
				if sp, ok := nodeMethodCall(in2, "setParent"); ok && sameVar(sp.Common().Args[0], child) && sameVar(sp.Common().Args[1], parent) {
					paired = true
				}
			}
			if !paired {
				l.bad(fid, construct, p.InstrPos(ac), "addChild is not paired (same block) with child.setParent(parent): the parent link that branch assembly walks would be missing or point elsewhere", "link")
				return
			}
			// level: newNode(_, parent.hierarchy+1, _) or guard child.isDirectlyUnder(parent)
			levelOK := false
			if call, ok := resolve(child).(*ssa.Call); ok && call.Common().StaticCallee() != nil && fname(call.Common().StaticCallee()) == "newNode" {
				if b, ok := call.Common().Args[1].(*ssa.BinOp); ok && b.Op.String() == "+" {
					if k, isC := constInt(b.Y); isC && k == 1 {
						if _, f, ok := fieldOfLoad(b.X); ok && f == "hierarchy" {
							levelOK = true
						}
					}
				}
			}
			for _, g := range guardsOf(ac.Block()) {
				c, pol := flattenCond(g.Cond, g.Pol)
				if call, ok := c.(*ssa.Call); ok && pol && call.Common().StaticCallee() != nil && fname(call.Common().StaticCallee()) == "isDirectlyUnder" {
					if sameVar(call.Common().Args[0], child) && sameVar(call.Common().Args[1], parent) {
						levelOK = true
					}
				}
			}
			if !levelOK {
				// a helper that receives both nodes: the guard may stand at its only call site
				cp, ok1 := resolve(child).(*ssa.Parameter)
				pp, ok2 := resolve(parent).(*ssa.Parameter)
				if site := soleCallSite(p, fn); ok1 && ok2 && site != nil {
					ci, pi := paramIndex(fn, cp), paramIndex(fn, pp)
					args := site.Common().Args
					if ci >= 0 && pi >= 0 && ci < len(args) && pi < len(args) {
						for _, g := range guardsOf(site.Block()) {
							c, pol := flattenCond(g.Cond, g.Pol)
							if call, ok := c.(*ssa.Call); ok && pol && call.Common().StaticCallee() != nil && fname(call.Common().StaticCallee()) == "isDirectlyUnder" {
								if sameVar(call.Common().Args[0], args[ci]) && sameVar(call.Common().Args[1], args[pi]) {
									levelOK = true
								}
							}
						}
					}
				}
			}
			if !levelOK {
				l.bad(fid, construct, p.InstrPos(ac), "the child's level is not tied to parent level + 1 (neither newNode(_, parent.hierarchy+1, _) nor a dominating child.isDirectlyUnder(parent))", "link")
				return
			}
			l.ok(fid, construct, p.InstrPos(ac), "paired with setParent in the same block; level = parent level + 1", true, "link")
		})
	})
	if n == 0 {
		l.undecided("-", "addChild call sites", "-", "none found", "link")
	}
	// isDirectlyUnder: n.hierarchy == node.hierarchy + 1
	p := w.D()
	if fn := p.Func("(*gtree.Node).isDirectlyUnder"); fn != nil {
		ok := false
		allInstrs(fn, func(in ssa.Instruction) {
			b, isB := in.(*ssa.BinOp)
			if !isB || b.Op.String() != "==" {
				return
			}
			for _, pr := range [][2]ssa.Value{{b.X, b.Y}, {b.Y, b.X}} {
				_, f1, ok1 := fieldOfLoad(pr[0])
				add, isAdd := pr[1].(*ssa.BinOp)
				if ok1 && f1 == "hierarchy" && isAdd && add.Op.String() == "+" {
					if k, isC := constInt(add.Y); isC && k == 1 {
						if _, f2, ok2 := fieldOfLoad(add.X); ok2 && f2 == "hierarchy" {
							// receiver on the left, argument on the right
							if ld, _ := isLoad(stripConv(pr[0])); ld != nil {
								if fa, isFA := ld.(*ssa.FieldAddr); isFA && sameVar(fa.X, fn.Params[0]) {
									ok = true
								}
							}
						}
					}
				}
			}
		})
		if ok {
			l.add(Ob{Cfg: "D", Func: p.FuncID(fn), Construct: "isDirectlyUnder means level == other level + 1", Pos: p.Pos(fn.Pos()), Status: OK, Nontrivial: true, Role: "level", Detail: "n.hierarchy == node.hierarchy + 1"})
		} else {
			l.add(Ob{Cfg: "D", Func: p.FuncID(fn), Construct: "isDirectlyUnder means level == other level + 1", Pos: p.Pos(fn.Pos()), Status: Violation, Nontrivial: true, Role: "level", Detail: "isDirectlyUnder no longer compares the receiver's level with the argument's level + 1"})
		}
	} else {
		l.add(Ob{Cfg: "D", Func: "(*gtree.Node).isDirectlyUnder", Construct: "isDirectlyUnder", Pos: "-", Status: Undecided, Nontrivial: true, Role: "level", Detail: "function not found"})
	}
	return l.list
}

// stackSliceObligations: when the stack of open nodes is kept in a slice, entries above the current node are dead once
// the document has stepped back up.  (R1) an element is read only below the live size — the counter field if the type
// has one, len(slice) otherwise; a test against the slice's length when a counter exists admits dead entries.
// (R2) the attach function shrinks the stack on every successful route (a re-slice stored back, the counter assigned,
// or pop called) — overwriting one slot and leaving the ones above lets a later, too deeply nested item find a stale
// parent instead of being rejected.  With container/list (push / pop only) neither applies.
func stackSliceObligations(p *Prog, l *obs) {
	var sliceField, countField = -1, -1
	var stackType types.Type
	for _, fn := range libFuncs(p) {
		if recvTypeName(fn) != "stack" || fn.Signature.Recv() == nil {
			continue
		}
		t := fn.Signature.Recv().Type()
		if pt, ok := t.Underlying().(*types.Pointer); ok {
			t = pt.Elem()
		}
		st, ok := t.Underlying().(*types.Struct)
		if !ok {
			continue
		}
		stackType = t
		for i := 0; i < st.NumFields(); i++ {
			switch ft := st.Field(i).Type().Underlying().(type) {
			case *types.Slice:
				if isNodePtr(ft.Elem()) {
					sliceField = i
				}
			case *types.Basic:
				if ft.Info()&types.IsInteger != 0 {
					countField = i
				}
			}
		}
		break
	}
	if stackType == nil || sliceField < 0 {
		return // a list-backed stack: nothing to decide
	}
	isField := func(v ssa.Value, idx int) bool {
		ld, ok := isLoad(stripConv(v))
		if !ok {
			return false
		}
		fa, ok := ld.(*ssa.FieldAddr)
		return ok && fa.Field == idx && recvTypeName2(fa.X.Type()) == "stack"
	}
	for _, fn := range libFuncs(p) {
		if recvTypeName(fn) != "stack" {
			continue
		}
		fn := fn
		num := numbered{}
		// R1
		allInstrs(fn, func(in ssa.Instruction) {
			ia, ok := in.(*ssa.IndexAddr)
			if !ok || !isField(ia.X, sliceField) {
				return
			}
			// a read?
			read := false
			for _, r := range *ia.Referrers() {
				if u, ok := r.(*ssa.UnOp); ok && u.Op == token.MUL {
					read = true
				}
			}
			if !read {
				return
			}
			construct := num.name("stack element read " + describeValue(ia.Index))
			okLive, onlyLen := false, false
			for _, g := range guardsOf(in.Block()) {
				c, pol := flattenCond(g.Cond, g.Pol)
				b, isB := c.(*ssa.BinOp)
				if !isB {
					continue
				}
				op, x, y := b.Op, b.X, b.Y
				if !pol {
					op = negateOp(op)
				}
				// idx < live  /  live > idx
				var bound ssa.Value
				switch {
				case stripNum(x) == stripNum(ia.Index) && (op == token.LSS):
					bound = y
				case stripNum(y) == stripNum(ia.Index) && (op == token.GTR):
					bound = x
				default:
					continue
				}
				if countField >= 0 {
					if isField(bound, countField) {
						okLive = true
					} else if la := lenArg(bound); la != nil && isField(la, sliceField) {
						onlyLen = true
					}
				} else if la := lenArg(bound); la != nil && isField(la, sliceField) {
					okLive = true
				}
			}
			// a scan from the top downwards: for i := len(nodes)-1; i >= 0; i-- (every i is below the live size)
			if ph, isPhi := stripNum(ia.Index).(*ssa.Phi); isPhi && countField < 0 {
				fromTop, stepsDown := false, false
				for _, e := range ph.Edges {
					if bo, isB := stripNum(e).(*ssa.BinOp); isB && bo.Op == token.SUB {
						if k, isK := constInt(bo.Y); isK && k == 1 {
							if la := lenArg(bo.X); la != nil && isField(la, sliceField) {
								fromTop = true
							}
							if stripNum(bo.X) == ssa.Value(ph) {
								stepsDown = true
							}
						}
					}
				}
				if fromTop && stepsDown {
					okLive = true
				}
			}
			// reading the top: nodes[count-1] / nodes[len-1] after the count was tested / decremented is live by construction
			if bo, isB := stripNum(ia.Index).(*ssa.BinOp); isB && bo.Op == token.SUB {
				if k, isK := constInt(bo.Y); isK && k == 1 {
					okLive = true
				}
			}
			if ld, isL := isLoad(stripNum(ia.Index)); isL {
				if fa, isFA := ld.(*ssa.FieldAddr); isFA && fa.Field == countField {
					okLive = true // nodes[depth] right after depth-- (pop)
				}
			}
			switch {
			case okLive:
				l.ok(p.FuncID(fn), construct, p.InstrPos(in), "read below the live size of the stack", true, "stack-live")
			case onlyLen:
				l.bad(p.FuncID(fn), construct, p.InstrPos(in), "the index is checked against the length of the backing slice although the stack keeps its live size in a counter: slots above the counter belong to branches that are already closed, so an item nested too deeply finds a stale parent there instead of being rejected", "stack-live")
			default:
				l.bad(p.FuncID(fn), construct, p.InstrPos(in), "an element of the slice-backed stack is read without a dominating test that the index lies below the live size", "stack-live")
			}
		})
		// R2: the attach function (takes a node, returns bool, asks isDirectlyUnder)
		attach := false
		allInstrs(fn, func(in ssa.Instruction) {
			if c, ok := in.(*ssa.Call); ok && c.Common().StaticCallee() != nil && fname(c.Common().StaticCallee()) == "isDirectlyUnder" {
				attach = true
			}
		})
		if !attach || fn.Signature.Results().Len() != 1 {
			continue
		}
		shrinks := func(in ssa.Instruction) bool {
			switch x := in.(type) {
			case *ssa.Store:
				fa, ok := x.Addr.(*ssa.FieldAddr)
				if !ok || recvTypeName2(fa.X.Type()) != "stack" {
					return false
				}
				if fa.Field == countField {
					return true
				}
				if fa.Field == sliceField {
					// a re-slice stored back (possibly with the new element appended onto it)
					var hasSlice func(v ssa.Value, d int) bool
					hasSlice = func(v ssa.Value, d int) bool {
						if d > 3 {
							return false
						}
						switch y := v.(type) {
						case *ssa.Slice:
							return true
						case *ssa.Call:
							if isBuiltinCall(y, "append") && len(y.Common().Args) > 0 {
								return hasSlice(y.Common().Args[0], d+1)
							}
						}
						return false
					}
					return hasSlice(x.Val, 0)
				}
			case *ssa.Call:
				if g := x.Common().StaticCallee(); g != nil && recvTypeName(g) == "stack" && fname(g) == "pop" {
					return true
				}
			}
			return false
		}
		// helpers of the stack that cut it back (cutBack(n), truncate(n)) count where they are called
		shrinkFns := map[*ssa.Function]bool{}
		for _, g := range libFuncs(p) {
			if recvTypeName(g) != "stack" || g == fn {
				continue
			}
			allInstrs(g, func(in ssa.Instruction) {
				if st, ok := in.(*ssa.Store); ok && shrinks(st) {
					shrinkFns[g] = true
				}
			})
		}
		shrinkBlocks := map[*ssa.BasicBlock]bool{}
		allInstrs(fn, func(in ssa.Instruction) {
			if shrinks(in) {
				shrinkBlocks[in.Block()] = true
			}
			if c, ok := in.(*ssa.Call); ok && c.Common().StaticCallee() != nil && shrinkFns[c.Common().StaticCallee()] {
				shrinkBlocks[in.Block()] = true
			}
		})
		bad := ""
		allInstrs(fn, func(in ssa.Instruction) {
			r, ok := in.(*ssa.Return)
			if !ok || bad != "" {
				return
			}
			if b, isC := constBool(rr(r)[0]); !isC || !b {
				return
			}
			// is the return reachable from the entry without passing a shrinking block?
			seen := map[*ssa.BasicBlock]bool{}
			reached := false
			var walk func(b *ssa.BasicBlock)
			walk = func(b *ssa.BasicBlock) {
				if seen[b] || shrinkBlocks[b] || reached {
					return
				}
				seen[b] = true
				if b == r.Block() {
					reached = true
					return
				}
				for _, s2 := range b.Succs {
					walk(s2)
				}
			}
			walk(fn.Blocks[0])
			if reached {
				bad = p.InstrPos(r)
			}
		})
		construct := "attaching shrinks the slice-backed stack to the parent's level"
		if bad != "" {
			l.bad(p.FuncID(fn), construct, p.Pos(fn.Pos()), "the successful return at "+bad+" is reached without the stack having been cut back (no re-slice stored, no counter assignment, no pop): the entries of a deeper, already closed branch stay in place, and a later item nested more than one level deeper than its predecessor is attached to one of them instead of being rejected", "stack-live")
		} else {
			l.ok(p.FuncID(fn), construct, p.Pos(fn.Pos()), "every successful route cuts the stack back first", true, "stack-live")
		}
	}
}

// recvTypeName2: the (canonical) name of the named type behind a possibly pointer-typed value.
func recvTypeName2(t types.Type) string {
	return typeName(t)
}

func rulePAIR3(w *World) []Ob {
	l := &obs{rule: "PAIR-3"}
	for _, p := range []*Prog{w.D(), w.W()} {
		l.cfg = p.Cfg.Name
		if p.Cfg.Name == "D" {
			stackSliceObligations(p, l)
		}
		nc := newNilCtx(p)
		// attach functions: functions that call addChild on a node popped/derived from a stack, i.e. take the new node as parameter and call addChild(param)
		// void helpers proven to link or merge on every path count as a link in their callers (two rounds)
		linkFuncs := map[*ssa.Function]int{} // helper -> index of its node parameter among the call arguments
		funcs := libFuncs(p)
		nLib := len(funcs)
		funcs = append(funcs, funcs...)
		done := map[*ssa.Function]bool{}
		for fi, fn := range funcs {
			if done[fn] {
				continue
			}
			var adds []*ssa.Call
			var nodePrm *ssa.Parameter
			allInstrs(fn, func(in ssa.Instruction) {
				if ac, ok := nodeMethodCall(in, "addChild"); ok {
					if prm, isP := resolve(ac.Common().Args[1]).(*ssa.Parameter); isP && paramIndex(fn, prm) >= 0 && recvTypeName(fn) != "Node" {
						adds = append(adds, ac)
						nodePrm = prm
					}
				}
				if c, ok := in.(*ssa.Call); ok && c.Common().StaticCallee() != nil {
					if idx, isLink := linkFuncs[c.Common().StaticCallee()]; isLink && idx < len(c.Common().Args) {
						if prm, isP := resolve(c.Common().Args[idx]).(*ssa.Parameter); isP && paramIndex(fn, prm) >= 0 {
							adds = append(adds, c)
							nodePrm = prm
						}
					}
				}
			})
			if len(adds) == 0 {
				continue
			}
			if fi < nLib {
				// first round: only remember proven void helpers; judged (and reported) in the second round
				if res := fn.Signature.Results(); res.Len() == 0 || (res.Len() == 1 && isNodePtr(res.At(0).Type())) {
					linked := true
					allInstrs(fn, func(in ssa.Instruction) {
						if r, ok := in.(*ssa.Return); ok {
							dom := false
							for _, a := range adds {
								if dominatesInstr(a, r) {
									dom = true
								}
							}
							if !dom && !mergeSide(r) {
								linked = false
							}
						}
					})
					if linked {
						for i, prm := range fn.Params {
							if prm == nodePrm {
								linkFuncs[fn] = i
							}
						}
					}
				}
				continue
			}
			done[fn] = true
			sharedWithD := p.Cfg.Name == "W" && fileInD(w, p.Fset.Position(fn.Pos()).Filename)
			fid := p.FuncID(fn)
			res := fn.Signature.Results()
			if sharedWithD {
				// the attach function itself is compiled into both variants and judged under D; only the
				// tinywasm-only callers are new here
				if res.Len() > 0 {
					for _, ci := range p.Callers(fn) {
						if !wOnlyFunc(w, ci.Parent()) {
							continue
						}
						call, ok := ci.(*ssa.Call)
						cfid := p.FuncID(ci.Parent())
						construct := "result of " + calleeString(ci.Common())
						if !ok {
							l.bad(cfid, construct, p.InstrPos(ci), "attach called through go/defer: result lost", "attach-caller")
						} else if why := failureLeadsToErrorExit(p, nc, call); why != "" {
							l.bad(cfid, construct, p.InstrPos(ci), why, "attach-caller")
						} else {
							l.ok(cfid, construct, p.InstrPos(ci), "a failed attach leads to an error exit", true, "attach-caller")
						}
					}
				}
				continue
			}
			if res.Len() == 0 || (res.Len() == 1 && isNodePtr(res.At(0).Type())) {
				// can every path to the exit be shown to link or merge?
				linked := true
				allInstrs(fn, func(in ssa.Instruction) {
					r, ok := in.(*ssa.Return)
					if !ok {
						return
					}
					dom := false
					for _, a := range adds {
						if dominatesInstr(a, r) {
							dom = true
						}
					}
					if !dom && !mergeSide(r) {
						linked = false
					}
				})
				if linked {
					l.ok(fid, "attach never drops", p.Pos(fn.Pos()), "every return is preceded by a link or a merge", true, "attach")
				} else {
					l.bad(fid, "attach never drops", p.Pos(fn.Pos()), "the function can return without having linked or merged the node and has no result to say so: the item (and what follows it) silently disappears from the tree", "attach")
				}
				continue
			}
			if b, ok := res.At(res.Len()-1).Type().Underlying().(*types.Basic); !ok || (b.Kind() != types.Bool && !isErrorType(res.At(res.Len()-1).Type())) {
				l.undecided(fid, "attach never drops", p.Pos(fn.Pos()), "unexpected result type", "attach")
				continue
			}
			// returns of "success" are dominated by a link or lie on the merge side
			bad := ""
			allInstrs(fn, func(in ssa.Instruction) {
				r, ok := in.(*ssa.Return)
				if !ok {
					return
				}
				v := rr(r)[len(rr(r))-1]
				success := false
				if b, isC := constBool(v); isC {
					success = b
				} else if isErrorType(v.Type()) {
					success = !nc.nonNil(v, r, 0)
				} else {
					bad = "non-constant result at " + p.InstrPos(r)
					return
				}
				if !success {
					return
				}
				if reachableAvoidingLinks(fn, r, adds) {
					bad = "success is reported at " + p.InstrPos(r) + " on a path that neither links the node nor merges it into an existing sibling"
				}
			})
			if bad != "" {
				l.bad(fid, "attach never drops", p.Pos(fn.Pos()), bad, "attach")
			} else {
				l.ok(fid, "attach never drops", p.Pos(fn.Pos()), "success is returned only after addChild or on the findChildByText merge side; otherwise failure is returned", true, "attach")
			}
			// callers; a caller that only passes its own node parameter on and reports the failure through its
			// result is itself an attach function for its callers
			num := map[string]numbered{}
			seenFn := map[*ssa.Function]bool{}
			var callers func(f *ssa.Function, depth int)
			callers = func(f *ssa.Function, depth int) {
				if seenFn[f] || depth > 3 {
					return
				}
				seenFn[f] = true
				for _, ci := range p.Callers(f) {
					call, ok := ci.(*ssa.Call)
					cfid := p.FuncID(ci.Parent())
					if num[cfid] == nil {
						num[cfid] = numbered{}
					}
					construct := num[cfid].name("result of " + calleeString(ci.Common()))
					if !ok {
						l.bad(cfid, construct, p.InstrPos(ci), "attach called through go/defer: result lost", "attach-caller")
						continue
					}
					if why := failureLeadsToErrorExit(p, nc, call); why != "" {
						l.bad(cfid, construct, p.InstrPos(ci), why, "attach-caller")
						continue
					}
					l.ok(cfid, construct, p.InstrPos(ci), "a failed attach leads to an error exit (return / yield / send of a non-nil error, then return)", true, "attach-caller")
					par := ci.Parent()
					passes := false
					for i, a := range call.Common().Args {
						if i > 0 && isNodePtr(a.Type()) {
							if prm, isP := resolve(a).(*ssa.Parameter); isP && inputIndex(par, prm) >= 0 {
								passes = true
							}
						}
					}
					pres := par.Signature.Results()
					if passes && par.Parent() == nil && pres.Len() > 0 && !types.NewVar(0, nil, fname(par), nil).Exported() {
						last := pres.At(pres.Len() - 1).Type()
						if b, isB := last.Underlying().(*types.Basic); isErrorType(last) || (isB && b.Kind() == types.Bool) {
							callers(par, depth+1)
						}
					}
				}
			}
			callers(fn, 0)
		}
	}
	hasAttach := false
	for _, o := range l.list {
		if o.Role == "attach" {
			hasAttach = true
		}
	}
	if !hasAttach {
		l.undecided("-", "attach function", "-", "no function that links a parameter node with addChild was found", "attach")
	}
	return l.list
}

// mergeSide: the return lies on the non-nil side of a findChildByText test.
func mergeSide(r ssa.Instruction) bool {
	for _, g := range guardsOf(r.Block()) {
		tv, nonNil, ok := nilTest(g.Cond, g.Pol)
		if ok && nonNil {
			if c, ok := stripConv(tv).(*ssa.Call); ok && c.Common().StaticCallee() != nil && fname(c.Common().StaticCallee()) == "findChildByText" {
				return true
			}
		}
	}
	return false
}

// failureLeadsToErrorExit: the bool/error result of call is branched on and its failure side
// produces a non-nil error and leaves the loop/function.
func failureLeadsToErrorExit(p *Prog, nc *nilCtx, call *ssa.Call) string {
	var failSucc *ssa.BasicBlock
	var visit func(v ssa.Value, neg bool)
	visit = func(v ssa.Value, neg bool) {
		if v.Referrers() == nil {
			return
		}
		for _, r := range *v.Referrers() {
			switch x := r.(type) {
			case *ssa.If:
				// bool result: true = success
				if neg {
					failSucc = x.Block().Succs[0]
				} else {
					failSucc = x.Block().Succs[1]
				}
			case *ssa.UnOp:
				if x.Op.String() == "!" {
					visit(x, !neg)
				}
			case *ssa.BinOp:
				if _, nonNil, ok := nilTest(x, true); ok {
					for _, rr := range *x.Referrers() {
						if iff, ok := rr.(*ssa.If); ok {
							if nonNil {
								failSucc = iff.Block().Succs[0]
							} else {
								failSucc = iff.Block().Succs[1]
							}
						}
					}
				}
			}
		}
	}
	if tup, isTup := call.Type().(*types.Tuple); isTup && tup.Len() >= 2 && isErrorType(tup.At(tup.Len()-1).Type()) {
		// (…, err): the verdict is the error
		if ev := siblingExtract(call, tup.Len()-1); ev != nil {
			visit(ev, false)
		}
	} else {
		visit(call, false)
	}
	if failSucc == nil {
		return "the result of the attach call is not tested: a node that could not be attached is dropped without an error"
	}
	// on the failure side: a non-nil error is returned / yielded / sent, and control does not come back to the call
	produced := false
	for b := range blockReach(failSucc, map[*ssa.BasicBlock]bool{call.Block(): true}) {
		for _, in := range b.Instrs {
			switch x := in.(type) {
			case *ssa.Return:
				for _, rv := range rr(x) {
					if isErrorType(rv.Type()) && nc.nonNil(rv, x, 0) {
						produced = true
					}
				}
			case ssa.CallInstruction:
				for _, a := range x.Common().Args {
					if isErrorType(a.Type()) && nc.nonNil(a, in, 0) {
						produced = true
					}
				}
			case *ssa.Send:
				if isErrorType(x.X.Type()) && nc.nonNil(x.X, x, 0) {
					produced = true
				}
			}
		}
	}
	if !produced {
		return "the failure side of the attach call does not produce a non-nil error"
	}
	if canReach(failSucc, call.Block()) {
		return "after a failed attach control can return to the line loop: processing continues instead of failing"
	}
	return ""
}

// ---------------------------------------------------------------------------------------------
// PAIR-4

func rulePAIR4(w *World) []Ob {
	p := w.D()
	l := &obs{rule: "PAIR-4", cfg: "D"}
	nc := newNilCtx(p)
	n := 0
	for _, e := range exportedEntries(p) {
		if e.Signature.Recv() != nil {
			continue
		}
		var rootPrm *ssa.Parameter
		for _, prm := range e.Params {
			if isNodePtr(prm.Type()) {
				rootPrm = prm
			}
		}
		if rootPrm == nil {
			continue
		}
		n++
		// an entry point that only forwards all its parameters to one unexported function is judged through that function
		for hop := 0; hop < 2; hop++ {
			if len(e.AnonFuncs) != 0 || len(e.Blocks) != 1 {
				break
			}
			var only *ssa.Call
			nCalls := 0
			allInstrs(e, func(in ssa.Instruction) {
				if c, ok := in.(ssa.CallInstruction); ok {
					nCalls++
					only, _ = c.(*ssa.Call)
				}
			})
			if nCalls != 1 || only == nil {
				break
			}
			g := only.Common().StaticCallee()
			if g == nil || !p.InModule(g) || g.Blocks == nil || (g.Object() != nil && g.Object().Exported()) || g.Signature.Recv() != nil {
				break
			}
			idx := inputIndexParam(e, rootPrm)
			if idx < 0 || idx >= len(only.Common().Args) || !sameVar(only.Common().Args[idx], rootPrm) || idx >= len(g.Params) {
				break
			}
			e, rootPrm = g, g.Params[idx]
		}
		// body: the function itself, or the single closure it returns
		body := e
		if len(e.AnonFuncs) == 0 && len(e.Blocks) == 1 {
			// alias that returns another entry point's iterator unchanged
			var only *ssa.Call
			nCalls := 0
			allInstrs(e, func(in ssa.Instruction) {
				if c, ok := in.(*ssa.Call); ok {
					only = c
					nCalls++
				}
			})
			if nCalls == 1 && only.Common().StaticCallee() != nil && only.Common().StaticCallee().Object() != nil && only.Common().StaticCallee().Object().Exported() {
				if _, isSig := only.Type().Underlying().(*types.Signature); isSig {
					l.ok(p.FuncID(e), "validateTreeRoot first", p.InstrPos(only), "returns the iterator of "+relFunc(only.Common().StaticCallee())+" unchanged", false, "validate-first")
					continue
				}
			}
		}
		if len(e.AnonFuncs) >= 1 && returnsClosure(e) {
			if len(e.AnonFuncs) == 1 {
				body = e.AnonFuncs[0]
			}
			// an iterator constructor does nothing but build the closure: everything (validation,
			// configuration, growing) happens when the sequence is ranged over, on the tree as it is then
			early := ""
			allInstrs(e, func(in ssa.Instruction) {
				if ci, ok := in.(ssa.CallInstruction); ok {
					if f := ci.Common().StaticCallee(); f != nil && fname(f) == "validateTreeRoot" {
						return // whether the argument is a root cannot change between obtaining and ranging the sequence
					}
					early = calleeString(ci.Common()) + " at " + p.InstrPos(in)
				}
			})
			if early != "" {
				l.bad(p.FuncID(e), "iterator constructor only builds the closure", p.Pos(e.Pos()), "work is done when the sequence is obtained ("+early+") instead of when it is ranged over: nodes added, or other operations run, in between are not reflected", "lazy")
			} else {
				l.ok(p.FuncID(e), "iterator constructor only builds the closure", p.Pos(e.Pos()), "no call outside the returned closure", true, "lazy")
			}
		}
		fid := p.FuncID(body)
		construct := "validateTreeRoot first"
		var first ssa.CallInstruction
		for _, in := range body.Blocks[0].Instrs {
			if ci, ok := in.(ssa.CallInstruction); ok {
				first = ci
				break
			}
		}
		vcall, _ := first.(*ssa.Call)
		if vcall != nil && vcall.Common().StaticCallee() != nil {
			// pure delegation: the only call hands the root, in the same position, to another exported entry point
			callee := vcall.Common().StaticCallee()
			nCalls := 0
			allInstrs(body, func(in ssa.Instruction) {
				if _, ok := in.(ssa.CallInstruction); ok {
					nCalls++
				}
			})
			if nCalls == 1 && callee.Object() != nil && callee.Object().Exported() && p.PkgPath(callee) == modulePath && callee != body {
				idx := inputIndexParam(e, rootPrm)
				if idx >= 0 && idx < len(vcall.Common().Args) && sameVar(vcall.Common().Args[idx], rootPrm) && idx < len(callee.Params) && isNodePtr(callee.Params[idx].Type()) {
					l.ok(fid, construct, p.InstrPos(vcall), "delegates to "+relFunc(callee)+", which is checked by this rule itself", false, "validate-first")
					continue
				}
			}
		}
		if to, ok := rootOnlyDelegated(p, body, rootPrm); ok {
			l.ok(fid, construct, p.Pos(body.Pos()), "the node is only handed on to "+to+", checked by this rule itself; nothing with an effect outside the process is reached except through it", false, "validate-first")
			continue
		}
		if vcall == nil || vcall.Common().StaticCallee() == nil || nc.nilRetImp[vcall.Common().StaticCallee()] == nil {
			what := "nothing"
			if first != nil {
				what = calleeString(first.Common())
			}
			l.bad(fid, construct, p.Pos(body.Pos()), "the first call is "+what+", not a validator of the root (a function that returns a nil error only for a non-nil node): something happens before a nil or non-root node is rejected", "validate-first")
			continue
		}
		argOK := false
		for j, a := range vcall.Common().Args {
			if nc.nilRetImp[vcall.Common().StaticCallee()][j] && sameVar(a, rootPrm) {
				argOK = true
			}
		}
		if !argOK {
			l.bad(fid, construct, p.InstrPos(vcall), "the validator is not applied to the root parameter", "validate-first")
			continue
		}
		if why := actsBeforeValidating(p, nc, vcall.Common().StaticCallee(), 0); why != "" {
			l.bad(fid, construct, p.InstrPos(vcall), "the first call is "+calleeString(vcall.Common())+", which "+why, "validate-first")
			continue
		}
		// the validator's error: the call itself, or its last result when it also hands back something (a config)
		var verr ssa.Value = vcall
		if n := vcall.Common().Signature().Results().Len(); n > 1 {
			if ex := siblingExtract(vcall, n-1); ex != nil {
				verr = ex
			}
		}
		// every other call lies on the nil side, except handing the error over on the non-nil side
		bad := ""
		allInstrs(body, func(in ssa.Instruction) {
			ci, ok := in.(ssa.CallInstruction)
			if !ok || in == ssa.Instruction(vcall) {
				return
			}
			if guardedNil(verr, in) {
				return
			}
			// non-nil side: only yield(nil, err)
			for _, a := range ci.Common().Args {
				if a == verr {
					return
				}
			}
			if _, isDefer := in.(*ssa.Defer); isDefer {
				bad = "a defer runs before validation at " + p.InstrPos(in)
				return
			}
			bad = calleeString(ci.Common()) + " at " + p.InstrPos(in) + " is not on the nil side of the validation result"
		})
		// the error is returned / yielded unchanged
		c := &consumption{}
		consumeError(p, verr, map[ssa.Value]bool{}, c)
		if bad != "" {
			l.bad(fid, construct, p.InstrPos(vcall), bad, "validate-first")
		} else if !c.consumed {
			l.bad(fid, construct, p.InstrPos(vcall), "the validation error is not returned or yielded", "validate-first")
		} else {
			l.ok(fid, construct, p.InstrPos(vcall), "first call; every other call on its nil side; error handed back unchanged", true, "validate-first")
		}
	}
	if n == 0 {
		l.undecided("-", "exported functions taking *Node", "-", "none found", "validate-first")
	}
	// TAB-5 part: the validator returns the two sentinels
	if fn := p.Func("gtree.validateTreeRoot"); fn != nil {
		var sentinels []string
		allInstrs(fn, func(in ssa.Instruction) {
			r, ok := in.(*ssa.Return)
			if !ok {
				return
			}
			if ld, ok := isLoad(stripConv(rr(r)[0])); ok {
				if g, ok := ld.(*ssa.Global); ok {
					guard := ""
					for _, gd := range guardsOf(r.Block()) {
						if tv, nonNil, ok := nilTest(gd.Cond, gd.Pol); ok && !nonNil && sameVar(tv, fn.Params[0]) {
							guard = "nil"
						}
						c, pol := flattenCond(gd.Cond, gd.Pol)
						if call, ok := c.(*ssa.Call); ok && !pol && call.Common().StaticCallee() != nil && fname(call.Common().StaticCallee()) == "isRoot" && guard == "" {
							guard = "notroot"
						}
					}
					sentinels = append(sentinels, guard+":"+g.Name())
				}
			}
		})
		want := map[string]bool{"nil:ErrNilNode": false, "notroot:ErrNotRoot": false}
		for _, s := range sentinels {
			if _, ok := want[s]; ok {
				want[s] = true
			}
		}
		if want["nil:ErrNilNode"] && want["notroot:ErrNotRoot"] {
			l.ok("gtree.validateTreeRoot", "sentinels", p.Pos(fn.Pos()), "nil → ErrNilNode, !isRoot → ErrNotRoot", true, "sentinel")
		} else {
			l.bad("gtree.validateTreeRoot", "sentinels", p.Pos(fn.Pos()), "validateTreeRoot does not return ErrNilNode for nil and ErrNotRoot for a non-root (found: "+strings.Join(sentinels, ", ")+")", "sentinel")
		}
	} else {
		l.undecided("gtree.validateTreeRoot", "sentinels", "-", "function not found", "sentinel")
	}
	return l.list
}

func returnsClosure(fn *ssa.Function) bool {
	ok := false
	allInstrs(fn, func(in ssa.Instruction) {
		if r, isR := in.(*ssa.Return); isR && len(rr(r)) == 1 {
			if _, isMC := stripConv(rr(r)[0]).(*ssa.MakeClosure); isMC {
				ok = true
			}
		}
	})
	return ok
}

// ---------------------------------------------------------------------------------------------
// PAIR-5

func rulePAIR5(w *World) []Ob {
	l := &obs{rule: "PAIR-5"}
	n := 0
	eachLibFuncDW(w, func(p *Prog, fn *ssa.Function) {
		l.cfg = p.Cfg.Name
		// functions that call summary(): the per-root report assembly
		var sums []*ssa.Call
		allInstrs(fn, func(in ssa.Instruction) {
			if c, ok := in.(*ssa.Call); ok && c.Common().StaticCallee() != nil && fname(c.Common().StaticCallee()) == "summary" && strings.Contains(recvTypeName(c.Common().StaticCallee()), "olorize") {
				sums = append(sums, c)
			}
		})
		fid := p.FuncID(fn)
		for _, sc := range sums {
			n++
			construct := "reset → print → summary"
			blk := sc.Block()
			var resets []*ssa.Call
			var print *ssa.Call
			for _, in := range blk.Instrs {
				c, ok := in.(*ssa.Call)
				if !ok || c.Common().StaticCallee() == nil {
					continue
				}
				switch fname(c.Common().StaticCallee()) {
				case "reset":
					resets = append(resets, c)
				case "spreadBranch":
					print = c
				}
				// by role: the recursive printer of the same colourising type, handed a node
				if g := c.Common().StaticCallee(); print == nil && callsItself(g) && strings.Contains(recvTypeName(g), "olorize") {
					for _, a := range c.Common().Args[1:] {
						if isNodePtr(a.Type()) {
							print = c
						}
					}
				}
			}
			counters := map[string]bool{}
			for _, r := range resets {
				if _, f, ok := fieldOfLoad(r.Common().Args[0]); ok {
					counters[f] = true
				}
			}
			switch {
			case print == nil:
				l.bad(fid, construct, p.InstrPos(sc), "summary() is read without the root having been printed in the same step", "count")
			case !counters["fileCounter"] || !counters["dirCounter"]:
				l.bad(fid, construct, p.InstrPos(sc), "the file and directory counters are not both reset before the root is printed (found resets of: "+strings.Join(sortedKeys(counters), ", ")+"): counts accumulate across roots", "count")
			case !(instrIndex(resets[0]) < instrIndex(print) && instrIndex(resets[len(resets)-1]) < instrIndex(print) && instrIndex(print) < instrIndex(sc)):
				l.bad(fid, construct, p.InstrPos(sc), "the order reset, print, summary is not kept", "count")
			default:
				l.ok(fid, construct, p.InstrPos(sc), "both counters reset, then spreadBranch(root), then summary(), in one block per root", true, "count")
			}
		}
		// colorize is called exactly once per node on every path of the printing function
		var cols []*ssa.Call
		allInstrs(fn, func(in ssa.Instruction) {
			if c, ok := in.(*ssa.Call); ok && c.Common().StaticCallee() != nil && fname(c.Common().StaticCallee()) == "colorize" {
				cols = append(cols, c)
			}
		})
		if len(cols) > 0 {
			min, max := pathCallCounts(fn, cols)
			construct := "colorize exactly once per node"
			if min == 1 && max == 1 {
				l.ok(fid, construct, p.InstrPos(cols[0]), "every acyclic path through the function body calls colorize exactly once", true, "colorize")
			} else {
				l.bad(fid, construct, p.InstrPos(cols[0]), fmt.Sprintf("colorize is called between %d and %d times on a path: nodes are counted twice or not at all", min, max), "colorize")
			}
		}
		// colorize increments exactly one counter, chosen by isFile
		if fname(fn) == "colorize" && strings.Contains(recvTypeName(fn), "olorize") {
			var isFile *ssa.Call
			var nextCalls []*ssa.Call
			nexts := map[string]bool{}
			allInstrs(fn, func(in ssa.Instruction) {
				c, ok := in.(*ssa.Call)
				if !ok || c.Common().StaticCallee() == nil {
					return
				}
				switch fname(c.Common().StaticCallee()) {
				case "isFile":
					isFile = c
				case "next":
					nextCalls = append(nextCalls, c)
					// the counter picked into a local first: next() on a phi of the two counters, one per side of isFile
					if ph, isPhi := c.Common().Args[0].(*ssa.Phi); isPhi && isFile != nil {
						for i, e := range ph.Edges {
							_, f, ok := fieldOfLoad(e)
							if !ok || i >= len(ph.Block().Preds) {
								nexts["?@?"] = true
								continue
							}
							pred := ph.Block().Preds[i]
							side := "?"
							for _, g := range guardsOf(pred) {
								cd, pol := flattenCond(g.Cond, g.Pol)
								if cd == ssa.Value(isFile) {
									side = fmt.Sprint(pol)
								}
							}
							if side == "?" && len(pred.Instrs) > 0 {
								if iff, isIf := pred.Instrs[len(pred.Instrs)-1].(*ssa.If); isIf {
									cd, pol := flattenCond(iff.Cond, true)
									if cd == ssa.Value(isFile) {
										// the edge leaves the test itself: which successor is the join?
										if pred.Succs[0] == ph.Block() {
											side = fmt.Sprint(pol)
										} else {
											side = fmt.Sprint(!pol)
										}
									}
								}
							}
							nexts[f+"@"+side] = true
						}
						return
					}
					if _, f, ok := fieldOfLoad(c.Common().Args[0]); ok {
						side := "?"
						for _, g := range guardsOf(c.Block()) {
							cd, pol := flattenCond(g.Cond, g.Pol)
							if cd == ssa.Value(isFile) {
								side = fmt.Sprint(pol)
							}
						}
						nexts[f+"@"+side] = true
					}
				}
			})
			construct := "one counter per node, chosen by isFile"
			if isFile != nil && p.Cfg.Name == "W" && wOnlyFunc(w, isFile.Common().StaticCallee()) {
				l.bad(fid, construct, p.InstrPos(isFile), "the variant decides what a file is with a predicate of its own ("+p.FuncID(isFile.Common().StaticCallee())+") instead of the one compiled into both builds: the 'N directories, M files' line of the dry-run report is no longer the default build's for every extension list", "colorize")
			} else if mn, mx := pathCallCounts(fn, nextCalls); isFile != nil && nexts["fileCounter@true"] && nexts["dirCounter@false"] && len(nexts) == 2 && (mn != 1 || mx != 1) {
				l.bad(fid, construct, p.Pos(fn.Pos()), fmt.Sprintf("a route through colorize advances a counter %d time(s), another %d: a node that is printed (and that the real run creates) is not counted exactly once, so the 'N directories, M files' line no longer predicts the real run", mn, mx), "colorize")
			} else if isFile != nil && nexts["fileCounter@true"] && nexts["dirCounter@false"] && len(nexts) == 2 {
				l.ok(fid, construct, p.Pos(fn.Pos()), "fileCounter.next() on the isFile side, dirCounter.next() on the other, exactly one of them on every route through colorize", true, "colorize")
			} else {
				l.bad(fid, construct, p.Pos(fn.Pos()), "colorize does not increment fileCounter exactly on the isFile side and dirCounter exactly on the other (found "+strings.Join(sortedKeys(nexts), ", ")+")", "colorize")
			}
		}
	})
	if n == 0 {
		l.undecided("-", "summary() call sites", "-", "none found", "count")
	}
	return l.list
}

// pathCallCounts: min and max number of the given calls over acyclic entry→exit paths (back edges cut).
func pathCallCounts(fn *ssa.Function, calls []*ssa.Call) (int, int) {
	cnt := map[*ssa.BasicBlock]int{}
	for _, c := range calls {
		cnt[c.Block()]++
	}
	min, max := 1<<30, -1
	onPath := map[*ssa.BasicBlock]bool{}
	var walk func(b *ssa.BasicBlock, k int)
	walk = func(b *ssa.BasicBlock, k int) {
		if onPath[b] {
			return // back edge
		}
		onPath[b] = true
		k += cnt[b]
		term := true
		for _, s := range b.Succs {
			if !onPath[s] {
				term = false
			}
		}
		if len(b.Succs) == 0 || term {
			if k < min {
				min = k
			}
			if k > max {
				max = k
			}
		}
		for _, s := range b.Succs {
			walk(s, k)
		}
		onPath[b] = false
	}
	walk(fn.Blocks[0], 0)
	return min, max
}

// ---------------------------------------------------------------------------------------------
// PAIR-6

// yamlCloseObligation: closing a YAML encoder that has not encoded anything is an error of its own ("yaml: expected
// STREAM-START"): Close — called, deferred, or bound as a method value and handed on — must come after an Encode on
// the same encoder on every route, otherwise input without a root (empty, blank) turns from "empty output, nil" into an
// error.  Returns where the encoder is closed unsafely, or "".
func yamlCloseObligation(p *Prog, c *ssa.Call) string {
	f := c.Common().StaticCallee()
	if f == nil || fname(f) != "NewEncoder" || pkgOfFunc(f) == nil || pkgOfFunc(f).Pkg.Path() != "gopkg.in/yaml.v3" {
		return ""
	}
	closeAt := ""
	vals := append([]ssa.Value{c}, cellLoadsOfValue(c)...)
	for _, v := range vals {
		if v.Referrers() == nil {
			continue
		}
		for _, r := range *v.Referrers() {
			switch x := r.(type) {
			case *ssa.MakeClosure:
				if strings.HasSuffix(x.Fn.Name(), "Close$bound") {
					closeAt = p.InstrPos(x) + " (bound as a function value; whoever calls it cannot know whether anything was encoded)"
				}
			case ssa.CallInstruction:
				m := x.Common().StaticCallee()
				if m == nil || m.Name() != "Close" || len(x.Common().Args) == 0 || x.Common().Args[0] != v {
					continue
				}
				if _, isDefer := x.(*ssa.Defer); isDefer {
					closeAt = p.InstrPos(x) + " (deferred: runs also when nothing was encoded)"
					continue
				}
				dom := false
				for _, v2 := range vals {
					if v2.Referrers() == nil {
						continue
					}
					for _, r2 := range *v2.Referrers() {
						if e, ok := r2.(*ssa.Call); ok && e.Common().StaticCallee() != nil && e.Common().StaticCallee().Name() == "Encode" {
							xi := x.(ssa.Instruction)
							if e.Block() == xi.Block() && instrIndex(e) < instrIndex(xi) || (e.Block() != xi.Block() && e.Block().Dominates(xi.Block())) {
								dom = true
							}
						}
					}
				}
				if !dom {
					closeAt = p.InstrPos(x) + " (no Encode on the same encoder is certain to have happened before)"
				}
			}
		}
	}
	return closeAt
}

func rulePAIR6(w *World) []Ob {
	l := &obs{rule: "PAIR-6"}
	n := 0
	eachLibFuncDW(w, func(p *Prog, fn *ssa.Function) {
		l.cfg = p.Cfg.Name
		fid := p.FuncID(fn)
		num := numbered{}
		allInstrs(fn, func(in ssa.Instruction) {
			c, ok := in.(*ssa.Call)
			if !ok {
				return
			}
			if at := yamlCloseObligation(p, c); at != "" {
				n++
				l.bad(fid, "a YAML encoder is closed only after it has encoded", p.InstrPos(c), "the YAML encoder made here is closed at "+at+": yaml.v3 refuses to close an encoder that has not encoded a document (\"yaml: expected STREAM-START\"), so input without any root — empty or blank — returns an error instead of empty output and nil", "encoder")
			}
			isCtor := false
			what := ""
			if f := c.Common().StaticCallee(); f != nil && fname(f) == "NewEncoder" && !p.InModule(f) {
				// the constructor inside the factory closure itself is fine; what matters is where the factory is invoked
				if fn.Parent() != nil && strings.HasPrefix(fname(fn.Parent()), "new") {
					return
				}
				isCtor, what = true, f.String()
			}
			if c.Common().StaticCallee() == nil && !c.Common().IsInvoke() {
				if _, f, ok := fieldOfLoad(c.Common().Value); ok && f == "encode" {
					isCtor, what = true, "encoder factory f.encode"
				}
			}
			if !isCtor {
				return
			}
			n++
			construct := num.name("encoder construction " + what)
			// the encoder is used as constructed: nothing but Encode (and Close) is called on it
			if f := c.Common().StaticCallee(); f != nil && fname(f) == "NewEncoder" {
				cfgCall := ""
				for _, v := range append([]ssa.Value{c}, cellLoadsOfValue(c)...) {
					if v.Referrers() == nil {
						continue
					}
					for _, r := range *v.Referrers() {
						if ci, ok := r.(ssa.CallInstruction); ok && len(ci.Common().Args) > 0 && ci.Common().Args[0] == v {
							if m := ci.Common().StaticCallee(); m != nil && m.Name() != "Encode" && m.Name() != "Close" {
								// an opt-in feature: the reconfiguration happens only under a condition that comes from
								// the caller (an option value handed in as parameter, field or captured variable)
								optIn := false
								for _, g := range guardsOf(ci.(ssa.Instruction).Block()) {
									cond, _ := flattenCond(g.Cond, g.Pol)
									if _, isConst := cond.(*ssa.Const); isConst {
										continue
									}
									switch src := resolve(cond).(type) {
									case *ssa.Parameter, *ssa.FreeVar:
										optIn = true
									default:
										if _, _, isField := fieldOfLoad(src); isField {
											optIn = true
										}
										// a comparison of such a value with a constant (indent != "", width > 0)
										if valueFromOption(src, 0) {
											optIn = true
										}
									}
								}
								if !optIn && len(ci.Common().Args) > 1 {
									derived := true
									for _, a := range ci.Common().Args[1:] {
										if _, isConst := a.(*ssa.Const); isConst {
											derived = false
										}
										if !valueFromOption(a, 0) {
											derived = false
										}
									}
									optIn = derived
								}
								if !optIn {
									cfgCall = m.Name()
								}
							}
						}
					}
				}
				if cfgCall != "" {
					l.bad(fid, construct, p.InstrPos(c), "the encoder is reconfigured with "+cfgCall+"(): its output no longer is the library default that the other build variant / mode produces", "encoder")
					return
				}
			}
			if inLoop(c) {
				l.bad(fid, construct, p.InstrPos(c), "the encoder is constructed inside the per-root loop: each root gets a fresh encoder (YAML documents lose their '---' separators, buffered state is split)", "encoder")
				return
			}
			// is the enclosing function called from inside a loop?
			for _, ci := range p.Callers(outermostNamed(fn)) {
				if inLoop(ci.(ssa.Instruction)) && p.PkgPath(ci.Parent()) == modulePath {
					l.bad(fid, construct, p.InstrPos(c), "the function that constructs the encoder is called inside a loop at "+p.InstrPos(ci.(ssa.Instruction))+": one encoder per root instead of one per call", "encoder")
					return
				}
			}
			l.ok(fid, construct, p.InstrPos(c), "constructed once per spread call, outside any loop", true, "encoder")
		})
	})
	if n == 0 {
		l.undecided("-", "encoder constructions", "-", "none found", "encoder")
	}
	return l.list
}

func outermostNamed(fn *ssa.Function) *ssa.Function {
	// closures that are goroutine bodies count as their own unit; walk up only for plain nested funcs
	return fn
}

// ---------------------------------------------------------------------------------------------
// PAIR-7

func isYieldParam(v ssa.Value) bool {
	if _, ok := v.(*ssa.Parameter); !ok {
		return false
	}
	sig, ok := v.Type().Underlying().(*types.Signature)
	if !ok || sig.Results().Len() != 1 {
		return false
	}
	b, ok := sig.Results().At(0).Type().Underlying().(*types.Basic)
	return ok && b.Kind() == types.Bool
}

func rulePAIR7(w *World) []Ob {
	p := w.D()
	l := &obs{rule: "PAIR-7", cfg: "D"}
	nc := newNilCtx(p)
	n := 0
	for _, fn := range libFuncs(p) {
		// iterator bodies: functions with a yield parameter that they call
		var yieldPrm *ssa.Parameter
		for _, prm := range fn.Params {
			if isYieldParam(prm) {
				yieldPrm = prm
			}
		}
		if yieldPrm == nil {
			continue
		}
		var ys []*ssa.Call   // direct yield calls
		var evs []*ssa.Call  // everything that can call yield: direct calls and calls handing yield on
		passesOn := false
		allInstrs(fn, func(in ssa.Instruction) {
			c, ok := in.(*ssa.Call)
			if !ok {
				return
			}
			if sameVar(c.Common().Value, yieldPrm) && c.Common().StaticCallee() == nil {
				ys = append(ys, c)
				evs = append(evs, c)
			}
			for _, a := range c.Common().Args {
				if sameVar(a, yieldPrm) {
					passesOn = true
					evs = append(evs, c)
				}
			}
		})
		if len(ys) == 0 && !passesOn {
			continue
		}
		n++
		fid := p.FuncID(fn)
		construct := "yield discipline"
		if onlyPulled(p, fn, 0) {
			l.ok(fid, construct, p.Pos(fn.Pos()), "this producer is consumed only through iter.Pull2, whose yield is idempotent after stop: exempt", false, "yield-exempt")
			continue
		}
		bad := ""
		if passesOn && len(ys) == 0 {
			bad = "the yield function is handed to a helper; the helper's discipline is not analysed"
			// helper functions with a yield parameter are themselves analysed as iterator bodies
			bad = ""
		}
		for _, y := range ys {
			// the paired error argument non-nil ⇒ nothing may follow
			errArg := false
			for _, a := range y.Common().Args {
				if isErrorType(a.Type()) && nc.nonNil(a, y, 0) {
					errArg = true
				}
			}
			for _, z := range evs {
				if !reachableAfter(y, z) {
					continue
				}
				if errArg {
					bad = "after an error was yielded at " + p.InstrPos(y) + " another yield is reachable at " + p.InstrPos(z)
					continue
				}
				// z must lie on the true side of y's result
				okSide := false
				for _, g := range guardsOf(z.Block()) {
					c, pol := flattenCond(g.Cond, g.Pol)
					if c == ssa.Value(y) && pol {
						okSide = true
					}
				}
				if z == y {
					// loop: the back edge must pass the true side
					okSide = loopBackOnTrueSide(y)
				}
				if !okSide && !trueSideReaches(y, z) {
					bad = "yield at " + p.InstrPos(z) + " is reachable after the yield at " + p.InstrPos(y) + " returned false (its result is not tested)"
				}
			}
		}
		// a body that itself reports "go on?" as a bool: once a yield — or a helper / recursive call that was handed the
		// yield and reports the same — has said stop, the body says stop too; a `return true` on that side makes the
		// caller go on with the siblings
		if res := fn.Signature.Results(); res.Len() == 1 {
			if bt, isB := res.At(0).Type().Underlying().(*types.Basic); isB && bt.Kind() == types.Bool {
				for _, y := range evs {
					yb, isBool := y.Type().Underlying().(*types.Basic)
					if !isBool || yb.Kind() != types.Bool {
						continue
					}
					var iff *ssa.If
					var neg bool
					var find func(v ssa.Value, n bool)
					find = func(v ssa.Value, n bool) {
						if v.Referrers() == nil {
							return
						}
						for _, r := range *v.Referrers() {
							switch x := r.(type) {
							case *ssa.If:
								iff, neg = x, n
							case *ssa.UnOp:
								if x.Op == token.NOT {
									find(x, !n)
								}
							}
						}
					}
					find(y, false)
					if iff == nil {
						continue
					}
					falseSucc := iff.Block().Succs[1]
					if neg {
						falseSucc = iff.Block().Succs[0]
					}
					for blk := range blockReach(falseSucc, map[*ssa.BasicBlock]bool{y.Block(): true}) {
						for _, in2 := range blk.Instrs {
							if r, isR := in2.(*ssa.Return); isR && len(rr(r)) == 1 {
								if k, isC := constBool(rr(r)[0]); isC && k {
									bad = "after " + calleeString(y.Common()) + " at " + p.InstrPos(y) + " reported stop, the body returns true at " + p.InstrPos(r) + ": its caller goes on with the remaining nodes"
								}
							}
						}
					}
				}
			}
		}
		// a deferred closure that calls yield runs after every other yield, including a failed one
		allInstrs(fn, func(in ssa.Instruction) {
			d, ok := in.(*ssa.Defer)
			if !ok {
				return
			}
			mk, ok := d.Common().Value.(*ssa.MakeClosure)
			if !ok {
				return
			}
			callsYield := false
			allInstrs(mk.Fn.(*ssa.Function), func(in2 ssa.Instruction) {
				if c, ok := in2.(*ssa.Call); ok && c.Common().StaticCallee() == nil && !c.Common().IsInvoke() {
					if fv, ok := resolve(c.Common().Value).(*ssa.Parameter); ok && fv == yieldPrm {
						callsYield = true
					}
					if ld, ok := isLoad(c.Common().Value); ok && rootCell(ld) != nil {
						for _, st := range cellStores(ld) {
							if st.Val == ssa.Value(yieldPrm) {
								callsYield = true
							}
						}
					}
				}
			})
			if callsYield && len(ys) > 0 {
				bad = "a deferred function calls yield at function exit (" + p.InstrPos(d) + "), i.e. after a yield that may have returned false or delivered an error"
			}
		})
		if bad != "" {
			l.bad(fid, construct, p.Pos(fn.Pos()), bad+": ranging over this iterator and breaking out panics or visits nodes after the break", "yield")
		} else {
			l.ok(fid, construct, p.Pos(fn.Pos()), fmt.Sprintf("%d yield call(s); none reachable after a false result or a yielded error", len(ys)), true, "yield")
		}
	}
	if n == 0 {
		l.undecided("-", "iterator bodies", "-", "none found", "yield")
	}
	return l.list
}

// trueSideReaches: every path from y to z goes through the true successor of a branch on y's result.
func trueSideReaches(y, z *ssa.Call) bool {
	var iff *ssa.If
	var neg bool
	var find func(v ssa.Value, n bool)
	find = func(v ssa.Value, n bool) {
		for _, r := range *v.Referrers() {
			switch x := r.(type) {
			case *ssa.If:
				iff, neg = x, n
			case *ssa.UnOp:
				if x.Op.String() == "!" {
					find(x, !n)
				}
			}
		}
	}
	find(y, false)
	if iff == nil {
		return false
	}
	falseSucc := iff.Block().Succs[1]
	if neg {
		falseSucc = iff.Block().Succs[0]
	}
	// z must not be reachable from the false successor without passing y again
	return !blockReach(falseSucc, map[*ssa.BasicBlock]bool{y.Block(): true})[z.Block()]
}

func loopBackOnTrueSide(y *ssa.Call) bool { return trueSideReaches(y, y) }

// onlyPulled: the iterator body fn is consumed only through iter.Pull2.  For a closure: the closure
// value flows (through conversions, returns and module parameters) only into iter.Pull2.  For a helper
// with a yield parameter: every caller hands it the yield parameter of an exempt body.
func onlyPulled(p *Prog, fn *ssa.Function, depth int) bool {
	if depth > 4 {
		return false
	}
	if mk := makeClosureOf(fn); mk != nil {
		return valueOnlyPulled(p, mk, 0)
	}
	callers := p.Callers(fn)
	if len(callers) == 0 {
		return false
	}
	for _, ci := range callers {
		passesYield := false
		for _, a := range callArgs(ci.Common()) {
			if prm, ok := resolve(a).(*ssa.Parameter); ok && isYieldParam(prm) {
				passesYield = true
				if prm.Parent() != fn && !onlyPulled(p, prm.Parent(), depth+1) {
					return false
				}
			}
		}
		if !passesYield {
			return false
		}
	}
	return true
}

func isPull2(com *ssa.CallCommon) bool {
	f := com.StaticCallee()
	return f != nil && strings.HasPrefix(f.String(), "iter.Pull2")
}

func valueOnlyPulled(p *Prog, v ssa.Value, depth int) bool {
	if v.Referrers() == nil || depth > 5 {
		return false
	}
	for _, r := range *v.Referrers() {
		switch x := r.(type) {
		case *ssa.DebugRef:
		case ssa.CallInstruction:
			if isPull2(x.Common()) {
				continue
			}
			// handed to a module function: follow the corresponding parameter
			okAll := true
			callees := p.ModCallees(x)
			if len(callees) == 0 {
				return false
			}
			for _, callee := range callees {
				args := callArgs(x.Common())
				for i, a := range args {
					if a == v && i < len(callee.Params) {
						if !paramOnlyPulled(p, callee.Params[i], depth+1) {
							okAll = false
						}
					}
				}
			}
			if !okAll {
				return false
			}
		case *ssa.ChangeType:
			if !valueOnlyPulled(p, x, depth) {
				return false
			}
		case *ssa.Return:
			callers := p.Callers(x.Parent())
			if len(callers) == 0 {
				return false
			}
			for _, ci := range callers {
				cv, ok := ci.(ssa.Value)
				if !ok || !valueOnlyPulled(p, cv, depth+1) {
					return false
				}
			}
		case *ssa.Store:
			for _, ld := range cellLoads(x.Addr) {
				if !valueOnlyPulled(p, ld, depth+1) {
					return false
				}
			}
		default:
			return false
		}
	}
	return true
}

func paramOnlyPulled(p *Prog, prm *ssa.Parameter, depth int) bool {
	// the parameter may be returned unchanged (no-op grower) — then the callers' uses decide
	if prm.Referrers() == nil {
		return true
	}
	for _, r := range *prm.Referrers() {
		switch x := r.(type) {
		case *ssa.Return:
			for _, ci := range p.Callers(prm.Parent()) {
				if v, ok := ci.(ssa.Value); ok && !valueOnlyPulled(p, v, depth+1) {
					return false
				}
			}
		case *ssa.DebugRef:
		case *ssa.Store:
			for _, ld := range cellLoads(x.Addr) {
				if !valueOnlyPulled(p, ld, depth+1) {
					return false
				}
			}
		case ssa.CallInstruction:
			if !isPull2(x.Common()) {
				return false
			}
		default:
			return false
		}
	}
	return true
}


// reachableAvoidingLinks: can the return be reached from the entry without executing an addChild call
// and without passing the non-nil side of a findChildByText test?
func reachableAvoidingLinks(fn *ssa.Function, r *ssa.Return, adds []*ssa.Call) bool {
	stop := map[*ssa.BasicBlock]bool{}
	for _, a := range adds {
		stop[a.Block()] = true
	}
	// merge sides
	allInstrs(fn, func(in ssa.Instruction) {
		iff, ok := in.(*ssa.If)
		if !ok {
			return
		}
		tv, nonNil, ok := nilTest(iff.Cond, true)
		if !ok {
			return
		}
		if c, ok := stripConv(tv).(*ssa.Call); ok && c.Common().StaticCallee() != nil && fname(c.Common().StaticCallee()) == "findChildByText" {
			if nonNil {
				stop[iff.Block().Succs[0]] = true
			} else {
				stop[iff.Block().Succs[1]] = true
			}
		}
	})
	if stop[r.Block()] {
		return false
	}
	return blockReach(fn.Blocks[0], stop)[r.Block()]
}

// actsBeforeValidating: f is used as "the validator" of an entry point.  Either f has no effects at all (it only inspects
// the node), or f itself starts with a validator call and does everything else on that call's nil side.
func actsBeforeValidating(p *Prog, nc *nilCtx, f *ssa.Function, depth int) string {
	if f == nil || f.Blocks == nil || depth > 2 {
		return ""
	}
	var inner *ssa.Call
	for _, in := range f.Blocks[0].Instrs {
		if c, ok := in.(*ssa.Call); ok {
			if g := c.Common().StaticCallee(); g != nil && nc.nilRetImp[g] != nil {
				inner = c
			}
			break
		}
	}
	why := ""
	allInstrs(f, func(in ssa.Instruction) {
		if why != "" {
			return
		}
		switch x := in.(type) {
		case *ssa.Store:
			if _, isLocal := x.Addr.(*ssa.Alloc); isLocal {
				return
			}
			if inner == nil || !guardedNil(inner, in) {
				why = "writes state (" + p.InstrPos(in) + ") before a nil or non-root node is rejected"
			}
		case ssa.CallInstruction:
			if inner != nil && (in == ssa.Instruction(inner) || guardedNil(inner, in)) {
				return
			}
			g := x.Common().StaticCallee()
			if g == nil {
				why = "makes a dynamic call (" + p.InstrPos(in) + ") before a nil or non-root node is rejected"
				return
			}
			if !p.InModule(g) {
				if classifyExternal(g) != EffPure {
					why = "calls " + calleeString(x.Common()) + " before a nil or non-root node is rejected"
				}
				return
			}
			if w := actsBeforeValidating(p, nc, g, depth+1); w != "" && (inner == nil || in != ssa.Instruction(inner)) {
				// a callee that writes: only harmless when it is itself a pure predicate
				if hasEffects(p, g, 0) {
					why = "calls " + calleeString(x.Common()) + ", which has effects, before a nil or non-root node is rejected"
				}
			}
		}
	})
	if why == "" && inner != nil {
		return actsBeforeValidating(p, nc, inner.Common().StaticCallee(), depth+1)
	}
	return why
}

// hasEffects: f (or a module callee) stores to non-local memory or calls an external function with effects.
func hasEffects(p *Prog, f *ssa.Function, depth int) bool {
	if f == nil || f.Blocks == nil || depth > 3 {
		return false
	}
	eff := false
	allInstrs(f, func(in ssa.Instruction) {
		switch x := in.(type) {
		case *ssa.Store:
			if _, isLocal := x.Addr.(*ssa.Alloc); !isLocal {
				eff = true
			}
		case *ssa.MapUpdate:
			eff = true
		case ssa.CallInstruction:
			g := x.Common().StaticCallee()
			switch {
			case g == nil:
				eff = true
			case !p.InModule(g):
				if classifyExternal(g) != EffPure {
					eff = true
				}
			default:
				if hasEffects(p, g, depth+1) {
					eff = true
				}
			}
		}
	})
	return eff
}

// valueFromOption: v is computed (by !, comparisons, conversions) from a parameter, a captured variable or a field —
// i.e. from something the caller chose — and from nothing else.
func valueFromOption(v ssa.Value, d int) bool {
	if d > 5 {
		return false
	}
	switch x := resolve(v).(type) {
	case *ssa.Parameter, *ssa.FreeVar:
		return true
	case *ssa.UnOp:
		if x.Op == token.MUL {
			if _, _, isField := fieldOfLoad(x); isField {
				return true
			}
			return false
		}
		return valueFromOption(x.X, d+1)
	case *ssa.BinOp:
		_, cx := x.X.(*ssa.Const)
		_, cy := x.Y.(*ssa.Const)
		return (cx || valueFromOption(x.X, d+1)) && (cy || valueFromOption(x.Y, d+1)) && !(cx && cy)
	case *ssa.Convert:
		return valueFromOption(x.X, d+1)
	}
	return false
}


// rootOnlyDelegated: the function does nothing with its node parameter but hand it — directly or from inside function
// literals that capture it — to exported entry points of the library in a node position (each of which is checked by
// PAIR-4 itself), it has no sink parameter of its own to write to, and nothing that changes the filesystem or starts a
// process is reachable from it except through those entry points.
func rootOnlyDelegated(p *Prog, body *ssa.Function, root ssa.Value) (string, bool) {
	for _, prm := range body.Params {
		if isSinkType(prm.Type()) {
			return "", false
		}
	}
	delegates := map[*ssa.Function]bool{}
	var uses func(v ssa.Value, d int) bool
	uses = func(v ssa.Value, d int) bool {
		if v.Referrers() == nil || d > 6 {
			return false
		}
		for _, r := range *v.Referrers() {
			switch x := r.(type) {
			case *ssa.DebugRef:
			case *ssa.Call:
				g := x.Common().StaticCallee()
				if g == nil || g == body || g.Object() == nil || !g.Object().Exported() || p.PkgPath(g) != modulePath || g.Signature.Recv() != nil {
					return false
				}
				found := false
				for i, a := range x.Common().Args {
					if a == v {
						if i >= len(g.Params) || !isNodePtr(g.Params[i].Type()) {
							return false
						}
						found = true
					}
				}
				if !found {
					return false
				}
				delegates[g] = true
			case *ssa.MakeClosure:
				fn := x.Fn.(*ssa.Function)
				for i, b := range x.Bindings {
					if b == v {
						if i >= len(fn.FreeVars) || !uses(fn.FreeVars[i], d+1) {
							return false
						}
					}
				}
			case *ssa.Store:
				// the cell of a captured parameter: written once here, then only read or captured
				al, isAl := x.Addr.(*ssa.Alloc)
				if x.Val == v && isAl {
					if !uses(al, d+1) {
						return false
					}
				} else if x.Addr != v || d == 0 {
					return false
				} else {
					// the initialising store seen from the cell: exactly one
					n := 0
					for _, r2 := range *v.Referrers() {
						if _, isSt := r2.(*ssa.Store); isSt {
							n++
						}
					}
					if n != 1 {
						return false
					}
				}
			case *ssa.UnOp:
				if x.Op != token.MUL || !uses(x, d+1) {
					return false
				}
			default:
				return false
			}
		}
		return true
	}
	if !uses(root, 0) || len(delegates) == 0 {
		return "", false
	}
	ds := directSites(p)
	effectful := func(f *ssa.Function) bool {
		for _, s := range ds[f] {
			if s.eff == EffFSMutate || s.eff == EffExec || s.eff == EffProcess {
				return true
			}
		}
		return false
	}
	if findPath(p, body, effectful, func(_ *ssa.Function, e callEdge) bool { return delegates[e.to] }) != nil {
		return "", false
	}
	var names []string
	for g := range delegates {
		names = append(names, relFunc(g))
	}
	sort.Strings(names)
	return strings.Join(names, ", "), true
}
