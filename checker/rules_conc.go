package main

// CONC — pipeline discipline of the massive mode (package gtree, default build).
//
// CONC-1  no hand-over can block forever: every send / select / plain receive either has a
//         ctx.Done() alternative or is a single send into a buffered channel that nobody else
//         sends to.
// CONC-2  every channel is closed exactly once, in a defer of the goroutine that owns it, after the
//         workers that send on it have been joined (wg.Add before go, defer wg.Done, wg.Wait).
// CONC-3  every pipeline operation derives a cancellable context, defers cancel, and hands exactly
//         that context to every stage; stages use only the context they were given; the error
//         collector waits on the errgroup's derived context.
// CONC-4  lockset: fields of objects shared by concurrently running worker instances that are
//         written by worker code are only accessed with the object's mutex held.
// CONC-5  whole-root critical section: in a multi-instance worker every call that can write to the
//         shared writer is made with the spreader's lock held in the worker frame.
// CONC-6  fields that worker code writes on an object shared by worker instances (state "learnt"
//         across roots) — each must be listed as benign.

import (
	"fmt"
	"go/token"
	"go/types"
	"sort"
	"strings"

	"golang.org/x/tools/go/ssa"
)

func init() {
	register(&Rule{ID: "CONC-1", Doc: "every channel send, blocking select and plain receive in the library either has a <-ctx.Done() alternative or is the only send into a buffered channel from a goroutine started once", Run: ruleCONC1})
	register(&Rule{ID: "CONC-2", Doc: "each make(chan) is closed exactly once, in a defer of the goroutine started next to it; other senders are workers started from that goroutine with wg.Add before go, defer wg.Done first, and wg.Wait before it returns", Run: ruleCONC2})
	register(&Rule{ID: "CONC-3", Doc: "each pipeline operation derives ctx with context.WithCancel, defers cancel, passes that ctx (SSA identity) to every stage; stages use only their ctx parameter; errgroup collectors select on the group's derived context", Run: ruleCONC3})
	register(&Rule{ID: "CONC-4", Doc: "lockset: a field of an object shared by worker instances that worker-reachable code writes is accessed only with that object's mutex held (Lock dominates, no Unlock between; callee summaries 'entered with lock held')", Run: ruleCONC4})
	register(&Rule{ID: "CONC-5", Doc: "in multi-instance workers every call that can reach a write to the shared io.Writer is made between Lock and Unlock of the spreader in the worker's own frame (one root = one critical section)", Run: ruleCONC5})
	register(&Rule{ID: "CONC-6", Doc: "no cross-worker learned state: fields written by worker-reachable code on objects shared by worker instances are reported unless listed benign", Run: ruleCONC6})
}

func libFuncs(p *Prog) []*ssa.Function {
	var out []*ssa.Function
	for _, fn := range p.ModFuncs {
		if p.PkgPath(fn) == modulePath || p.PkgPath(fn) == modulePath+"/markdown" {
			out = append(out, fn)
		}
	}
	return out
}

// isDoneChan: v is X.Done() for a context.Context X; returns X.
func isDoneChan(v ssa.Value) (ssa.Value, bool) {
	c, ok := resolve(v).(*ssa.Call)
	if !ok {
		return nil, false
	}
	com := c.Common()
	if com.IsInvoke() && methodName(com.Method) == "Done" && isContextType(com.Value.Type()) {
		return com.Value, true
	}
	return nil, false
}

type numbered map[string]int

func (n numbered) name(s string) string {
	n[s]++
	if n[s] > 1 {
		return fmt.Sprintf("%s #%d", s, n[s])
	}
	return s
}

// sendsTo lists all send operations in the library whose channel resolves to mc.
type sendSite struct {
	fn    *ssa.Function
	instr ssa.Instruction
	ch    ssa.Value
	val   ssa.Value
}

func allSendSites(p *Prog) []sendSite {
	var out []sendSite
	for _, fn := range libFuncs(p) {
		allInstrs(fn, func(in ssa.Instruction) {
			switch x := in.(type) {
			case *ssa.Send:
				out = append(out, sendSite{fn, x, x.Chan, x.X})
			case *ssa.Select:
				for _, st := range x.States {
					if st.Dir == types.SendOnly {
						out = append(out, sendSite{fn, x, st.Chan, st.Send})
					}
				}
			}
		})
	}
	return out
}

// handoverAliasObligations: a slice or map handed to another goroutine through a channel belongs to the receiver from
// then on — the sender does not go on writing into its storage (reusing it as buf[:0], appending to it, storing into
// its elements): the receiver would read what the sender is overwriting for the next item.
func handoverAliasObligations(p *Prog) []Ob {
	var out []Ob
	for _, s := range allSendSites(p) {
		v := s.val
		switch v.Type().Underlying().(type) {
		case *types.Slice, *types.Map:
		default:
			continue
		}
		fn := s.fn
		same := func(x ssa.Value) bool {
			x = stripConv(x)
			return x == v || sameVar(x, v)
		}
		why := ""
		allInstrs(fn, func(in ssa.Instruction) {
			if why != "" || !reachableAfter(s.instr, in) {
				return
			}
			switch x := in.(type) {
			case *ssa.Slice:
				if !same(x.X) {
					return
				}
				// v[:0] (or any re-slice) that is then appended to / stored back
				for _, r := range *x.Referrers() {
					switch y := r.(type) {
					case *ssa.Call:
						if isBuiltinCall(y, "append") && len(y.Common().Args) > 0 && y.Common().Args[0] == ssa.Value(x) {
							why = "re-sliced at " + p.InstrPos(x) + " and appended to at " + p.InstrPos(y)
						}
					case *ssa.Phi, *ssa.Store:
						why = "re-sliced at " + p.InstrPos(x) + " for reuse"
					}
				}
			case *ssa.Call:
				if isBuiltinCall(x, "append") && len(x.Common().Args) > 0 && same(x.Common().Args[0]) {
					why = "appended to at " + p.InstrPos(x)
				}
				if isBuiltinCall(x, "clear") && len(x.Common().Args) > 0 && same(x.Common().Args[0]) {
					why = "cleared at " + p.InstrPos(x)
				}
			case *ssa.Store:
				if ia, ok := x.Addr.(*ssa.IndexAddr); ok && same(ia.X) {
					why = "written into at " + p.InstrPos(x)
				}
			case *ssa.MapUpdate:
				if same(x.Map) {
					why = "updated at " + p.InstrPos(x)
				}
			}
		})
		ob := Ob{Rule: "CONC-2", Cfg: p.Cfg.Name, Func: p.FuncID(fn), Construct: "a " + v.Type().String() + " sent on a channel is not touched by the sender afterwards", Pos: p.InstrPos(s.instr), Nontrivial: true, Role: "handover-alias"}
		if why != "" {
			ob.Status = Violation
			ob.Detail = "after the value was sent it is " + why + " in the sending function: the storage now also belongs to the receiving goroutine, which reads it while the sender writes the next item into it — a data race, and items that show another item's content"
		} else {
			ob.Status = OK
			ob.Detail = "the sender neither re-slices, appends to, clears nor stores into the value after the send"
		}
		out = append(out, ob)
	}
	return out
}

func ruleCONC1(w *World) []Ob {
	p := w.D()
	l := &obs{rule: "CONC-1", cfg: "D"}
	sends := allSendSites(p)
	for _, o := range poolObligations(p) {
		l.add(o)
	}
	for _, fn := range libFuncs(p) {
		fid := p.FuncID(fn)
		num := numbered{}
		allInstrs(fn, func(in ssa.Instruction) {
			switch x := in.(type) {
			case *ssa.Send:
				construct := num.name("send " + describeValue(x.Chan) + " <- " + describeValue(x.X))
				ok, why := boundedBufferedSend(p, x, sends)
				if ok {
					l.ok(fid, construct, p.InstrPos(x), why, true, "send-plain")
				} else {
					l.bad(fid, construct, p.InstrPos(x), "blocking send with no <-ctx.Done() alternative: "+why, "send-plain")
				}
			case *ssa.Select:
				var parts []string
				hasSend, hasDone := false, false
				for _, st := range x.States {
					if st.Dir == types.SendOnly {
						hasSend = true
						parts = append(parts, describeValue(st.Chan)+"<-")
					} else {
						if _, ok := isDoneChan(st.Chan); ok {
							hasDone = true
							parts = append(parts, "<-Done")
						} else {
							parts = append(parts, "<-"+describeValue(st.Chan))
						}
					}
				}
				sort.Strings(parts)
				role := "select-recv"
				if hasSend {
					role = "select-send"
				}
				construct := num.name("select{" + strings.Join(parts, ",") + "}")
				switch {
				case !x.Blocking:
					l.ok(fid, construct, p.InstrPos(x), "non-blocking select (default arm)", false, "select-poll")
				case hasDone:
					l.ok(fid, construct, p.InstrPos(x), "blocking select has a <-ctx.Done() arm (which context: CONC-3)", true, role)
				default:
					l.bad(fid, construct, p.InstrPos(x), "blocking select without a <-ctx.Done() arm", role)
				}
			case *ssa.UnOp:
				if x.Op != token.ARROW {
					return
				}
				construct := num.name("receive <-" + describeValue(x.X))
				if _, ok := isDoneChan(x.X); ok {
					l.ok(fid, construct, p.InstrPos(x), "receive on ctx.Done()", false, "recv-plain")
					return
				}
				l.bad(fid, construct, p.InstrPos(x), "plain receive outside a select: blocks until a value arrives, with no cancellation alternative", "recv-plain")
			}
		})
	}
	return l.list
}

// boundedBufferedSend implements clause (b): the channel is make(chan T, n≥1) in F, the sender is a
// goroutine closure of F started once (go not in a loop), nobody else sends on the channel, and
// after any send no further send on it is reachable (so at most one send ≤ capacity).
func boundedBufferedSend(p *Prog, s *ssa.Send, sends []sendSite) (bool, string) {
	mc, ok := resolveArg(p, s.Chan).(*ssa.MakeChan)
	if !ok {
		return false, "the channel is not a make(chan) of the function that starts the sender (it is " + describeValue(s.Chan) + ")"
	}
	n, isConst := constInt(mc.Size)
	if !isConst || n < 1 {
		return false, "the channel is unbuffered"
	}
	g := s.Parent()
	gi := goStartOf(p, g)
	if gi == nil {
		return false, "the sender is not a function started by exactly one go statement"
	}
	if gi.Parent() != mc.Parent() {
		return false, "the sender is not started by the function that makes the channel"
	}
	if inLoop(gi) {
		return false, "the sending goroutine is started in a loop"
	}
	for _, o := range sends {
		if o.fn != g && (resolveArg(p, o.ch) == ssa.Value(mc) || containsValue(resolveArgAll(p, o.ch, 0), mc)) {
			return false, "another function (" + p.FuncID(o.fn) + ") also sends on this channel"
		}
	}
	// the channel must not be handed to any function (a callee could send); a direction conversion (chan<- T) is
	// still the channel
	var handles []ssa.Value
	for _, ld := range cellLoadsOfValue(mc) {
		handles = append(handles, ld)
	}
	for i := 0; i < len(handles); i++ {
		if handles[i].Referrers() == nil {
			continue
		}
		for _, r := range *handles[i].Referrers() {
			if ct, ok := r.(*ssa.ChangeType); ok {
				handles = append(handles, ct)
			}
		}
	}
	for _, ld := range handles {
		for _, r := range *ld.Referrers() {
			if ci, ok := r.(ssa.CallInstruction); ok {
				for _, a := range ci.Common().Args {
					if a == ld {
						if _, isB := ci.Common().Value.(*ssa.Builtin); !isB && ci != ssa.CallInstruction(gi) {
							if recvOnlyParam(ci, a) {
								continue
							}
							return false, "the channel is passed to " + calleeString(ci.Common()) + ", which could send on it"
						}
					}
				}
			}
		}
	}
	// after each send in g, no send on mc reachable
	var mine []ssa.Instruction
	for _, o := range sends {
		if o.fn == g && resolveArg(p, o.ch) == ssa.Value(mc) {
			mine = append(mine, o.instr)
		}
	}
	for _, a := range mine {
		for _, b := range mine {
			if reachableAfter(a, b) {
				return false, fmt.Sprintf("after the send at %s another send on the same channel (%s) is reachable, so more than %d value(s) may be sent", p.InstrPos(a), p.InstrPos(b), n)
			}
		}
	}
	return true, fmt.Sprintf("single send per goroutine into make(chan, %d) owned by a goroutine started once; no other sender", n)
}

// recvOnlyParam: the argument a of ci is received as a <-chan T (the callee cannot send on it).
func recvOnlyParam(ci ssa.CallInstruction, a ssa.Value) bool {
	ch, ok := a.Type().Underlying().(*types.Chan)
	return ok && ch.Dir() == types.RecvOnly
}

// cellLoadsOfValue: loads of the variable(s) that the value v is stored into (plus v itself as a pseudo-load).
func cellLoadsOfValue(v ssa.Value) []ssa.Value {
	out := []ssa.Value{v}
	if v.Referrers() == nil {
		return out
	}
	for _, r := range *v.Referrers() {
		if st, ok := r.(*ssa.Store); ok && st.Val == v {
			for _, ld := range cellLoads(st.Addr) {
				out = append(out, ld)
			}
		}
	}
	return out
}

// reachableAfter: can instruction b execute after instruction a (same function)?
func reachableAfter(a, b ssa.Instruction) bool {
	ab, bb := a.Block(), b.Block()
	if ab == bb {
		if instrIndex(b) > instrIndex(a) {
			return true
		}
	}
	for _, s := range ab.Succs {
		if canReach(s, bb) {
			return true
		}
	}
	return false
}

// ---------------------------------------------------------------------------------------------
// CONC-2

func isBuiltinCall(ci ssa.CallInstruction, name string) bool {
	b, ok := ci.Common().Value.(*ssa.Builtin)
	return ok && b.Name() == name
}

func isWGMethod(com *ssa.CallCommon, m string) bool {
	return calleeFullName(com) == "(*sync.WaitGroup)."+m
}

func ruleCONC2(w *World) []Ob {
	var aliasObs = handoverAliasObligations(w.D())
	p := w.D()
	l := &obs{rule: "CONC-2", cfg: "D"}
	// all close(ch) sites in the library
	type closeSite struct {
		fn    *ssa.Function
		instr ssa.CallInstruction
		ch    ssa.Value
	}
	var closes []closeSite
	for _, fn := range libFuncs(p) {
		allInstrs(fn, func(in ssa.Instruction) {
			if ci, ok := in.(ssa.CallInstruction); ok && isBuiltinCall(ci, "close") {
				closes = append(closes, closeSite{fn, ci, ci.Common().Args[0]})
			}
		})
	}
	matched := map[ssa.Instruction]bool{}
	for _, fn := range libFuncs(p) {
		fid := p.FuncID(fn)
		num := numbered{}
		allInstrs(fn, func(in ssa.Instruction) {
			mc, ok := in.(*ssa.MakeChan)
			if !ok {
				return
			}
			construct := num.name("make(" + relType(mc.Type()) + ") " + varNameOf(mc))
			pos := p.InstrPos(mc)
			var mine []closeSite
			for _, c := range closes {
				if resolveArg(p, c.ch) == ssa.Value(mc) || containsValue(resolveArgAll(p, c.ch, 0), mc) {
					mine = append(mine, c)
					matched[c.instr] = true
				}
			}
			if len(mine) != 1 {
				l.bad(fid, construct, pos, fmt.Sprintf("the channel has %d close sites; exactly one is required (0 leaves receivers waiting, >1 can close twice)", len(mine)), "chan")
				return
			}
			c := mine[0]
			// owner goroutine G: a closure of fn started by go in fn, containing the close in a defer
			g := c.fn
			deferred := false
			if _, isDefer := c.instr.(*ssa.Defer); isDefer {
				deferred = true
			} else if par := deferredIn(g); par != nil {
				// close inside a closure that is itself deferred in its parent
				deferred = true
				g = par
			}
			if !deferred {
				l.bad(fid, construct, pos, "close is not deferred: a panic or early return in the owner would skip it (or it may run before the senders finish)", "chan")
				return
			}
			ownerGo := goStartOf(p, g)
			if ownerGo == nil {
				ownerGo = goStartFor(p, g, fn, mc) // a named goroutine function shared by several makers
			}
			if ownerGo == nil || ownerGo.Parent() != fn {
				l.bad(fid, construct, pos, "the closing function "+p.FuncID(g)+" is not a goroutine started (once) by the function that makes the channel", "chan")
				return
			}
			// goroutines started with the channel: must be started inside g with wg discipline
			var problems []string
			workers := 0
			for _, f2 := range libFuncs(p) {
				allInstrs(f2, func(in2 ssa.Instruction) {
					gi, ok := in2.(*ssa.Go)
					if !ok {
						return
					}
					passes := false
					for _, a := range gi.Common().Args {
						if resolveArg(p, a) == ssa.Value(mc) || resolve(a) == ssa.Value(mc) {
							passes = true
						}
					}
					if !passes || gi == ownerGo {
						return
					}
					workers++
					if f2 != g {
						problems = append(problems, "a goroutine receiving the channel is started in "+p.FuncID(f2)+", not in the owner")
						return
					}
					if why := wgDiscipline(p, gi); why != "" {
						problems = append(problems, why)
					}
				})
			}
			// other closures (besides g and its deferred closure) capturing the channel and sending/closing
			for _, s := range allSendSites(p) {
				var ctxs []*ssa.Function
				if resolveArg(p, s.ch) == ssa.Value(mc) {
					ctxs = []*ssa.Function{s.fn}
				} else {
					ctxs = senderContexts(p, s.ch, mc, 0)
				}
				for _, sf := range ctxs {
					if sf != g && !isAncestor(g, sf) {
						// a worker started from the owner (its WaitGroup discipline is checked above) may send
						if wg := goStartOf(p, outermost(sf)); wg != nil && (wg.Parent() == g || isAncestor(g, wg.Parent())) {
							continue
						}
						if wg := goStartFor(p, outermost(sf), fn, mc); wg != nil && wg == ownerGo {
							continue
						}
						problems = append(problems, "send on the channel from "+p.FuncID(sf)+", outside the owner goroutine")
					}
				}
			}
			if len(problems) > 0 {
				l.bad(fid, construct, pos, strings.Join(dedupSorted(problems), "; "), "chan")
				return
			}
			l.ok(fid, construct, pos, fmt.Sprintf("closed once, deferred, by its owner goroutine %s; %d worker go-statement(s) joined by WaitGroup before the owner returns", p.FuncID(g), workers), true, "chan")
		})
	}
	for _, c := range closes {
		if !matched[c.instr] {
			l.bad(p.FuncID(c.fn), "close("+describeValue(c.ch)+")", p.InstrPos(c.instr), "close of a channel whose make(chan) is not visible in the enclosing function: ownership cannot be established", "close")
		}
	}
	for _, o := range aliasObs {
		l.add(o)
	}
	return l.list
}

func isAncestor(a, f *ssa.Function) bool {
	for ; f != nil; f = f.Parent() {
		if f == a {
			return true
		}
	}
	return false
}

func varNameOf(v ssa.Value) string {
	if v.Referrers() == nil {
		return ""
	}
	for _, r := range *v.Referrers() {
		if st, ok := r.(*ssa.Store); ok && st.Val == v {
			if a, ok := st.Addr.(*ssa.Alloc); ok {
				return a.Comment
			}
		}
	}
	return ""
}

// wgDiscipline checks, for `go worker(..., wg, ...)` inside owner g: wg.Add(1) precedes the go in
// the same block, the worker's first instructions defer wg.Done(), and g calls wg.Wait() after the
// spawning loop on every path to its return.
func wgDiscipline(p *Prog, gi *ssa.Go) string {
	var wg ssa.Value
	wgIdx := -1
	for i, a := range gi.Common().Args {
		if pt, ok := a.Type().(*types.Pointer); ok && isNamed(pt.Elem(), "sync", "WaitGroup") {
			wg, wgIdx = a, i
		}
	}
	if wg == nil {
		return "worker started without a *sync.WaitGroup argument"
	}
	// Add before go, same block
	b := gi.Block()
	addOK := false
	for _, in := range b.Instrs {
		if in == ssa.Instruction(gi) {
			break
		}
		if c, ok := in.(*ssa.Call); ok && isWGMethod(c.Common(), "Add") && sameVar(c.Common().Args[0], wg) {
			addOK = true
		}
	}
	if !addOK {
		return "wg.Add does not precede the go statement in the same block (Add inside the goroutine races with Wait)"
	}
	// worker defers Done on its wg param
	callee := gi.Common().StaticCallee()
	if callee == nil || callee.Blocks == nil {
		return "worker is not a statically known function"
	}
	// parameter index: receiver counts as arg 0 in Args for methods
	if wgIdx >= len(callee.Params) {
		return "worker parameter mismatch"
	}
	prm := callee.Params[wgIdx]
	doneOK := false
	for _, in := range callee.Blocks[0].Instrs {
		if d, ok := in.(*ssa.Defer); ok && isWGMethod(d.Common(), "Done") && sameVar(d.Common().Args[0], prm) {
			doneOK = true
		}
		if _, ok := in.(*ssa.Select); ok {
			break
		}
	}
	if !doneOK {
		return "worker " + relFunc(callee) + " does not defer wg.Done() in its entry block"
	}
	// Wait after the loop: from the go's block every path to a return passes a Wait on wg
	g := gi.Parent()
	waitBlocks := map[*ssa.BasicBlock]bool{}
	allInstrs(g, func(in ssa.Instruction) {
		if c, ok := in.(*ssa.Call); ok && isWGMethod(c.Common(), "Wait") && sameVar(c.Common().Args[0], wg) {
			waitBlocks[c.Block()] = true
		}
	})
	if len(waitBlocks) == 0 {
		return "the owner never calls wg.Wait()"
	}
	seen := map[*ssa.BasicBlock]bool{}
	bad := false
	var walk func(b *ssa.BasicBlock)
	walk = func(b *ssa.BasicBlock) {
		if seen[b] || bad {
			return
		}
		seen[b] = true
		if waitBlocks[b] {
			return
		}
		for _, in := range b.Instrs {
			if _, ok := in.(*ssa.Return); ok {
				bad = true
			}
		}
		for _, s := range b.Succs {
			walk(s)
		}
	}
	for _, s := range b.Succs {
		walk(s)
	}
	if bad {
		return "the owner can return (and run the deferred close) without wg.Wait()"
	}
	return ""
}

// ---------------------------------------------------------------------------------------------
// CONC-3

// ctxOrigin classifies where a context.Context value comes from.
type ctxOrigin struct {
	kind string    // param, derived, field, background, unknown
	root ssa.Value // the Parameter / the deriving call
	via  string
}

func ctxOriginOf(v ssa.Value, depth int) ctxOrigin {
	v = resolve(v)
	if depth > 6 {
		return ctxOrigin{kind: "unknown"}
	}
	switch x := v.(type) {
	case *ssa.Parameter:
		return ctxOrigin{kind: "param", root: x}
	case *ssa.Extract:
		if c, ok := x.Tuple.(*ssa.Call); ok {
			name := calleeFullName(c.Common())
			switch name {
			case "context.WithCancel", "context.WithTimeout", "context.WithDeadline", "context.WithCancelCause":
				if x.Index == 0 {
					return ctxOrigin{kind: "derived", root: c, via: name}
				}
			case "golang.org/x/sync/errgroup.WithContext":
				if x.Index == 1 {
					return ctxOrigin{kind: "derived", root: c, via: name}
				}
			}
			if isContextMaker(c.Common().StaticCallee()) && x.Index == 0 {
				return ctxOrigin{kind: "derived", root: c, via: "the context helper " + fname(c.Common().StaticCallee())}
			}
		}
	case *ssa.Call:
		name := calleeFullName(x.Common())
		if name == "context.Background" || name == "context.TODO" {
			return ctxOrigin{kind: "background", root: x}
		}
		if name == "context.WithValue" || name == "context.WithoutCancel" {
			return ctxOrigin{kind: "derived", root: x, via: name}
		}
	case *ssa.UnOp:
		if x.Op == token.MUL {
			if fa, ok := x.X.(*ssa.FieldAddr); ok {
				return ctxOrigin{kind: "field", root: fa, via: describeValue(fa)}
			}
		}
	}
	return ctxOrigin{kind: "unknown", root: v}
}

func ruleCONC3(w *World) []Ob {
	p := w.D()
	l := &obs{rule: "CONC-3", cfg: "D"}
	for _, fn := range libFuncs(p) {
		if fn.Parent() != nil {
			continue // closures are handled with their outermost function
		}
		fid := p.FuncID(fn)
		// family: fn and its nested closures
		var family []*ssa.Function
		var collect func(f *ssa.Function)
		collect = func(f *ssa.Function) {
			family = append(family, f)
			for _, a := range f.AnonFuncs {
				collect(a)
			}
		}
		collect(fn)
		// (1) derivations in this function
		var derive *ssa.Call
		nDerive := 0
		var ctxParam *ssa.Parameter
		for _, prm := range fn.Params {
			if isContextType(prm.Type()) {
				ctxParam = prm
			}
		}
		for _, w2 := range escapingCancelledCtx(p, fn) {
			l.bad(fid, "a context cancelled on return does not leave the function", p.Pos(fn.Pos()), w2, "operation")
		}
		if isContextMaker(fn) {
			continue // judged at its call sites: the operation that receives (ctx, cancel) must defer cancel
		}
		for _, f := range family {
			allInstrs(f, func(in ssa.Instruction) {
				if c, ok := in.(*ssa.Call); ok {
					switch calleeFullName(c.Common()) {
					case "context.WithCancel", "context.WithTimeout", "context.WithDeadline":
						derive = c
						nDerive++
					}
					if isContextMaker(c.Common().StaticCallee()) {
						derive = c
						nDerive++
					}
				}
			})
		}
		usesCtx := false
		for _, f := range family {
			allInstrs(f, func(in ssa.Instruction) {
				if ci, ok := in.(ssa.CallInstruction); ok {
					for _, a := range ci.Common().Args {
						if isContextType(a.Type()) {
							usesCtx = true
						}
					}
					if ci.Common().IsInvoke() && isContextType(ci.Common().Value.Type()) {
						usesCtx = true
					}
				}
			})
		}
		if !usesCtx {
			continue
		}
		// every stage's error channel reaches the collector: an error channel (a `<-chan error` result of a stage call)
		// that exists when the collector is called is one of its arguments
		{
			isErrChan := func(t types.Type) bool {
				ch, ok := t.Underlying().(*types.Chan)
				return ok && isErrorType(ch.Elem())
			}
			var chans []ssa.Value
			allInstrs(fn, func(in ssa.Instruction) {
				switch x := in.(type) {
				case *ssa.Extract:
					if isErrChan(x.Type()) {
						if _, fromCall := x.Tuple.(*ssa.Call); fromCall {
							chans = append(chans, x)
						}
					}
				case *ssa.Call:
					if isErrChan(x.Type()) {
						chans = append(chans, x)
					}
				}
			})
			if len(chans) >= 2 {
				allInstrs(fn, func(in ssa.Instruction) {
					c, ok := in.(*ssa.Call)
					if !ok || len(c.Common().Args) == 0 {
						return
					}
					last := c.Common().Args[len(c.Common().Args)-1]
					elems, isV := variadicElems(last)
					if !isV || len(elems) == 0 || !isErrChan(elems[0].Type()) {
						return
					}
					var missing []string
					for _, ch := range chans {
						def := ch.(ssa.Instruction)
						dominates := def.Block() == c.Block() && instrIndex(def) < instrIndex(c) || (def.Block() != c.Block() && def.Block().Dominates(c.Block()))
						if !dominates {
							continue
						}
						found := false
						for _, e := range elems {
							if sameVar(stripConv(e), ch) || stripConv(resolve(e)) == ch {
								found = true
							}
						}
						if !found {
							missing = append(missing, describeValue(ch)+" (made at "+p.InstrPos(def)+")")
						}
					}
					construct := "every stage's error channel is collected"
					if len(missing) > 0 {
						l.bad(fid, construct, p.InstrPos(c), "the collector is not given "+strings.Join(missing, ", ")+": whatever that stage reports (a malformed line, a failing reader) is lost and the operation returns success with part of its work undone", "collected")
					} else {
						l.ok(fid, construct, p.InstrPos(c), fmt.Sprintf("all %d error channels made before this call are among its arguments", len(elems)), true, "collected")
					}
				})
			}
		}
		if derive != nil && ctxParam == nil {
			// a pipeline operation
			construct := "operation context"
			pos := p.InstrPos(derive)
			if nDerive != 1 {
				l.undecided(fid, construct, pos, "more than one context derivation in one operation", "operation")
				continue
			}
			var cancel ssa.Value
			for _, r := range *derive.Referrers() {
				if e, ok := r.(*ssa.Extract); ok && e.Index == 1 {
					cancel = e
				}
			}
			deferOK := false
			var deferBlock *ssa.BasicBlock
			if cancel != nil {
				for _, f := range family {
					allInstrs(f, func(in ssa.Instruction) {
						if d, ok := in.(*ssa.Defer); ok && f == fn && sameVar(d.Common().Value, cancel) {
							deferOK = true
							deferBlock = d.Block()
						}
					})
				}
			}
			if !deferOK {
				l.bad(fid, construct, pos, "the cancel function of "+calleeFullName(derive.Common())+" is not deferred in the operation: its goroutines would never be told to stop when the call returns", "operation")
				continue
			}
			// every ctx-typed use is the derived ctx
			var wrong []string
			nUses := 0
			for _, f := range family {
				allInstrs(f, func(in ssa.Instruction) {
					ci, ok := in.(ssa.CallInstruction)
					if !ok || in == ssa.Instruction(derive) {
						return
					}
					check := func(v ssa.Value, what string) {
						nUses++
						o := ctxOriginOf(v, 0)
						if o.kind == "derived" && o.root == ssa.Value(derive) {
							if f == fn && !deferBlock.Dominates(in.Block()) {
								wrong = append(wrong, what+" at "+p.InstrPos(in)+" is not dominated by the deferred cancel")
							}
							return
						}
						wrong = append(wrong, what+" at "+p.InstrPos(in)+" uses "+describeCtx(o)+" instead of the operation's derived context")
					}
					for _, a := range ci.Common().Args {
						if isContextType(a.Type()) {
							check(a, "argument of "+calleeString(ci.Common()))
						}
					}
					if ci.Common().IsInvoke() && isContextType(ci.Common().Value.Type()) {
						check(ci.Common().Value, "ctx."+methodName(ci.Common().Method)+"()")
					}
				})
			}
			if len(wrong) > 0 {
				l.bad(fid, construct, pos, strings.Join(wrong, "; "), "operation")
			} else {
				l.ok(fid, construct, pos, fmt.Sprintf("ctx derived by %s from %s, cancel deferred, %d context use(s) all on the derived value", calleeFullName(derive.Common()), describeCtx(ctxOriginOf(derive.Common().Args[0], 0)), nUses), true, "operation")
			}
			continue
		}
		if derive == nil && ctxParam == nil {
			// a function that starts stages (hands a context to module functions) on a context it neither received as
			// a parameter nor derived: an operation running on a context that outlives it / is shared with other calls
			var first ssa.Instruction
			what := ""
			for _, f := range family {
				allInstrs(f, func(in ssa.Instruction) {
					ci, ok := in.(ssa.CallInstruction)
					if !ok || first != nil {
						return
					}
					callees := p.ModCallees(ci)
					if len(callees) == 0 {
						return
					}
					for _, a := range ci.Common().Args {
						if isContextType(a.Type()) {
							o := ctxOriginOf(a, 0)
							if o.kind == "background" {
								continue
							}
							first, what = in, describeCtx(o)
						}
					}
				})
			}
			if first != nil {
				l.bad(fid, "operation context", p.InstrPos(first), "the stages are started on "+what+", which this operation neither derives nor cancels itself: a second operation with the same option value runs on a context the first one has already cancelled, and a context the caller keeps alive leaves this operation's goroutines waiting", "operation")
			}
			continue
		}
		if ctxParam != nil {
			// a stage: all uses root at the parameter (possibly via derivations from it)
			construct := "stage context " + ctxParam.Name()
			var wrong []string
			nUses := 0
			for _, f := range family {
				allInstrs(f, func(in ssa.Instruction) {
					ci, ok := in.(ssa.CallInstruction)
					if !ok {
						return
					}
					check := func(v ssa.Value, what string) {
						nUses++
						o := ctxOriginOf(v, 0)
						for o.kind == "derived" {
							c := o.root.(*ssa.Call)
							var parent ssa.Value
							for _, a := range c.Common().Args {
								if isContextType(a.Type()) {
									parent = a
								}
							}
							if parent == nil {
								break
							}
							o = ctxOriginOf(parent, 0)
						}
						if o.kind == "param" && o.root == ssa.Value(ctxParam) {
							return
						}
						wrong = append(wrong, what+" at "+p.InstrPos(in)+" uses "+describeCtx(o)+" instead of the stage's ctx parameter")
					}
					for _, a := range ci.Common().Args {
						if isContextType(a.Type()) {
							check(a, "argument of "+calleeString(ci.Common()))
						}
					}
					if ci.Common().IsInvoke() && isContextType(ci.Common().Value.Type()) {
						check(ci.Common().Value, "ctx."+methodName(ci.Common().Method)+"()")
					}
				})
			}
			if len(wrong) > 0 {
				l.bad(fid, construct, p.Pos(fn.Pos()), strings.Join(wrong, "; "), "stage")
			} else {
				l.ok(fid, construct, p.Pos(fn.Pos()), fmt.Sprintf("%d context use(s), all rooted at the ctx parameter", nUses), true, "stage")
			}
			// the function that is handed the stages' error channels waits on all of them at once (one collector each):
			// read one after the other, the error of a later stage is not seen while an earlier stage is still running —
			// and that earlier stage may be blocked handing over to the stage that failed
			{
				nErrChans := 0
				for _, prm := range fn.Params {
					t := prm.Type()
					if sl, ok := t.Underlying().(*types.Slice); ok {
						t = sl.Elem()
						if ch, ok := t.Underlying().(*types.Chan); ok && isErrorType(ch.Elem()) {
							nErrChans += 2
						}
						continue
					}
					if ch, ok := t.Underlying().(*types.Chan); ok && isErrorType(ch.Elem()) && ch.Dir() == types.RecvOnly {
						nErrChans++
					}
				}
				// only a function that itself receives from those channels is a collector; one that merely hands them
				// on (to the collector) is not
				if nErrChans >= 2 {
					receives := false
					for _, f := range family {
						allInstrs(f, func(in ssa.Instruction) {
							switch x := in.(type) {
							case *ssa.UnOp:
								if x.Op == token.ARROW {
									if ch, ok := x.X.Type().Underlying().(*types.Chan); ok && isErrorType(ch.Elem()) {
										receives = true
									}
								}
							case *ssa.Select:
								for _, st := range x.States {
									if ch, ok := st.Chan.Type().Underlying().(*types.Chan); ok && st.Dir == types.RecvOnly && isErrorType(ch.Elem()) {
										receives = true
									}
								}
							}
						})
					}
					if !receives {
						nErrChans = 0
					}
				}
				if nErrChans >= 2 {
					nGo := 0
					for _, f := range family {
						allInstrs(f, func(in ssa.Instruction) {
							if c, ok := in.(*ssa.Call); ok && calleeFullName(c.Common()) == "(*golang.org/x/sync/errgroup.Group).Go" {
								nGo++
							}
							if _, ok := in.(*ssa.Go); ok {
								nGo++
							}
						})
					}
					if nGo == 0 {
						l.bad(fid, "stage errors are awaited concurrently", p.Pos(fn.Pos()), "the stages' error channels are read one after the other in this function (no collector goroutine per channel): while it waits for an earlier stage to finish, the error parked by a later stage is not read, the earlier stages block handing over to the stage that failed, and the call neither returns that error nor returns at all", "collector")
					}
				}
			}
			// the collectors' joint verdict: a stage closes its error channel whenever it stops — also when it stops
			// because the operation was cancelled — so a collector can see "closed, no error" before it sees the
			// cancellation.  "No stage reported an error" therefore counts as success only if ctx.Err() is consulted:
			// either the function returns ctx.Err() wherever it could return nil, or every collector does.
			{
				var wait *ssa.Call
				allInstrs(fn, func(in ssa.Instruction) {
					if c, ok := in.(*ssa.Call); ok && calleeFullName(c.Common()) == "(*golang.org/x/sync/errgroup.Group).Wait" {
						wait = c
					}
				})
				if wait != nil {
					nc := newNilCtxCached(p)
					isCtxErr := func(v ssa.Value) bool {
						c, ok := resolve(v).(*ssa.Call)
						if !ok || !c.Common().IsInvoke() || methodName(c.Common().Method) != "Err" || !isContextType(c.Common().Value.Type()) {
							return false
						}
						o := ctxOriginOf(c.Common().Value, 0)
						for o.kind == "derived" {
							cc, isC := o.root.(*ssa.Call)
							if !isC {
								break
							}
							var parent ssa.Value
							for _, a := range cc.Common().Args {
								if isContextType(a.Type()) {
									parent = a
								}
							}
							if parent == nil {
								break
							}
							o = ctxOriginOf(parent, 0)
						}
						return o.kind == "param" && o.root == ssa.Value(ctxParam)
					}
					maybeNilReturns := func(f *ssa.Function) (bad []string) {
						allInstrs(f, func(in ssa.Instruction) {
							r, ok := in.(*ssa.Return)
							if !ok {
								return
							}
							for _, v := range rr(r) {
								if !isErrorType(v.Type()) {
									continue
								}
								if nc.nonNil(v, r, 0) || isCtxErr(v) {
									continue
								}
								bad = append(bad, p.InstrPos(r))
							}
						})
						return bad
					}
					fnBad := maybeNilReturns(fn)
					var colBad []string
					nCol := 0
					allInstrs(fn, func(in ssa.Instruction) {
						c, ok := in.(*ssa.Call)
						if !ok || calleeFullName(c.Common()) != "(*golang.org/x/sync/errgroup.Group).Go" {
							return
						}
						nCol++
						switch x := resolve(c.Common().Args[1]).(type) {
						case *ssa.MakeClosure:
							colBad = append(colBad, maybeNilReturns(x.Fn.(*ssa.Function))...)
						default:
							colBad = append(colBad, p.InstrPos(c)+" (collector not a closure literal)")
						}
					})
					construct := "no stage error means success only if not cancelled"
					switch {
					case len(fnBad) == 0:
						l.ok(fid, construct, p.InstrPos(wait), "every return is a proven non-nil error or ctx.Err() of the stage's context", true, "verdict")
					case nCol > 0 && len(colBad) == 0:
						l.ok(fid, construct, p.InstrPos(wait), "every collector returns a proven non-nil error or ctx.Err()", true, "verdict")
					default:
						l.bad(fid, construct, p.InstrPos(wait), "the joint result of the collectors is returned as it is (possibly nil) at "+strings.Join(dedupSorted(fnBad), ", ")+", and a collector returns nil for a closed error channel without consulting the context: a stage that stopped because the operation was cancelled closes its channel like one that finished, so a cancelled operation can report success with part of its work undone", "verdict")
					}
				}
			}
			// join: "once the call has returned no goroutine it started remains" needs the returning function to have
			// observed every stage's termination.  The only termination signal a stage gives is closing its error
			// channel (after its workers were joined), so every return must come after each channel was seen closed:
			// (A) every return of every collector is dominated by the closed side of a receive on its channel, or
			// (B) the function drains every channel until closed (a loop over the channels whose body cannot get back
			//     to the loop head without passing a receive's closed side) before any return.
			{
				var wait *ssa.Call
				allInstrs(fn, func(in ssa.Instruction) {
					if c, ok := in.(*ssa.Call); ok && calleeFullName(c.Common()) == "(*golang.org/x/sync/errgroup.Group).Wait" {
						wait = c
					}
				})
				if wait != nil {
					// closed-side blocks of receives in f: successors taken when ok == false
					closedSides := func(f *ssa.Function) map[*ssa.BasicBlock]bool {
						out := map[*ssa.BasicBlock]bool{}
						for _, b := range f.Blocks {
							if len(b.Instrs) == 0 || len(b.Succs) != 2 {
								continue
							}
							ifi, ok := b.Instrs[len(b.Instrs)-1].(*ssa.If)
							if !ok {
								continue
							}
							cond, pol := flattenCond(ifi.Cond, true)
							ex, ok := cond.(*ssa.Extract)
							if !ok {
								continue
							}
							isOK := false
							switch t := ex.Tuple.(type) {
							case *ssa.UnOp:
								isOK = t.Op == token.ARROW && t.CommaOk && ex.Index == 1
							case *ssa.Select:
								// select results: (index, recvOk, values...)
								isOK = ex.Index == 1
							}
							if !isOK {
								continue
							}
							// pol == true: the condition is `ok`; the closed side is the false successor
							if pol {
								out[b.Succs[1]] = true
							} else {
								out[b.Succs[0]] = true
							}
						}
						return out
					}
					dominatedByAny := func(b *ssa.BasicBlock, set map[*ssa.BasicBlock]bool) bool {
						for s := range set {
							if s == b || s.Dominates(b) {
								return true
							}
						}
						return false
					}
					allReturnsAfterClose := func(f *ssa.Function) (bool, string) {
						cs := closedSides(f)
						bad := ""
						n := 0
						allInstrs(f, func(in ssa.Instruction) {
							if r, ok := in.(*ssa.Return); ok {
								n++
								if !dominatedByAny(r.Block(), cs) && bad == "" {
									bad = p.InstrPos(r)
								}
							}
						})
						return n > 0 && bad == "", bad
					}
					okA, firstBad := true, ""
					nCol := 0
					allInstrs(fn, func(in ssa.Instruction) {
						c, ok := in.(*ssa.Call)
						if !ok || calleeFullName(c.Common()) != "(*golang.org/x/sync/errgroup.Group).Go" {
							return
						}
						nCol++
						mk, isMk := resolve(c.Common().Args[1]).(*ssa.MakeClosure)
						if !isMk {
							okA = false
							return
						}
						if good, bad := allReturnsAfterClose(mk.Fn.(*ssa.Function)); !good {
							okA = false
							if firstBad == "" {
								firstBad = bad
							}
						}
					})
					okB := false
					{
						// a drain in fn itself: every return of fn dominated by the closed side of a receive, or by the
						// exit of a loop whose body must pass one
						cs := closedSides(fn)
						if len(cs) > 0 {
							all := true
							allInstrs(fn, func(in ssa.Instruction) {
								r, ok := in.(*ssa.Return)
								if !ok {
									return
								}
								if dominatedByAny(r.Block(), cs) {
									return
								}
								// outer loop over the channels: some loop header h dominates the return, and from h's
								// body successor the header cannot be reached again without passing a closed side
								found := false
								for _, h := range fn.Blocks {
									if !h.Dominates(r.Block()) || !canReachNonTrivially(h, h) || len(h.Succs) != 2 {
										continue
									}
									for _, body := range h.Succs {
										if !canReach(body, h) {
											continue
										}
										seen := map[*ssa.BasicBlock]bool{}
										var esc bool
										var walk func(b *ssa.BasicBlock)
										walk = func(b *ssa.BasicBlock) {
											if seen[b] || cs[b] || esc {
												return
											}
											seen[b] = true
											if b == h {
												esc = true
												return
											}
											for _, s2 := range b.Succs {
												walk(s2)
											}
										}
										walk(body)
										if !esc {
											found = true
										}
									}
								}
								if !found {
									all = false
								}
							})
							okB = all
						}
					}
					construct := "stages have stopped when the operation returns"
					switch {
					case nCol > 0 && okA:
						l.ok(fid, construct, p.InstrPos(wait), "every collector returns only after it has seen its stage's error channel closed", true, "join")
					case okB:
						l.ok(fid, construct, p.InstrPos(wait), "every error channel is drained until closed before the function returns", true, "join")
					default:
						l.bad(fid, construct, p.InstrPos(wait), "a collector returns (e.g. at "+firstBad+") on the first error or on cancellation without having seen its stage's error channel closed, and nothing else waits for the stages: the operation returns while stage goroutines are still running, so they may still write to the caller's writer, call the callback or touch the filesystem after the call has returned", "join")
					}
				}
			}
			// collectors: closures handed to errgroup.Group.Go must wait on the group's context
			for _, f := range family {
				allInstrs(f, func(in ssa.Instruction) {
					c, ok := in.(*ssa.Call)
					if !ok || calleeFullName(c.Common()) != "(*golang.org/x/sync/errgroup.Group).Go" {
						return
					}
					construct := "errgroup collector " + describeValue(c.Common().Args[1])
					grp := resolve(c.Common().Args[0])
					ex, ok := grp.(*ssa.Extract)
					var wc *ssa.Call
					if ok {
						if cc, ok := ex.Tuple.(*ssa.Call); ok && calleeFullName(cc.Common()) == "golang.org/x/sync/errgroup.WithContext" {
							wc = cc
						}
					}
					if wc == nil {
						l.bad(fid, construct, p.InstrPos(c), "the errgroup is not created by errgroup.WithContext: the first error does not release the other collectors, so the call waits for every stage even though blocked senders need the cancellation that only happens after it returns", "collector")
						return
					}
					mk, ok := resolve(c.Common().Args[1]).(*ssa.MakeClosure)
					// a collector built by a helper: eg.Go(await(ectx, ch)) where await returns the closure
					var maker *ssa.Call
					if !ok {
						if cc, isCall := resolve(c.Common().Args[1]).(*ssa.Call); isCall && cc.Common().StaticCallee() != nil && p.InModule(cc.Common().StaticCallee()) {
							g := cc.Common().StaticCallee()
							allInstrs(g, func(in2 ssa.Instruction) {
								if r, isR := in2.(*ssa.Return); isR && len(rr(r)) == 1 {
									if m2, isMk := stripConv(rr(r)[0]).(*ssa.MakeClosure); isMk {
										mk, ok, maker = m2, true, cc
									}
								}
							})
						}
					}
					if !ok {
						l.undecided(fid, construct, p.InstrPos(c), "collector is not a closure literal", "collector")
						return
					}
					body := mk.Fn.(*ssa.Function)
					bad := ""
					nSel := 0
					allInstrs(body, func(in2 ssa.Instruction) {
						sel, ok := in2.(*ssa.Select)
						if !ok || !sel.Blocking {
							return
						}
						nSel++
						okArm := false
						for _, st := range sel.States {
							if x, isDone := isDoneChan(st.Chan); isDone {
								o := ctxOriginOf(x, 0)
								if maker != nil && o.kind == "param" {
									if prm, isP := o.root.(*ssa.Parameter); isP {
										if i := paramIndex(maker.Common().StaticCallee(), prm); i >= 0 && i < len(maker.Common().Args) {
											o = ctxOriginOf(maker.Common().Args[i], 0)
										}
									}
								}
								if o.kind == "derived" && o.root == ssa.Value(wc) {
									okArm = true
								}
							}
						}
						if !okArm {
							bad = "the collector's select at " + p.InstrPos(sel) + " does not wait on the errgroup's derived context: after the first error the other collectors keep waiting for stages whose senders are blocked"
						}
					})
					if bad == "" {
						bad = collectorDropsError(p, body)
					}
					if bad != "" {
						l.bad(fid, construct, p.InstrPos(c), bad, "collector")
					} else {
						l.ok(fid, construct, p.InstrPos(c), fmt.Sprintf("%d blocking select(s), each with a Done arm on the context of errgroup.WithContext; a received non-nil error is always returned", nSel), true, "collector")
					}
				})
			}
		}
	}
	return l.list
}

// collectorDropsError: the collector receives an error from its stage; on every route from that receive to a return
// that may hand back nil, the received error was found nil (err == nil), the channel was found closed (!ok), or another
// arm of the select was taken.  A route on which a non-nil error is classified away (filtered by kind, logged, counted)
// and nil is returned loses the stage's verdict.
func collectorDropsError(p *Prog, body *ssa.Function) string {
	nc := newNilCtxCached(p)
	why := ""
	allInstrs(body, func(in ssa.Instruction) {
		sel, ok := in.(*ssa.Select)
		if !ok || why != "" {
			return
		}
		recvArm := -1
		for i, st := range sel.States {
			if ch, isCh := st.Chan.Type().Underlying().(*types.Chan); isCh && st.Dir == types.RecvOnly && isErrorType(ch.Elem()) {
				recvArm = i
			}
		}
		if recvArm < 0 {
			return
		}
		// the values extracted from the select: index (0), recvOk (1), received values (2+)
		var idxV, okV, errV ssa.Value
		for _, r := range *sel.Referrers() {
			if ex, isEx := r.(*ssa.Extract); isEx {
				switch {
				case ex.Index == 0:
					idxV = ex
				case ex.Index == 1:
					okV = ex
				case isErrorType(ex.Type()):
					errV = ex
				}
			}
		}
		if errV == nil {
			why = "the value received from the stage's error channel is discarded"
			return
		}
		safeEdge := func(from *ssa.BasicBlock, k int) bool {
			if len(from.Instrs) == 0 || len(from.Succs) != 2 {
				return false
			}
			ifi, ok := from.Instrs[len(from.Instrs)-1].(*ssa.If)
			if !ok {
				return false
			}
			pol := k == 0
			if tv, nonNil, ok := nilTest(ifi.Cond, pol); ok && !nonNil && (tv == errV || sameVar(tv, errV)) {
				return true
			}
			cond, p2 := flattenCond(ifi.Cond, pol)
			if okV != nil && cond == okV && !p2 {
				return true
			}
			if b, isB := cond.(*ssa.BinOp); isB && idxV != nil && b.X == idxV && b.Op == token.EQL {
				if kk, isK := constInt(b.Y); isK {
					if (p2 && int(kk) != recvArm) || (!p2 && int(kk) == recvArm) {
						return true
					}
				}
			}
			return false
		}
		seen := map[*ssa.BasicBlock]bool{}
		var walk func(b *ssa.BasicBlock)
		walk = func(b *ssa.BasicBlock) {
			if seen[b] || why != "" {
				return
			}
			seen[b] = true
			if len(b.Instrs) > 0 {
				if r, isR := b.Instrs[len(b.Instrs)-1].(*ssa.Return); isR {
					for _, v := range rr(r) {
						if isErrorType(v.Type()) && !nc.nonNil(v, r, 0) {
							why = "the return at " + p.InstrPos(r) + " can hand back nil on a route where the error received from the stage at " + p.InstrPos(sel) + " is not known to be nil: a stage's error is classified away (by kind, by wrapping, by count) instead of being returned, and the operation reports success"
						}
					}
					return
				}
			}
			for k, s2 := range b.Succs {
				if !safeEdge(b, k) {
					walk(s2)
				}
			}
		}
		walk(sel.Block())
	})
	return why
}

// escapingCancelledCtx: fn derives a context, defers its cancel, and still lets the context (or something built from
// it) out through a return value: whoever receives it gets a context that is already cancelled.
func escapingCancelledCtx(p *Prog, fn *ssa.Function) []string {
	var out []string
	allInstrs(fn, func(in ssa.Instruction) {
		d, ok := in.(*ssa.Call)
		if !ok {
			return
		}
		switch calleeFullName(d.Common()) {
		case "context.WithCancel", "context.WithTimeout", "context.WithDeadline", "context.WithCancelCause":
		default:
			return
		}
		var ctxv, cancel ssa.Value
		for _, r := range *d.Referrers() {
			if e, ok := r.(*ssa.Extract); ok {
				if e.Index == 0 {
					ctxv = e
				} else if e.Index == 1 {
					cancel = e
				}
			}
		}
		if ctxv == nil || cancel == nil {
			return
		}
		deferred := false
		allInstrs(fn, func(in2 ssa.Instruction) {
			if df, ok := in2.(*ssa.Defer); ok && sameVar(df.Common().Value, cancel) {
				deferred = true
			}
		})
		if !deferred {
			return
		}
		allInstrs(fn, func(in2 ssa.Instruction) {
			r, ok := in2.(*ssa.Return)
			if !ok {
				return
			}
			for _, v := range rr(r) {
				// only a value that can hold on to the context carries it out: not an error or a number computed with it
				if isErrorType(v.Type()) {
					continue
				}
				if _, basic := v.Type().Underlying().(*types.Basic); basic {
					continue
				}
				if dependsOnValue(v, ctxv, 0) {
					out = append(out, "the context derived at "+p.InstrPos(d)+" is cancelled by the deferred cancel when the function returns, yet the value returned at "+p.InstrPos(r)+" is built from it: its receiver runs on a context that is already cancelled")
				}
			}
		})
	})
	return dedup(out)
}

func describeCtx(o ctxOrigin) string {
	switch o.kind {
	case "param":
		return "parameter " + o.root.Name()
	case "derived":
		return "a context derived by " + o.via
	case "field":
		return "the field " + o.via
	case "background":
		return "context.Background()"
	}
	if o.root != nil {
		return describeValue(o.root)
	}
	return "an unknown context"
}

// ---------------------------------------------------------------------------------------------
// CONC-4 / 5 / 6: lockset over multi-instance workers

type multiInfo struct {
	workers  map[*ssa.Function][]*ssa.Go         // functions started by go inside a loop
	multi    map[*ssa.Function]bool              // workers and everything they can call (module)
	shared   map[ssa.Value]bool                  // pointer-like values that denote objects shared by instances
	spawners map[*ssa.Function]bool
}

func isPointerLike(t types.Type) bool {
	switch t.Underlying().(type) {
	case *types.Pointer, *types.Map, *types.Slice, *types.Chan, *types.Interface, *types.Signature:
		return true
	}
	return false
}

func computeMulti(p *Prog) *multiInfo {
	mi := &multiInfo{workers: map[*ssa.Function][]*ssa.Go{}, multi: map[*ssa.Function]bool{}, shared: map[ssa.Value]bool{}, spawners: map[*ssa.Function]bool{}}
	for _, fn := range libFuncs(p) {
		allInstrs(fn, func(in ssa.Instruction) {
			switch x := in.(type) {
			case *ssa.Go:
				if !inLoop(x) {
					return
				}
				if callee := x.Common().StaticCallee(); callee != nil && p.InModule(callee) {
					mi.workers[callee] = append(mi.workers[callee], x)
					mi.spawners[fn] = true
				}
			case *ssa.Call:
				// closures handed to errgroup.Group.Go inside a loop run concurrently as well
				if calleeFullName(x.Common()) == "(*golang.org/x/sync/errgroup.Group).Go" && inLoop(x) {
					if mk, ok := resolve(x.Common().Args[1]).(*ssa.MakeClosure); ok {
						mi.workers[mk.Fn.(*ssa.Function)] = nil
						mi.spawners[fn] = true
					}
				}
			}
		})
	}
	var roots []*ssa.Function
	for f := range mi.workers {
		roots = append(roots, f)
	}
	mi.multi = reachableFrom(p, roots, nil)
	// shared values: worker parameters (every instance gets the same arguments), propagated through
	// field loads, conversions and calls inside the multi region
	work := []ssa.Value{}
	mark := func(v ssa.Value) {
		if v == nil || mi.shared[v] || !isPointerLike(v.Type()) {
			return
		}
		mi.shared[v] = true
		work = append(work, v)
	}
	for f, gos := range mi.workers {
		if gos == nil {
			for _, fv := range f.FreeVars {
				mi.shared[fv] = true
				work = append(work, fv)
			}
			continue
		}
		for _, prm := range f.Params {
			mark(prm)
		}
	}
	for len(work) > 0 {
		v := work[len(work)-1]
		work = work[:len(work)-1]
		refs := v.Referrers()
		if refs == nil {
			continue
		}
		for _, r := range *refs {
			if !mi.multi[r.Parent()] && !mi.multi[outermost(r.Parent())] {
				continue
			}
			switch x := r.(type) {
			case *ssa.FieldAddr:
				if x.X == v {
					mi.shared[x] = true // address inside a shared object
					work = append(work, x)
				}
			case *ssa.IndexAddr:
				if x.X == v {
					mi.shared[x] = true
					work = append(work, x)
				}
			case *ssa.UnOp:
				if x.Op == token.MUL && x.X == v {
					// loading a pointer-like field of a shared object yields a shared object;
					// loading from a captured variable cell keeps the status
					mark(x)
				}
			case *ssa.Field:
				mark(x)
			case *ssa.Store:
				// a shared value kept in a local variable (possibly captured by a closure)
				if x.Val == v {
					switch x.Addr.(type) {
					case *ssa.Alloc, *ssa.FreeVar:
						for _, ld := range cellLoads(x.Addr) {
							mark(ld)
						}
					}
				}
			case *ssa.ChangeType:
				mark(x)
			case *ssa.MakeInterface:
				mark(x)
			case *ssa.ChangeInterface:
				mark(x)
			case *ssa.Phi:
				mark(x)
			case *ssa.Slice:
				mark(x)
			case *ssa.TypeAssert:
				mark(x)
			case *ssa.MakeClosure:
				fn := x.Fn.(*ssa.Function)
				for i, b := range x.Bindings {
					if b == v && i < len(fn.FreeVars) {
						mi.shared[fn.FreeVars[i]] = true
						work = append(work, fn.FreeVars[i])
					}
				}
			case ssa.CallInstruction:
				if _, isGo := x.(*ssa.Go); isGo {
					continue
				}
				for _, callee := range p.ModCallees(x) {
					if !mi.multi[callee] {
						continue
					}
					args := x.Common().Args
					off := 0
					if x.Common().IsInvoke() {
						off = 1
						if x.Common().Value == v && len(callee.Params) > 0 {
							mark(callee.Params[0])
						}
					}
					for i, a := range args {
						if a == v && i+off < len(callee.Params) {
							mark(callee.Params[i+off])
						}
					}
				}
			}
		}
	}
	return mi
}

// baseObject returns the pointer value whose object the address addr lies in (x for &x.f, &x.f.g).
func baseObject(addr ssa.Value) ssa.Value {
	for {
		switch x := addr.(type) {
		case *ssa.FieldAddr:
			// embedded struct *by value*: &x.T.f has base &x.T whose base is x
			addr = x.X
		default:
			return addr
		}
	}
}

type fieldRef struct{ typ, field string }

func (f fieldRef) String() string { return f.typ + "." + f.field }

type access struct {
	fn    *ssa.Function
	instr ssa.Instruction
	addr  *ssa.FieldAddr
	write bool
	ref   fieldRef
}

// sharedFieldAccesses lists reads/writes of fields through shared addresses inside the multi region.
func sharedFieldAccesses(p *Prog, mi *multiInfo) []access {
	var out []access
	for fn := range mi.multi {
		allInstrs(fn, func(in ssa.Instruction) {
			fa, ok := in.(*ssa.FieldAddr)
			if !ok || !mi.shared[fa] {
				return
			}
			tn, f, _ := fieldOf(fa)
			ft := fa.Type().(*types.Pointer).Elem()
			if isSyncType(ft) {
				return
			}
			for _, r := range *fa.Referrers() {
				switch x := r.(type) {
				case *ssa.Store:
					if x.Addr == ssa.Value(fa) {
						out = append(out, access{fn, x, fa, true, fieldRef{tn, f}})
					}
				case *ssa.UnOp:
					if x.Op == token.MUL {
						out = append(out, access{fn, x, fa, false, fieldRef{tn, f}})
					}
				}
			}
		})
	}
	sort.Slice(out, func(i, j int) bool {
		a, b := out[i], out[j]
		if p.FuncID(a.fn) != p.FuncID(b.fn) {
			return p.FuncID(a.fn) < p.FuncID(b.fn)
		}
		return a.instr.Pos() < b.instr.Pos()
	})
	return out
}

func isSyncType(t types.Type) bool {
	n, ok := types.Unalias(t).(*types.Named)
	return ok && n.Obj().Pkg() != nil && (n.Obj().Pkg().Path() == "sync" || n.Obj().Pkg().Path() == "sync/atomic")
}

// lockCall: is the call a Lock/RLock (or Unlock/RUnlock) on a mutex that is a field of (or embedded
// in) the object 'base'?  Returns the base pointer of the mutex's owner.
func lockCallOn(ci ssa.CallInstruction) (owner ssa.Value, lock bool, ok bool) {
	name := calleeFullName(ci.Common())
	switch name {
	case "(*sync.Mutex).Lock", "(*sync.RWMutex).Lock", "(*sync.RWMutex).RLock":
		lock = true
	case "(*sync.Mutex).Unlock", "(*sync.RWMutex).Unlock", "(*sync.RWMutex).RUnlock":
		lock = false
	default:
		return nil, false, false
	}
	if len(ci.Common().Args) == 0 {
		return nil, false, false
	}
	m := ci.Common().Args[0]
	if fa, isFA := m.(*ssa.FieldAddr); isFA {
		return fa.X, lock, true
	}
	return m, lock, true
}

// heldAt: is the mutex of object 'obj' held at instruction 'at' inside its function?  A Lock on the
// same object dominates 'at' and no non-deferred Unlock on it can run in between.
func heldAt(obj ssa.Value, at ssa.Instruction) bool {
	fn := at.Parent()
	for _, b := range fn.Blocks {
		for i, in := range b.Instrs {
			c, ok := in.(*ssa.Call)
			if !ok {
				continue
			}
			owner, lock, ok := lockCallOn(c)
			if !ok || !lock || !sameVar(owner, obj) {
				continue
			}
			// dominates?
			if b == at.Block() {
				if i >= instrIndex(at) {
					continue
				}
			} else if !b.Dominates(at.Block()) {
				continue
			}
			// any explicit Unlock between?
			unlocked := false
			allInstrs(fn, func(in2 ssa.Instruction) {
				c2, ok := in2.(*ssa.Call)
				if !ok {
					return
				}
				o2, l2, ok := lockCallOn(c2)
				if !ok || l2 || !sameVar(o2, obj) {
					return
				}
				if reachableAfter(c, c2) && reachableAfter(c2, at) && !(c2.Block() == at.Block() && instrIndex(c2) > instrIndex(at)) {
					unlocked = true
				}
			})
			if !unlocked {
				return true
			}
		}
	}
	return false
}

// entryLocked computes, for functions in the multi region, whether every call from the region
// enters them with the lock of their receiver (param 0) held.
func entryLocked(p *Prog, mi *multiInfo) map[*ssa.Function]bool {
	locked := map[*ssa.Function]bool{}
	// optimistic fixed point: start with all candidate methods locked, remove violators
	for fn := range mi.multi {
		if len(fn.Params) > 0 && fn.Signature.Recv() != nil {
			locked[fn] = true
		}
	}
	for f := range mi.workers {
		delete(locked, f)
	}
	changed := true
	for changed {
		changed = false
		for fn := range locked {
			callers := 0
			ok := true
			for _, ci := range p.Callers(fn) {
				if !mi.multi[ci.Parent()] {
					continue
				}
				callers++
				if ci.Common().IsInvoke() || len(ci.Common().Args) == 0 {
					ok = false
					break
				}
				recv := ci.Common().Args[0]
				in := ci.(ssa.Instruction)
				if heldAt(recv, in) {
					continue
				}
				// the receiver is a part of the object whose lock is held: x.inner.m() under x's lock (the embedded /
				// owned object is created with its owner and reached through it only)
				if ld, isL := isLoad(stripConv(recv)); isL {
					if fa, isFA := ld.(*ssa.FieldAddr); isFA && heldAt(fa.X, in) {
						continue
					}
				}
				// caller itself entered locked on the same receiver
				caller := ci.Parent()
				if locked[caller] && len(caller.Params) > 0 && sameVar(recv, caller.Params[0]) {
					continue
				}
				// the receiver is a value field (&x.inner), or a field of a field, of an object whose lock is held or
				// that the caller entered locked on
				partOfLocked := false
				for cur, d := stripConv(recv), 0; d < 4; d++ {
					fa, isFA := cur.(*ssa.FieldAddr)
					if !isFA {
						if ld, isL := isLoad(cur); isL {
							fa, isFA = ld.(*ssa.FieldAddr)
						}
					}
					if !isFA {
						break
					}
					if heldAt(fa.X, in) || (locked[caller] && len(caller.Params) > 0 && sameVar(fa.X, caller.Params[0])) {
						partOfLocked = true
						break
					}
					cur = stripConv(fa.X)
				}
				if partOfLocked {
					continue
				}
				ok = false
				break
			}
			if callers == 0 || !ok {
				delete(locked, fn)
				changed = true
			}
		}
	}
	return locked
}

func accessLocked(p *Prog, a access, locked map[*ssa.Function]bool) bool {
	obj := baseObject(a.addr)
	if heldAt(obj, a.instr) {
		return true
	}
	fn := a.fn
	if locked[fn] && len(fn.Params) > 0 && sameVar(obj, fn.Params[0]) {
		return true
	}
	return false
}

type concAnalysis struct {
	mi      *multiInfo
	acc     []access
	locked  map[*ssa.Function]bool
	written map[fieldRef]bool
}

func concAnalyse(w *World) *concAnalysis {
	p := w.D()
	mi := computeMulti(p)
	ca := &concAnalysis{mi: mi, acc: sharedFieldAccesses(p, mi), locked: entryLocked(p, mi), written: map[fieldRef]bool{}}
	for _, a := range ca.acc {
		if a.write {
			ca.written[a.ref] = true
		}
	}
	return ca
}

func ruleCONC4(w *World) []Ob {
	p := w.D()
	l := &obs{rule: "CONC-4", cfg: "D"}
	ca := concAnalyse(w)
	if len(ca.mi.workers) == 0 {
		l.undecided("-", "multi-instance workers", "-", "no goroutine started in a loop was found: the worker set is empty", "worker")
		return l.list
	}
	for f := range ca.mi.workers {
		l.ok(p.FuncID(f), "multi-instance worker", p.Pos(f.Pos()), "started by go inside a loop; everything it can call is analysed as concurrently running", false, "worker")
	}
	num := map[string]numbered{}
	for _, a := range ca.acc {
		if !ca.written[a.ref] {
			continue // never written by worker-reachable code: initialised before the workers start
		}
		fid := p.FuncID(a.fn)
		if num[fid] == nil {
			num[fid] = numbered{}
		}
		kind := "read"
		if a.write {
			kind = "write"
		}
		construct := num[fid].name(kind + " of " + a.ref.String())
		if accessLocked(p, a, ca.locked) {
			l.ok(fid, construct, p.InstrPos(a.instr), "the owner's mutex is held (Lock dominates, no Unlock in between, or the function is only entered with the lock held)", true, "access")
		} else {
			l.bad(fid, construct, p.InstrPos(a.instr), "field "+a.ref.String()+" of an object shared by concurrently running worker instances is written by worker code, and this "+kind+" happens without the object's mutex held: data race", "access")
		}
	}
	// one critical section per call: a worker-reachable function that takes the same object's lock twice
	// lets other workers change the shared state in between
	for fn := range ca.mi.multi {
		var locks []*ssa.Call
		allInstrs(fn, func(in ssa.Instruction) {
			if c, ok := in.(*ssa.Call); ok {
				if _, lock, ok := lockCallOn(c); ok && lock {
					locks = append(locks, c)
				}
			}
		})
		for i, a := range locks {
			for _, b := range locks[i+1:] {
				oa, _, _ := lockCallOn(a)
				ob, _, _ := lockCallOn(b)
				if !sameVar(oa, ob) || !(reachableAfter(a, b) || reachableAfter(b, a)) {
					continue
				}
				// only relevant when the object is shared between workers and carries state written by them
				if !ca.mi.shared[oa] && !ca.mi.shared[baseObject(oa)] {
					continue
				}
				l.bad(p.FuncID(fn), "single critical section per call", p.InstrPos(b), "the function acquires the same shared object's lock a second time (first at "+p.InstrPos(a)+"): state read in the second section may have been changed by another worker since the first, so one logical step is no longer atomic", "access")
			}
		}
	}
	// maps / slices reached through a shared object and modified by worker code
	for fn := range ca.mi.multi {
		fid := p.FuncID(fn)
		if num[fid] == nil {
			num[fid] = numbered{}
		}
		allInstrs(fn, func(in ssa.Instruction) {
			var cont ssa.Value
			what := ""
			switch x := in.(type) {
			case *ssa.MapUpdate:
				cont, what = x.Map, "map update"
			case *ssa.Store:
				if ia, ok := x.Addr.(*ssa.IndexAddr); ok {
					cont, what = ia.X, "element store"
				}
			case *ssa.Call:
				if isBuiltinCall(x, "clear") || isBuiltinCall(x, "delete") {
					cont, what = x.Common().Args[0], x.Common().Value.Name()
				}
			}
			if cont == nil || !ca.mi.shared[cont] {
				return
			}
			if _, isChan := cont.Type().Underlying().(*types.Chan); isChan {
				return
			}
			// containers local to this call frame (made here) are not shared even if stored in a shared-looking value
			switch resolve(cont).(type) {
			case *ssa.MakeMap, *ssa.MakeSlice, *ssa.Alloc:
				return
			}
			construct := num[fid].name(what + " on " + describeValue(cont))
			obj := cont
			if ld, ok := isLoad(stripConv(cont)); ok {
				if fa, ok := ld.(*ssa.FieldAddr); ok {
					obj = baseObject(fa)
				}
			}
			if heldAt(obj, in) || (ca.locked[fn] && len(fn.Params) > 0 && sameVar(obj, fn.Params[0])) {
				l.ok(fid, construct, p.InstrPos(in), "the owner's mutex is held", true, "access")
			} else {
				l.bad(fid, construct, p.InstrPos(in), "a map/slice reached through an object shared by concurrently running worker instances is modified without that object's mutex held: data race (and one root's data overwrites another's)", "access")
			}
		})
	}
	// spawner writes after the workers have started
	for sp := range ca.mi.spawners {
		allInstrs(sp, func(in ssa.Instruction) {
			st, ok := in.(*ssa.Store)
			if !ok {
				return
			}
			fa, ok := st.Addr.(*ssa.FieldAddr)
			if !ok {
				return
			}
			tn, f, _ := fieldOf(fa)
			// is this object handed to the workers?  (receiver of the go call / argument)
			handed := false
			var goInstr ssa.Instruction
			allInstrs(sp, func(in2 ssa.Instruction) {
				if g, ok := in2.(*ssa.Go); ok && inLoop(g) {
					for _, a := range g.Common().Args {
						if sameVar(a, baseObject(fa)) || sameBaseChain(a, fa) {
							handed = true
							goInstr = g
						}
					}
				}
			})
			if !handed {
				return
			}
			construct := "spawner write of " + tn + "." + f
			if reachableAfter(goInstr, st) {
				l.bad(p.FuncID(sp), construct, p.InstrPos(st), "the spawner writes a field of the object it hands to its workers after a worker may already be running", "init")
			} else {
				l.ok(p.FuncID(sp), construct, p.InstrPos(st), "initialisation: the write cannot execute after the first go statement", true, "init")
			}
		})
	}
	return l.list
}

// sameBaseChain: a denotes an object that embeds (by pointer) the object fa's base belongs to,
// e.g. go ds.worker(...) with ds *defaultSpreaderPipeline and the store ds.defaultSpreaderSimple.w.
func sameBaseChain(a ssa.Value, fa *ssa.FieldAddr) bool {
	v := ssa.Value(fa)
	for i := 0; i < 6; i++ {
		switch x := v.(type) {
		case *ssa.FieldAddr:
			if sameVar(x.X, a) {
				return true
			}
			v = x.X
		case *ssa.UnOp:
			if x.Op != token.MUL {
				return false
			}
			if sameVar(x, a) {
				return true
			}
			v = x.X
		default:
			return sameVar(v, a)
		}
	}
	return false
}

func ruleCONC6(w *World) []Ob {
	p := w.D()
	l := &obs{rule: "CONC-6", cfg: "D"}
	ca := concAnalyse(w)
	type agg struct {
		sites []string
		pos   string
	}
	by := map[fieldRef]*agg{}
	for _, a := range ca.acc {
		if !a.write {
			continue
		}
		if by[a.ref] == nil {
			by[a.ref] = &agg{pos: p.InstrPos(a.instr)}
		}
		by[a.ref].sites = append(by[a.ref].sites, p.FuncID(a.fn))
	}
	var refs []fieldRef
	for r := range by {
		refs = append(refs, r)
	}
	sort.Slice(refs, func(i, j int) bool { return refs[i].String() < refs[j].String() })
	// scratch buffers: a slice field that every writer refills from its own truncation (x.buf = f(x.buf[:0], …)) and
	// that is read only after such a refill in the same function keeps capacity, not content, between uses
	truncOf := func(v ssa.Value, fa *ssa.FieldAddr) bool {
		var rec func(v ssa.Value, d int) bool
		rec = func(v ssa.Value, d int) bool {
			if v == nil || d > 8 {
				return false
			}
			switch x := v.(type) {
			case *ssa.Slice:
				if x.High != nil {
					if k, isK := constInt(x.High); isK && k == 0 {
						if ld, isL := isLoad(x.X); isL {
							if f2, isFA := ld.(*ssa.FieldAddr); isFA && f2.Field == fa.Field && sameVar(f2.X, fa.X) {
								return true
							}
						}
					}
				}
				return false
			case *ssa.Call:
				for _, a := range x.Common().Args {
					if rec(a, d+1) {
						return true
					}
				}
				// the buffer is handed to a helper that starts from its truncation: f(w, x.buf, n) with `row := scratch[:0]`
				// as the only use of that parameter
				if h := x.Common().StaticCallee(); h != nil && p.InModule(h) && len(h.Blocks) > 0 {
					for i, a := range x.Common().Args {
						ld, isL := isLoad(a)
						if !isL || i >= len(h.Params) {
							continue
						}
						f2, isFA := ld.(*ssa.FieldAddr)
						if !isFA || f2.Field != fa.Field || !sameVar(f2.X, fa.X) {
							continue
						}
						refs := h.Params[i].Referrers()
						if refs == nil || len(*refs) == 0 {
							continue
						}
						only := true
						for _, r := range *refs {
							sl, isSl := r.(*ssa.Slice)
							if !isSl || sl.High == nil {
								if _, isDbg := r.(*ssa.DebugRef); isDbg {
									continue
								}
								only = false
								continue
							}
							if k, isK := constInt(sl.High); !isK || k != 0 {
								only = false
							}
						}
						if only {
							return true
						}
					}
				}
			case *ssa.Extract:
				return rec(x.Tuple, d+1)
			case *ssa.Phi:
				// the truncation grown on some paths only: every incoming value starts from it
				for _, e := range x.Edges {
					if !rec(e, d+1) {
						return false
					}
				}
				return len(x.Edges) > 0
			}
			return false
		}
		return rec(v, 0)
	}
	scratch := map[fieldRef]bool{}
	for r := range by {
		okAll := true
		var refills []*ssa.Store
		for _, a := range ca.acc {
			if a.ref != r || !a.write {
				continue
			}
			st, isSt := a.instr.(*ssa.Store)
			if !isSt || !truncOf(st.Val, a.addr) {
				okAll = false
				break
			}
			refills = append(refills, st)
		}
		if !okAll || len(refills) == 0 {
			continue
		}
		for _, a := range ca.acc {
			if a.ref != r || a.write {
				continue
			}
			covered := false
			for _, st := range refills {
				if st.Parent() != a.instr.Parent() {
					continue
				}
				// the load that feeds the truncation itself, or a load after the refill
				if ld, isV := a.instr.(ssa.Value); isV && ld.Referrers() != nil {
					for _, rf := range *ld.Referrers() {
						if sl, isSl := rf.(*ssa.Slice); isSl && sl.High != nil {
							if k, isK := constInt(sl.High); isK && k == 0 {
								covered = true
							}
						}
						// the load is the buffer handed to the refilling call itself
						if c, isC := rf.(*ssa.Call); isC {
							if stripConv(st.Val) == ssa.Value(c) {
								covered = true
							}
							if ex, isEx := stripConv(st.Val).(*ssa.Extract); isEx && ex.Tuple == ssa.Value(c) {
								covered = true
							}
						}
					}
				}
				if st.Block() == a.instr.Block() && instrIndex(st) < instrIndex(a.instr) || (st.Block() != a.instr.Block() && st.Block().Dominates(a.instr.Block())) {
					covered = true
				}
			}
			if !covered {
				okAll = false
			}
		}
		if okAll {
			scratch[r] = true
		}
	}
	// write-only counters: the value read from the field flows nowhere but through an arithmetic operation back into
	// the same field (x.n++, x.total += k): whatever one root leaves there, no result can depend on it
	counter := map[fieldRef]bool{}
	for r := range by {
		okAll, nReads, nWrites := true, 0, 0
		for _, a := range ca.acc {
			if a.ref != r {
				continue
			}
			if a.write {
				nWrites++
				st, isSt := a.instr.(*ssa.Store)
				if !isSt {
					okAll = false
					break
				}
				// what is stored: arithmetic on a load of the same field, or a constant
				if _, isK := st.Val.(*ssa.Const); isK {
					continue
				}
				bo, isB := st.Val.(*ssa.BinOp)
				if !isB {
					okAll = false
					break
				}
				fromSelf := false
				for _, op := range []ssa.Value{bo.X, bo.Y} {
					if ld, isL := isLoad(op); isL {
						if f2, isFA := ld.(*ssa.FieldAddr); isFA && f2.Field == a.addr.Field && sameVar(f2.X, a.addr.X) {
							fromSelf = true
						}
					}
				}
				if !fromSelf {
					okAll = false
					break
				}
				continue
			}
			nReads++
			ld, isV := a.instr.(ssa.Value)
			if !isV || ld.Referrers() == nil {
				okAll = false
				break
			}
			for _, rf := range *ld.Referrers() {
				switch x := rf.(type) {
				case *ssa.DebugRef:
				case *ssa.BinOp:
					if x.Referrers() == nil {
						okAll = false
						break
					}
					for _, rf2 := range *x.Referrers() {
						st, isSt := rf2.(*ssa.Store)
						if _, isDbg := rf2.(*ssa.DebugRef); isDbg {
							continue
						}
						f2, isFA := ssa.Value(nil), false
						if isSt {
							_, isFA = st.Addr.(*ssa.FieldAddr)
							f2 = st.Addr
						}
						if !isSt || !isFA || st.Val != ssa.Value(x) || f2.(*ssa.FieldAddr).Field != a.addr.Field || !sameVar(f2.(*ssa.FieldAddr).X, a.addr.X) {
							okAll = false
						}
					}
				default:
					okAll = false
				}
			}
			if !okAll {
				break
			}
		}
		if okAll && nWrites > 0 {
			counter[r] = true
		}
		_ = nReads
	}
	for _, r := range refs {
		a := by[r]
		if counter[r] {
			l.ok("shared "+r.typ, "field "+r.field+" written by worker-reachable code", a.pos, "a write-only counter: in worker-reachable code the value read from the field flows only through an arithmetic operation back into the same field, so nothing computed for a root can depend on it", false, "learned")
			continue
		}
		if scratch[r] {
			l.ok("shared "+r.typ, "field "+r.field+" written by worker-reachable code", a.pos, "a scratch buffer: every writer refills it from its own truncation (buf[:0]) and every read follows such a refill in the same function, so only capacity survives from one root to the next", false, "learned")
			continue
		}
		l.bad("shared "+r.typ, "field "+r.field+" written by worker-reachable code", a.pos,
			"state learnt while handling one root is visible to the workers handling other roots (written in "+strings.Join(dedupSorted(a.sites), ", ")+"): the result for a root can depend on which other roots were processed first", "learned")
	}
	// containers reached through a shared object and filled by worker code — a sync.Map, or a map / slice under a lock:
	// free of data races, but what one worker stores while handling its root is what another worker finds
	syncMapWrites := map[string]bool{"Store": true, "LoadOrStore": true, "Swap": true, "CompareAndSwap": true, "CompareAndDelete": true, "Delete": true, "LoadAndDelete": true, "Clear": true}
	var contFns []*ssa.Function
	for fn := range ca.mi.multi {
		contFns = append(contFns, fn)
	}
	sort.Slice(contFns, func(i, j int) bool { return p.FuncID(contFns[i]) < p.FuncID(contFns[j]) })
	for _, fn := range contFns {
		fn := fn
		num := numbered{}
		allInstrs(fn, func(in ssa.Instruction) {
			var cont ssa.Value
			what := ""
			switch x := in.(type) {
			case *ssa.MapUpdate:
				cont, what = x.Map, "map update"
			case ssa.CallInstruction:
				f := x.Common().StaticCallee()
				if f == nil || f.Signature.Recv() == nil || len(x.Common().Args) == 0 {
					return
				}
				if rt := f.Signature.Recv().Type(); !isPointerToNamed(rt, "sync", "Map") {
					return
				}
				if !syncMapWrites[f.Name()] {
					return
				}
				cont, what = x.Common().Args[0], "sync.Map."+f.Name()
			}
			if cont == nil || !(ca.mi.shared[cont] || ca.mi.shared[stripConv(cont)]) {
				return
			}
			switch resolve(cont).(type) {
			case *ssa.MakeMap, *ssa.Alloc:
				return
			}
			l.bad(p.FuncID(fn), num.name(what+" on "+describeValue(cont)), p.InstrPos(in),
				"worker-reachable code stores into a container that all workers share: what is learnt while handling one root is found by the workers handling other roots, so the result for a root can depend on which other roots were processed first (simple mode has no such memory)", "learned")
		})
	}
	// the Markdown parser learns the document's indentation from the lines it has seen; in simple mode one parser
	// lives for the whole document.  A parser constructed per block / per worker learns it per root instead, so
	// massive mode accepts (or rejects) documents that simple mode does not.
	nParser := 0
	for fn := range ca.mi.multi {
		fn := fn
		allInstrs(fn, func(in ssa.Instruction) {
			c, ok := in.(*ssa.Call)
			if !ok || c.Common().StaticCallee() == nil {
				return
			}
			f := c.Common().StaticCallee()
			if p.PkgPath(f) != modulePath+"/markdown" || f.Signature.Recv() != nil || f.Signature.Results().Len() != 1 || !isPointerToNamed(f.Signature.Results().At(0).Type(), modulePath+"/markdown", "Parser") {
				return
			}
			nParser++
			l.bad(p.FuncID(fn), "parser constructed once per document", p.InstrPos(c), "a Markdown parser is constructed in code that runs once per worker or per root block: each one learns the indentation unit, indent character and heading mode from its own block only, whereas simple mode keeps one parser for the whole document — the two modes then accept different documents", "parser-scope")
		})
	}
	if nParser == 0 {
		l.ok("-", "parser constructed once per document", "-", "no parser constructor call in worker-reachable code", false, "parser-scope")
	}
	if len(ca.mi.workers) == 0 {
		l.undecided("-", "multi-instance workers", "-", "no goroutine started in a loop was found", "worker")
	} else {
		l.ok("-", fmt.Sprintf("%d multi-instance workers, %d reachable functions", len(ca.mi.workers), len(ca.mi.multi)), "-", "shared-object field accesses enumerated: "+fmt.Sprint(len(ca.acc)), false, "worker")
	}
	return l.list
}

// outputStage: the worker's type (or a type it embeds) has a method that is handed an io.Writer — the operation's
// output destination, given per call (spread(ctx, w, roots)).
func outputStage(wk *ssa.Function) bool {
	if wk.Signature.Recv() == nil {
		return true
	}
	t := wk.Signature.Recv().Type()
	ms := types.NewMethodSet(t)
	for i := 0; i < ms.Len(); i++ {
		sig, ok := ms.At(i).Type().(*types.Signature)
		if !ok {
			continue
		}
		for j := 0; j < sig.Params().Len(); j++ {
			if isIOWriter(sig.Params().At(j).Type()) {
				return true
			}
		}
	}
	return false
}

func isIOWriter(t types.Type) bool {
	n, ok := types.Unalias(t).(*types.Named)
	return ok && n.Obj().Pkg() != nil && n.Obj().Pkg().Path() == "io" && n.Obj().Name() == "Writer"
}

// auxWritesLocked: every write to a shared writer reachable from the call is made while the lock of the object
// holding that writer (x.mu for x.w) is held in the writing function.
func auxWritesLocked(p *Prog, ci ssa.CallInstruction, ca *concAnalysis) bool {
	ok := true
	n := 0
	for fn := range reachableFrom(p, p.ModCallees(ci), nil) {
		allInstrs(fn, func(in ssa.Instruction) {
			c, isC := in.(ssa.CallInstruction)
			if !isC {
				return
			}
			wv, isW := writeTarget(p, c)
			if !isW {
				return
			}
			a := stripConv(wv)
			if !ca.mi.shared[a] {
				return
			}
			n++
			ld, isL := isLoad(a)
			if !isL {
				ok = false
				return
			}
			fa, isFA := ld.(*ssa.FieldAddr)
			if !isFA || !heldAt(fa.X, in) {
				ok = false
			}
		})
	}
	return ok && n > 0
}

// writeTarget: the call writes to a writer it is handed — an external writing function (fmt.Fprint, io.WriteString,
// Encoder.Encode, …) or a direct Write / WriteString / WriteByte on an io.Writer-like interface value; returns that writer.
func writeTarget(p *Prog, ci ssa.CallInstruction) (ssa.Value, bool) {
	com := ci.Common()
	if f := com.StaticCallee(); f != nil && !p.InModule(f) && classifyExternal(f) == EffWriteGiven && len(com.Args) > 0 {
		return com.Args[0], true
	}
	if com.IsInvoke() {
		switch com.Method.Name() {
		case "Write", "WriteString", "WriteByte", "WriteRune":
			if com.Method.Pkg() == nil || com.Method.Pkg().Path() == "io" || !strings.HasPrefix(com.Method.Pkg().Path(), modulePath) {
				return com.Value, true
			}
		}
	}
	return nil, false
}

func ruleCONC5(w *World) []Ob {
	p := w.D()
	l := &obs{rule: "CONC-5", cfg: "D"}
	ca := concAnalyse(w)
	// functions that (transitively, inside the module) write to a writer reached through a shared object
	writes := map[*ssa.Function]bool{}
	for fn := range ca.mi.multi {
		allInstrs(fn, func(in ssa.Instruction) {
			ci, ok := in.(ssa.CallInstruction)
			if !ok {
				return
			}
			if wv, ok := writeTarget(p, ci); ok && ca.mi.shared[stripConv(wv)] {
				writes[fn] = true
			}
		})
	}
	changed := true
	for changed {
		changed = false
		for fn := range ca.mi.multi {
			if writes[fn] {
				continue
			}
			allInstrs(fn, func(in ssa.Instruction) {
				if ci, ok := in.(ssa.CallInstruction); ok {
					for _, g := range p.ModCallees(ci) {
						if writes[g] && !writes[fn] {
							writes[fn] = true
							changed = true
						}
					}
				}
			})
		}
	}
	n := 0
	for wk, gos := range ca.mi.workers {
		if gos == nil {
			continue
		}
		fid := p.FuncID(wk)
		num := numbered{}
		allInstrs(wk, func(in ssa.Instruction) {
			ci, ok := in.(ssa.CallInstruction)
			if !ok {
				return
			}
			reaches := false
			for _, g := range p.ModCallees(ci) {
				if writes[g] {
					reaches = true
				}
			}
			if !reaches {
				return
			}
			n++
			construct := num.name("per-root call " + calleeString(ci.Common()))
			if len(wk.Params) > 0 && heldAt(wk.Params[0], in) {
				l.ok(fid, construct, p.InstrPos(in), "called between Lock and Unlock of the worker's receiver: one root is written as one uninterrupted block", true, "critical")
			} else if h := ci.Common().StaticCallee(); h != nil && len(wk.Params) > 0 && len(h.Params) > 0 && len(ci.Common().Args) > 0 && sameVar(ci.Common().Args[0], wk.Params[0]) && locksAroundWrites(p, h, writes) {
				l.ok(fid, construct, p.InstrPos(in), "the helper "+fname(h)+" takes the receiver's lock around everything it writes for the root: one root is written as one uninterrupted block", true, "critical")
			} else if !outputStage(wk) && auxWritesLocked(p, ci, ca) {
				l.ok(fid, construct, p.InstrPos(in), "the stage has no output writer of its own (no method of its type takes an io.Writer); what it writes goes to an auxiliary writer, each write under the lock of the object that owns that writer — per-root contiguity is required of the output stages only", false, "critical")
			} else {
				l.bad(fid, construct, p.InstrPos(in), "a call that writes to the shared writer is made without the spreader's lock held in the worker frame: lines of different roots can interleave", "critical")
			}
		})
		if writes[wk] {
			// direct writes in the worker itself
			allInstrs(wk, func(in ssa.Instruction) {
				ci, ok := in.(ssa.CallInstruction)
				if !ok {
					return
				}
				if wv, ok := writeTarget(p, ci); ok && ca.mi.shared[stripConv(wv)] {
					n++
					construct := num.name("direct write " + calleeString(ci.Common()))
					if len(wk.Params) > 0 && heldAt(wk.Params[0], in) {
						l.ok(fid, construct, p.InstrPos(in), "under the worker's lock", true, "critical")
					} else {
						l.bad(fid, construct, p.InstrPos(in), "write to the shared writer without the lock", "critical")
					}
				}
			})
		}
	}
	// a writer wrapped so that only single Write calls are serialised defeats per-root atomicity:
	// any type in the module implementing io.Writer whose Write takes a lock is reported
	for _, fn := range libFuncs(p) {
		if fname(fn) != "Write" || fn.Signature.Recv() == nil || fn.Signature.Params().Len() != 1 {
			continue
		}
		locks := false
		allInstrs(fn, func(in ssa.Instruction) {
			if ci, ok := in.(ssa.CallInstruction); ok {
				if _, lock, ok := lockCallOn(ci); ok && lock {
					locks = true
				}
			}
		})
		if locks {
			l.bad(p.FuncID(fn), "locking io.Writer wrapper", p.Pos(fn.Pos()), "a writer that locks per Write call serialises single lines, not whole roots: per-root blocks can interleave", "critical")
		}
	}
	if n == 0 {
		l.undecided("-", "writer-reaching calls in multi-instance workers", "-", "no multi-instance worker reaches a write to the shared writer: the text spreader's workers were not found", "critical")
	}
	// every lock taken in library code is released on every way out of the function (explicit Unlock on each path, or a
	// deferred one): a path that leaves with the lock held parks every other worker in Lock for good
	for _, fn := range libFuncs(p) {
		fn := fn
		num := numbered{}
		allInstrs(fn, func(in ssa.Instruction) {
			ci, ok := in.(*ssa.Call)
			if !ok {
				return
			}
			_, isLock, ok := lockCallOn(ci)
			if !ok || !isLock {
				return
			}
			m := ci.Common().Args[0]
			same := func(o ssa.Value) bool {
				if o == m || sameVar(o, m) {
					return true
				}
				fa, ok1 := m.(*ssa.FieldAddr)
				fb, ok2 := o.(*ssa.FieldAddr)
				return ok1 && ok2 && fa.Field == fb.Field && sameVar(fa.X, fb.X)
			}
			construct := num.name("release of " + calleeString(ci.Common()))
			deferred := false
			unlockBlocks := map[*ssa.BasicBlock]int{}
			allInstrs(fn, func(in2 ssa.Instruction) {
				switch x := in2.(type) {
				case *ssa.Defer:
					if _, lk, ok := lockCallOn(x); ok && !lk && same(x.Common().Args[0]) {
						deferred = true
					}
				case *ssa.Call:
					if _, lk, ok := lockCallOn(x); ok && !lk && same(x.Common().Args[0]) {
						unlockBlocks[x.Block()] = instrIndex(x)
					}
				}
			})
			if deferred {
				l.ok(p.FuncID(fn), construct, p.InstrPos(ci), "released by a deferred Unlock", true, "release")
				return
			}
			// walk from the lock: a block with an Unlock (after the lock, if it is the lock's own block) closes the path
			leak := ""
			seen := map[*ssa.BasicBlock]bool{}
			var walk func(b *ssa.BasicBlock, from int)
			walk = func(b *ssa.BasicBlock, from int) {
				if idx, has := unlockBlocks[b]; has && idx >= from {
					return
				}
				if from == 0 {
					if seen[b] {
						return
					}
					seen[b] = true
				}
				if len(b.Succs) == 0 {
					if _, isRet := b.Instrs[len(b.Instrs)-1].(*ssa.Return); isRet {
						leak = p.InstrPos(b.Instrs[len(b.Instrs)-1])
					}
					return
				}
				for _, s := range b.Succs {
					walk(s, 0)
				}
			}
			walk(ci.Block(), instrIndex(ci)+1)
			if leak != "" {
				l.bad(p.FuncID(fn), construct, p.InstrPos(ci), "the function can return at "+leak+" with the lock still held (no Unlock on that path and none deferred): the other workers block in Lock forever and their goroutines never end", "release")
			} else {
				l.ok(p.FuncID(fn), construct, p.InstrPos(ci), "an Unlock lies on every path from the Lock to a return", true, "release")
			}
		})
	}
	return l.list
}

// locksAroundWrites: h is a method on the same receiver as the worker; every call in h that reaches a write to the
// shared writer is made while h holds its receiver's lock.
func locksAroundWrites(p *Prog, h *ssa.Function, writes map[*ssa.Function]bool) bool {
	if h.Blocks == nil {
		return false
	}
	n, ok := 0, true
	allInstrs(h, func(in ssa.Instruction) {
		ci, isCall := in.(ssa.CallInstruction)
		if !isCall {
			return
		}
		reaches := false
		for _, g := range p.ModCallees(ci) {
			if writes[g] {
				reaches = true
			}
		}
		if _, ok := writeTarget(p, ci); ok {
			reaches = true
		}
		if !reaches {
			return
		}
		n++
		if !heldAt(h.Params[0], in) {
			ok = false
		}
	})
	return ok && n > 0
}

// senderContexts: ch is a parameter of a helper with several call sites (sendErr): the functions from which the
// helper is called with the channel mc.
func senderContexts(p *Prog, ch ssa.Value, mc ssa.Value, depth int) []*ssa.Function {
	prm, ok := resolve(ch).(*ssa.Parameter)
	if !ok || depth > 3 {
		return nil
	}
	fn := prm.Parent()
	if fn.Parent() != nil {
		return nil
	}
	idx := inputIndexParam(fn, prm)
	var out []*ssa.Function
	for _, site := range p.Callers(fn) {
		args := site.Common().Args
		if site.Common().IsInvoke() {
			args = append([]ssa.Value{site.Common().Value}, args...)
		}
		if idx < 0 || idx >= len(args) {
			continue
		}
		a := args[idx]
		if resolveArg(p, a) == mc || resolve(a) == mc {
			if _, isGo := site.(*ssa.Go); isGo {
				out = append(out, fn) // started as a goroutine: the helper itself is the sending context
			} else {
				out = append(out, site.Parent())
			}
			continue
		}
		out = append(out, senderContexts(p, a, mc, depth+1)...)
	}
	return out
}

// isContextMaker: a module helper without a context parameter that derives a cancellable context and hands both the
// context and its cancel function back to the caller unchanged (operationContext(cfg) (context.Context, context.CancelFunc)).
func isContextMaker(f *ssa.Function) bool {
	if f == nil || f.Blocks == nil || f.Signature.Results().Len() != 2 || !isContextType(f.Signature.Results().At(0).Type()) {
		return false
	}
	for _, prm := range f.Params {
		if isContextType(prm.Type()) {
			return false
		}
	}
	var derive *ssa.Call
	n := 0
	allInstrs(f, func(in ssa.Instruction) {
		if c, ok := in.(*ssa.Call); ok {
			switch calleeFullName(c.Common()) {
			case "context.WithCancel", "context.WithTimeout", "context.WithDeadline":
				derive = c
				n++
			}
		}
	})
	if n != 1 {
		return false
	}
	ok, nr := true, 0
	allInstrs(f, func(in ssa.Instruction) {
		r, isR := in.(*ssa.Return)
		if !isR {
			return
		}
		nr++
		vals := rr(r)
		if len(vals) != 2 {
			ok = false
			return
		}
		for i, v := range vals {
			ex, isEx := resolve(v).(*ssa.Extract)
			if !isEx || ex.Tuple != ssa.Value(derive) || ex.Index != i {
				ok = false
			}
		}
	})
	return ok && nr > 0
}
