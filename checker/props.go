package main

// Property → rules map (DESIGN.md §4).  A rule shared by several properties is evaluated once per
// invocation and filtered to the routes the property quantifies over.

import "strings"

func scope(ss ...string) func(Ob) bool {
	return func(o Ob) bool {
		for _, s := range ss {
			if o.Scope == s {
				return true
			}
		}
		return false
	}
}

func funcHas(subs ...string) func(Ob) bool {
	return func(o Ob) bool {
		for _, s := range subs {
			if strings.Contains(o.Func, s) {
				return true
			}
		}
		return false
	}
}

func role(rs ...string) func(Ob) bool {
	return func(o Ob) bool {
		for _, r := range rs {
			if o.Role == r || strings.HasPrefix(o.Role, r) {
				return true
			}
		}
		return false
	}
}

func and(fs ...func(Ob) bool) func(Ob) bool {
	return func(o Ob) bool {
		for _, f := range fs {
			if !f(o) {
				return false
			}
		}
		return true
	}
}

func or(fs ...func(Ob) bool) func(Ob) bool {
	return func(o Ob) bool {
		for _, f := range fs {
			if f(o) {
				return true
			}
		}
		return false
	}
}

func not(f func(Ob) bool) func(Ob) bool { return func(o Ob) bool { return !f(o) } }

func cfgIs(c string) func(Ob) bool { return func(o Ob) bool { return o.Cfg == c } }

var pipelineFuncs = funcHas("Pipeline", "gtree.split", "gtree.sendErr", "handlePipelineErr")

func init() {
	lib := scope("lib", "markdown")

	props["C14"] = &PropSpec{ID: "C14",
		Uses: []Use{
			{Rule: "ERR-1", Filter: lib},
			{Rule: "ERR-2", Floors: map[string]int{"sink:defaultSpreaderSimple": 1, "sink:defaultGrowSpreaderSimple": 1, "sink:colorizeSpreaderSimple": 2, "sink:formattedSpreaderSimple": 2, "sink:formattedSpreaderPipeline": 1, "sink:colorizeSpreaderPipeline": 2, "sink:defaultSpreader": 2, "sink:jsonSpreader": 1}},
			{Rule: "ERR-3", Floors: map[string]int{"scan": 5}},
			{Rule: "EFF-8", Filter: role("writer")},
		},
		Decides:    "every error value produced on a library path (every write to the caller's io.Writer, every bufio.Scanner, every stage error channel) is propagated unchanged or wrapped with %w up to the API result — none is dropped, merely tested, or replaced; every Scan loop is followed by Err() on the same scanner; the CLI hands os.Stdout/color.Output to the library unwrapped.",
		NotDecided: "short writes that report n < len(p) with a nil error; encoders swallowing errors internally; that errors.Is actually matches at run time (only SSA identity / %w wrapping of the propagated value is checked).",
	}
	props["C11"] = &PropSpec{ID: "C11",
		Uses: []Use{
			{Rule: "CONC-1", Floors: map[string]int{"select-send": 5, "select-recv": 8, "send-plain": 3}},
			{Rule: "CONC-2", Floors: map[string]int{"chan": 14}},
			{Rule: "CONC-3", Floors: map[string]int{"operation": 8, "stage": 10, "collector": 1}},
			{Rule: "CONC-4", Floors: map[string]int{"worker": 6, "access": 5}},
			{Rule: "ERR-1", Filter: and(lib, pipelineFuncs)},
		},
		Decides:    "no channel operation of the massive mode can block forever once the operation's context is cancelled (every send/select/receive has a ctx.Done() alternative or is a single send into a buffered channel); the context every stage waits on is the one derived and cancelled (deferred) by the operation; the error collector waits on the errgroup's context so the first error releases the rest; channels are closed once by their owner after its workers were joined; fields shared by concurrently running workers are written only under the owner's mutex.",
		NotDecided: "'bounded time' as a number; readers/writers/callbacks supplied by the user that block forever; fairness; that no goroutine remains at the very instant of return (they terminate after cancel, asynchronously); races on objects the user supplies.",
	}
	props["C12"] = &PropSpec{ID: "C12",
		Uses: []Use{
			{Rule: "NIL-1", Floors: map[string]int{"handover-chan": 6, "handover-seq": 8, "handover-return": 2}},
			{Rule: "NIL-3", Floors: map[string]int{"massive": 1, "iter": 2}},
			{Rule: "NIL-4", Floors: map[string]int{"bce": 8, "assert": 5, "div": 2}},
			{Rule: "EFF-7"},
			{Rule: "CONC-2"},
			{Rule: "CONC-3", Filter: role("collector")},
			{Rule: "ERR-3"},
		},
		Decides:    "no nil *Node crosses a channel, iterator or return hand-over to a consumer that dereferences it (producers prove node≠nil or err≠nil; consumers test err first); massive mode always comes with a non-nil context and the nil pipeline iterator is never selected; every index/slice the compiler cannot prove, every non-comma-ok assertion and integer division is guarded or covered by a named invariant; no explicit panic, os.Exit or log.Fatal in the library; no double close / send on closed channel; over-long lines surface as the scanner's error.",
		NotDecided: "termination in general (scanner loops end with the reader; only the error collector's release is checked), stack depth on very deep trees, memory exhaustion, panics inside third-party encoders, nil-pointer safety of values other than *Node hand-overs.",
	}
	props["C10"] = &PropSpec{ID: "C10",
		Uses: []Use{
			{Rule: "CONC-5", Floors: map[string]int{"critical": 1}},
			{Rule: "CONC-6"},
			{Rule: "CONC-4", Filter: role("access", "init")},
			{Rule: "NIL-1", Filter: role("handover-chan")},
			{Rule: "ERR-1", Filter: and(lib, pipelineFuncs)},
		},
		Decides:    "each root is written under one critical section held in the worker frame (no per-line locking writer); workers share no unsynchronised state and no state learnt from other roots (reported as known finding F10 for the shared Markdown parser); every parsed root is forwarded non-nil; an error in any stage reaches the result.",
		NotDecided: "equality of massive and simple results as values; interleavings beyond lock/ownership discipline; agreement of splitter and parser on which lines are roots for '#' documents (root cause of the known finding).",
	}
	props["C07"] = &PropSpec{ID: "C07",
		Uses: []Use{
			{Rule: "EFF-4", Floors: map[string]int{"gate": 6, "validate": 2, "validate-call": 1, "encode": 12, "forward": 1}},
			{Rule: "EFF-5", Floors: map[string]int{"path": 3, "target": 2}},
			{Rule: "EFF-2"},
			{Rule: "EFF-3", Filter: role("cli-gate")},
		},
		Decides:    "on all mkdir and verify routes (Markdown/root × simple/massive) name validation is switched on before growing, the stage runs only after growing succeeded, validatePath rejects '/' in names and invalid paths and is guarded by nothing but the validation flag, the grower is never the no-op on these routes, every filesystem path is filepath.Join(targetDir, node path) with targetDir fed from WithTargetDir, and creation happens only inside the mkdirer.",
		NotDecided: "what path.Join / fs.ValidPath accept as values (a child named '.' or a '..' that path.Join resolves inside the tree passes validation), symlink escapes, OS behaviour.",
	}
	props["C09"] = &PropSpec{ID: "C09",
		Uses: []Use{
			{Rule: "EFF-1", Filter: role("entry-readonly", "cli-readonly")},
			{Rule: "EFF-3", Floors: map[string]int{"gate": 4, "cli-gate": 2}},
			{Rule: "EFF-2"},
		},
		Decides:    "no filesystem-mutating call is reachable from Output* (the CLI's dry-run route), and on every Mkdir* route every path to a creating call crosses the false side of a branch on the dry-run option; the CLI's mkdir reaches creation only on the false side of --dry-run and rejects stray arguments first; constructors and other shared code contain no filesystem mutation.",
		NotDecided: "numeric equality of the reported counts with what a real run creates; colour escape sequences; 'rejects iff the real run rejects' beyond sharing the validation gate (C07).",
	}
	props["C06"] = &PropSpec{ID: "C06",
		Uses: []Use{
			{Rule: "EFF-6", Floors: map[string]int{"exists": 2}},
			{Rule: "EFF-2", Floors: map[string]int{"site": 2}},
			{Rule: "EFF-5", Filter: funcHas("Mkdirer")},
			{Rule: "ERR-1", Filter: funcHas("Mkdirer", "mkdir")},
		},
		Decides:    "every creating call is dominated by the not-exists side of a test that stats every root and whose exists side yields the path-exists error; creation happens only in the mkdirer; created paths are Join(targetDir, node path); every filesystem error (MkdirAll, Create, Close) is returned.",
		NotDecided: "the exact set of entries created for every forest, file-vs-directory choice as a value (see TAB-3 when claimed), OS refusals, pre-existing state other than roots.",
	}
	props["C08"] = &PropSpec{ID: "C08",
		Uses: []Use{
			{Rule: "EFF-1", Filter: and(role("entry-readonly", "cli-readonly"), funcHas("Verify", "actionVerify"))},
			{Rule: "EFF-4", Filter: and(role("gate", "encode"), funcHas("erify"))},
			{Rule: "EFF-5", Filter: funcHas("Verifier")},
			{Rule: "ERR-1", Filter: funcHas("Verifier", "verify")},
		},
		Decides:    "verify never reaches a filesystem-mutating call; names are validated and paths assembled before verifying; looked-up paths are Join(targetDir, node path) like the mkdirer's; walk errors are returned.",
		NotDecided: "soundness/completeness of the reported path sets for every directory state, the 'first root that differs' listing, map-iteration order of the report.",
	}
	props["C16"] = &PropSpec{ID: "C16",
		Uses: []Use{
			{Rule: "ERR-1", Filter: scope("cli")},
			{Rule: "EFF-8", Floors: map[string]int{"stdout": 3, "writer": 2}},
			{Rule: "EFF-1", Filter: role("cli-readonly")},
			{Rule: "EFF-3", Filter: role("cli-gate")},
		},
		Decides:    "every error from a library call, os.Open, option parsing and the template printer in package main is returned (wrapped by an exit-coder); package main prints nothing itself on the output/mkdir/verify routes and hands os.Stdout/color.Output to the library unwrapped; read-only subcommands reach no mutation; mkdir creates only without --dry-run and rejects stray arguments.",
		NotDecided: "urfave/cli's own parsing, the rendered text of `template | output`, closed-stdout semantics of the OS.",
	}
}
