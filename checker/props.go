package main

// Property → rules map (DESIGN.md §4).  A rule shared by several properties is evaluated once per
// invocation and filtered to the routes the property quantifies over.

import "strings"

func scope(ss ...string) func(Ob) bool {
	return func(o Ob) bool {
		for _, s := range ss {
			if o.Scope == s {
				return true
			}
		}
		return false
	}
}

func funcHas(subs ...string) func(Ob) bool {
	return func(o Ob) bool {
		for _, s := range subs {
			if strings.Contains(o.Func, s) {
				return true
			}
		}
		return false
	}
}

func role(rs ...string) func(Ob) bool {
	return func(o Ob) bool {
		for _, r := range rs {
			if o.Role == r || strings.HasPrefix(o.Role, r) {
				return true
			}
		}
		return false
	}
}

func and(fs ...func(Ob) bool) func(Ob) bool {
	return func(o Ob) bool {
		for _, f := range fs {
			if !f(o) {
				return false
			}
		}
		return true
	}
}

func or(fs ...func(Ob) bool) func(Ob) bool {
	return func(o Ob) bool {
		for _, f := range fs {
			if f(o) {
				return true
			}
		}
		return false
	}
}

func constructHas(subs ...string) func(Ob) bool {
	return func(o Ob) bool {
		for _, s := range subs {
			if strings.Contains(o.Construct, s) {
				return true
			}
		}
		return false
	}
}

func not(f func(Ob) bool) func(Ob) bool { return func(o Ob) bool { return !f(o) } }

func cfgIs(c string) func(Ob) bool { return func(o Ob) bool { return o.Cfg == c } }

var pipelineFuncs = funcHas("Pipeline", "gtree.split", "gtree.sendErr", "handlePipelineErr")

func init() {
	lib := scope("lib", "markdown")

	props["C14"] = &PropSpec{ID: "C14",
		Uses: []Use{
			{Rule: "SIB-5", Filter: constructHas("cut short"), Floors: map[string]int{"line-loop": 2}},
			{Rule: "CONC-3", Filter: role("collected", "verdict", "collector")},
			{Rule: "ERR-1", Filter: and(lib, not(constructHas("os.", "io/fs.")))},
			{Rule: "ERR-2", Floors: map[string]int{"sink": 4}},
			{Rule: "ERR-3", Floors: map[string]int{"scan": 3}},
			{Rule: "NIL-1", Filter: role("handover-err"), Floors: map[string]int{"handover-err": 6}},
			{Rule: "EFF-8", Filter: role("writer")},
		},
		Decides:    "every error value produced on a library path (every write to the caller's io.Writer, every bufio.Scanner, every stage error channel) is propagated unchanged or wrapped with %w up to the API result — none is dropped, merely tested, or replaced; every Scan loop is followed by Err() on the same scanner; the CLI hands os.Stdout/color.Output to the library unwrapped.",
		NotDecided: "short writes that report n < len(p) with a nil error; encoders swallowing errors internally; that errors.Is actually matches at run time (only SSA identity / %w wrapping of the propagated value is checked).",
	}
	props["C11"] = &PropSpec{ID: "C11",
		Uses: []Use{
			{Rule: "CONC-1", Floors: map[string]int{"select-send": 3, "select-recv": 4, "send-plain": 2}},
			{Rule: "CONC-2", Floors: map[string]int{"chan": 7}},
			{Rule: "CONC-3", Floors: map[string]int{"operation": 4, "stage": 5, "collector": 1}},
			{Rule: "CONC-4", Floors: map[string]int{"worker": 3, "access": 3}},
			{Rule: "ERR-1", Filter: and(lib, pipelineFuncs)},
			{Rule: "NIL-1", Filter: role("handover-err")},
			{Rule: "CONC-5", Filter: role("release"), Floors: map[string]int{"release": 1}},
		},
		Decides:    "no channel operation of the massive mode can block forever once the operation's context is cancelled (every send/select/receive has a ctx.Done() alternative or is a single send into a buffered channel); the context every stage waits on is the one derived and cancelled (deferred) by the operation; the error collector waits on the errgroup's context so the first error releases the rest; channels are closed once by their owner after its workers were joined; fields shared by concurrently running workers are written only under the owner's mutex; no stage error counts as success only together with ctx.Err() == nil; every stage starts at least one worker; whether the operation has seen every stage stop before it returns (it has not: known finding F13).",
		NotDecided: "'bounded time' as a number; readers/writers/callbacks supplied by the user that block forever; fairness; races on objects the user supplies.",
	}
	props["C12"] = &PropSpec{ID: "C12",
		Uses: []Use{
			{Rule: "SIB-5", Filter: constructHas("token limit")},
			{Rule: "PAIR-6", Filter: constructHas("closed only after")},
			{Rule: "NIL-1", Floors: map[string]int{"handover-chan": 3, "handover-seq": 4, "handover-return": 1}},
			{Rule: "NIL-3", Floors: map[string]int{"massive": 1, "iter": 1}},
			{Rule: "NIL-4", Floors: map[string]int{"bce": 4, "assert": 3, "div": 1}},
			{Rule: "EFF-7"},
			{Rule: "PAIR-7"},
			{Rule: "CONC-2"},
			{Rule: "CONC-3", Filter: role("collector"), Floors: map[string]int{"collector": 1}},
			{Rule: "ERR-3"},
		},
		Decides:    "no nil *Node crosses a channel, iterator or return hand-over to a consumer that dereferences it (producers prove node≠nil or err≠nil; consumers test err first); massive mode always comes with a non-nil context and the nil pipeline iterator is never selected; every index/slice the compiler cannot prove, every non-comma-ok assertion and integer division is guarded or covered by a named invariant; no explicit panic, os.Exit or log.Fatal in the library; no double close / send on closed channel; over-long lines surface as the scanner's error.",
		NotDecided: "termination in general (scanner loops end with the reader; only the error collector's release is checked), stack depth on very deep trees, memory exhaustion, panics inside third-party encoders, nil-pointer safety of values other than *Node hand-overs.",
	}
	props["C10"] = &PropSpec{ID: "C10",
		Uses: []Use{
			{Rule: "TAB-7", Filter: and(role("wire"), constructHas("massive"))},
			{Rule: "CONC-3", Filter: role("collector", "verdict", "collected")},
			{Rule: "PAIR-6", Filter: funcHas("Pipeline")},
			{Rule: "CONC-5", Floors: map[string]int{"critical": 1}},
			{Rule: "CONC-6"},
			{Rule: "CONC-4", Filter: role("access", "init")},
			{Rule: "NIL-1", Filter: role("handover-chan", "handover-err")},
			{Rule: "ERR-1", Filter: and(lib, pipelineFuncs)},
			{Rule: "TAB-2", Filter: role("split", "table")},
			{Rule: "SPLIT-1", Floors: map[string]int{"split": 2}},
			{Rule: "SIB-6", Floors: map[string]int{"reuse": 3}},
			{Rule: "EFF-4", Filter: and(role("gate"), funcHas("treePipeline"))},
			{Rule: "SIB-5", Filter: funcHas("Pipeline")},
			{Rule: "SIB-4", Filter: and(role("fresh"), funcHas("Pipeline"))},
			{Rule: "CONC-1", Filter: role("pool"), Floors: map[string]int{"pool": 3}},
			{Rule: "EFF-6", Filter: role("exists-all")},
			{Rule: "PAIR-3", Filter: funcHas("Pipeline")},
		},
		Decides:    "each root is written under one critical section held in the worker frame (no per-line locking writer); workers share no unsynchronised state and no state learnt from other roots (reported as known finding F10 for the shared Markdown parser); every parsed root is forwarded non-nil; an error in any stage reaches the result; every pooled stage starts at least one worker; encoded records are converted per root, not shared; the mkdirer's existence test is per root inside the workers (known finding F14).",
		NotDecided: "equality of massive and simple results as values; interleavings beyond lock/ownership discipline; agreement of splitter and parser on which lines are roots for '#' documents (root cause of the known finding).",
	}
	props["C07"] = &PropSpec{ID: "C07",
		Uses: []Use{
			{Rule: "EFF-4", Floors: map[string]int{"gate": 3, "validate": 1, "validate-call": 1, "encode": 6, "forward": 1}},
			{Rule: "EFF-5", Floors: map[string]int{"path": 2, "target": 1}},
			{Rule: "EFF-2"},
			{Rule: "TAB-6", Filter: and(func(o Ob) bool { return o.Role == "grower-flag" || (o.Role == "factory" && strings.Contains(o.Construct, "grower factory")) }, cfgIs("D"))},
		},
		Decides:    "on all mkdir and verify routes (Markdown/root × simple/massive) name validation is switched on before growing, the stage runs only after growing succeeded, validatePath rejects '/' in names, the names \"\", \".\" and \"..\", and invalid paths and is guarded by nothing but the validation flag, the grower is never the no-op on these routes, every filesystem path is filepath.Join(targetDir, node path) with targetDir fed from WithTargetDir, and creation happens only inside the mkdirer.",
		NotDecided: "what path.Join / fs.ValidPath accept as values (a child named '.' or a '..' that path.Join resolves inside the tree passes validation), symlink escapes, OS behaviour.",
	}
	props["C09"] = &PropSpec{ID: "C09",
		Uses: []Use{
			{Rule: "EFF-1", Filter: role("entry-readonly", "cli-readonly")},
			{Rule: "EFF-3", Floors: map[string]int{"gate": 2, "cli-gate": 1}},
			{Rule: "EFF-4", Filter: role("grow-all")},
			{Rule: "EFF-2"},
			{Rule: "TAB-6", Filter: and(func(o Ob) bool { return o.Role == "factory" || o.Role == "factory-args" || o.Role == "grower-flag" }, cfgIs("D")), Floors: map[string]int{"factory": 2, "grower-flag": 1}},
			{Rule: "TAB-3", Filter: and(role("pred", "users", "ext"), cfgIs("D"))},
			{Rule: "PAIR-5", Filter: cfgIs("D")},
			{Rule: "SIB-3", Filter: or(and(role("report", "row"), cfgIs("D"), funcHas("olorize")), and(role("format"), cfgIs("D")))},
		},
		Decides:    "no filesystem-mutating call is reachable from Output* (the CLI's dry-run route), and on every Mkdir* route every path to a creating call crosses the false side of a branch on the dry-run option; the CLI's mkdir reaches creation only on the false side of --dry-run and rejects stray arguments first; constructors and other shared code contain no filesystem mutation.",
		NotDecided: "numeric equality of the reported counts with what a real run creates; colour escape sequences; 'rejects iff the real run rejects' beyond sharing the validation gate (C07).",
	}
	props["C06"] = &PropSpec{ID: "C06",
		Uses: []Use{
			{Rule: "SIB-6", Filter: and(role("shadow", "reuse"), funcHas("kdirer"))},
			{Rule: "EFF-6", Floors: map[string]int{"exists": 1}},
			{Rule: "EFF-2", Floors: map[string]int{"site": 1}},
			{Rule: "EFF-5", Filter: funcHas("Mkdirer")},
			{Rule: "ERR-1", Filter: funcHas("Mkdirer", "mkdir")},
			{Rule: "NIL-1", Filter: and(role("handover-err"), funcHas("kdirer"))},
			{Rule: "TAB-3", Filter: cfgIs("D"), Floors: map[string]int{"pred": 1, "users": 1, "kind": 1}},
			{Rule: "SIB-4", Filter: funcHas("makeDirectoriesAndFiles")},
			{Rule: "GLOB-3", Filter: and(cfgIs("D"), or(constructHas("setPath"), role("structure")))},
			{Rule: "C01-SEL", Filter: and(role("path", "assembly-site"), cfgIs("D"))},
		},
		Decides:    "every creating call is dominated by the not-exists side of a test that stats every root and whose exists side yields the path-exists error; creation happens only in the mkdirer; created paths are Join(targetDir, node path); every filesystem error (MkdirAll, Create, Close) is returned; whether every root is tested before any root is created (not in massive mode: known finding F14).",
		NotDecided: "the exact set of entries created for every forest, file-vs-directory choice as a value (see TAB-3 when claimed), OS refusals, pre-existing state other than roots.",
	}
	props["C08"] = &PropSpec{ID: "C08",
		Uses: []Use{
			{Rule: "SIB-6", Filter: and(role("shadow", "reuse"), funcHas("erifier"))},
			{Rule: "TAB-7", Filter: and(role("wire"), constructHas("strict"))},
			{Rule: "CONC-6", Filter: and(role("learned"), funcHas("erif"))},
			{Rule: "EFF-1", Filter: and(role("entry-readonly", "cli-readonly"), funcHas("Verify", "actionVerify"))},
			{Rule: "EFF-4", Filter: and(role("gate", "encode"), funcHas("erify"))},
			{Rule: "EFF-5", Filter: funcHas("Verifier")},
			{Rule: "ERR-1", Filter: funcHas("Verifier", "verify", "sendErr", "handlePipelineErr")},
			{Rule: "TAB-4", Floors: map[string]int{"verdict": 1, "sets": 1}},
			{Rule: "NIL-1", Filter: and(role("handover-err"), funcHas("erifier"))},
			{Rule: "CONC-4", Filter: and(role("access"), funcHas("erifier"))},
			{Rule: "SIB-4", Filter: funcHas("fillDirsMarkdown")},
			{Rule: "GLOB-3", Filter: and(cfgIs("D"), or(constructHas("setPath"), role("structure")))},
			{Rule: "C01-SEL", Filter: and(role("path", "assembly-site"), cfgIs("D"))},
		},
		Decides:    "verify never reaches a filesystem-mutating call; names are validated and paths assembled before verifying; looked-up paths are Join(targetDir, node path) like the mkdirer's; walk errors are returned.",
		NotDecided: "soundness/completeness of the reported path sets for every directory state, the 'first root that differs' listing, map-iteration order of the report.",
	}
	props["C16"] = &PropSpec{ID: "C16",
		Uses: []Use{
			{Rule: "NIL-1", Filter: role("parent-deref")},
			{Rule: "ERR-1", Filter: scope("cli")},
			{Rule: "EFF-8", Floors: map[string]int{"stdout": 2, "writer": 1}},
			{Rule: "EFF-1", Filter: role("cli-readonly")},
			{Rule: "EFF-3", Filter: role("cli-gate")},
			{Rule: "TAB-7", Floors: map[string]int{"exit": 1, "code": 3, "wire": 3, "action": 2}},
		},
		Decides:    "main exits non-zero whenever app.Run fails and every cli.Exit code is a non-zero constant; every error from a library call, os.Open, option parsing and the template printer in package main is returned (wrapped by an exit-coder); flags are wired to the matching library options whose values reach the library call; package main prints nothing itself on the output/mkdir/verify routes and hands os.Stdout/color.Output to the library unwrapped; read-only subcommands reach no mutation; mkdir creates only without --dry-run and rejects stray arguments.",
		NotDecided: "urfave/cli's own parsing, the rendered text of `template | output`, closed-stdout semantics of the OS, crashes (C12's rules cover the library routes).",
	}
	props["C01"] = &PropSpec{ID: "C01",
		Uses: []Use{
			{Rule: "SIB-6", Filter: and(role("shadow"), funcHas("preader", "rower"))},
			{Rule: "TAB-6", Filter: role("config-defaults"), Floors: map[string]int{"config-defaults": 1}},
			{Rule: "TAB-7", Filter: and(role("wire"), constructHas("massive"))},
			{Rule: "SIB-3", Filter: role("row", "fact", "format"), Floors: map[string]int{"row": 2, "fact": 2}},
			{Rule: "C01-SEL", Floors: map[string]int{"select": 1, "walkup": 1, "last": 1, "path": 2}},
			{Rule: "SIB-4", Filter: and(cfgIs("D"), not(role("fresh"))), Floors: map[string]int{"traversal": 5}},
			{Rule: "PAIR-1", Floors: map[string]int{"insert": 1, "lookup": 1}},
			{Rule: "PAIR-2", Floors: map[string]int{"link": 1, "level": 1}},
			{Rule: "GLOB-3", Filter: cfgIs("D"), Floors: map[string]int{"accumulate": 2}},
			{Rule: "C01-NAME", Floors: map[string]int{"name": 3}},
			{Rule: "TAB-6", Filter: and(role("factory-args", "grower-formats"), cfgIs("D"))},
			{Rule: "TAB-6", Filter: and(func(o Ob) bool { return o.Role == "factory" }, cfgIs("D"), constructHas("grower factory"))},
			{Rule: "PARSE-1", Floors: map[string]int{"learn": 2}},
			{Rule: "TAB-1", Filter: role("parse-always")},
			{Rule: "SIB-5", Filter: and(cfgIs("D"), constructHas("classified"))},
		},
		Decides:    "the line each printer writes is name+newline for a root and branch+space+name+newline otherwise; the connector/continuation strings are the last/intermediate ones selected by isLastOfHierarchy of the node / of the ancestor, appended / prepended, over ancestors from the parent up to but excluding the root; isLastOfHierarchy compares with the parent's last child; branch formats travel from the options to the grower fields of the same name; traversals are pre-order over children in order; equally named siblings are merged (lookup before insert) and links are bidirectional one level apart; the per-node cache is cleared before it is rebuilt; the item text loses at most one leading space; output errors are returned.",
		NotDecided: "the parser's indentation arithmetic and unit inference (a wrong level number is invisible to these rules), the stack discipline that finds the nearest open node one level up, Unicode/bullet characters inside names, equality of the iterator and non-iterator output paths beyond SIB-5.",
	}
	props["C02"] = &PropSpec{ID: "C02",
		Uses: []Use{
			{Rule: "CONC-3", Filter: role("collected"), Floors: map[string]int{"collected": 4}},
			{Rule: "CONC-6", Filter: role("parser-scope")},
			{Rule: "SIB-5", Floors: map[string]int{"line-loop": 14}},
			{Rule: "PAIR-3", Floors: map[string]int{"attach": 1, "attach-caller": 1}},
			{Rule: "TAB-1", Floors: map[string]int{"map": 2, "blank": 1}},
			{Rule: "TAB-2", Filter: role("split", "table")},
			{Rule: "NIL-1", Filter: role("handover-return")},
			{Rule: "SPLIT-1"},
			{Rule: "PARSE-1"},
			{Rule: "ERR-1", Filter: funcHas("rootGenerator", "nodeGenerator", "gtree.split", "markdown.")},
		},
		Decides:    "in all four line loops (simple, iterator, pipeline worker, tinywasm) every scanned line is classified; a parse error ends the call with that error; only whitespace-only lines map to 'skip'; a root opens a new stack and is recorded; an item before the first root hits a live nil-stack test; every other item is attached or the attach function reports failure which every caller turns into the format error of that line; every recorded root is handed over; the format error carries and prints the row.",
		NotDecided: "the 'iff': which lines the parser considers malformed (indent not a multiple of the unit, tab/space mixing, empty text) is decided on run-time values; that the error text quotes the row byte-for-byte; the massive-mode splitter's grouping of lines into blocks beyond the symbol-table agreement.",
	}
	props["C03"] = &PropSpec{ID: "C03",
		Uses: []Use{
			{Rule: "C01-SEL", Filter: role("assembly-site")},
			{Rule: "SIB-6", Filter: role("pair"), Floors: map[string]int{"pair": 2}},
			{Rule: "PAIR-4", Floors: map[string]int{"validate-first": 5, "sentinel": 1}},
			{Rule: "SIB-1", Floors: map[string]int{"alias": 5}},
			{Rule: "PAIR-1", Filter: funcHas("Add", "findChildByText")},
			{Rule: "PAIR-2", Filter: funcHas("Add", "isDirectlyUnder")},
			{Rule: "SIB-3", Filter: and(funcHas("assembleAndPrint", "defaultSpreaderSimple).spreadBranch"), cfgIs("D"))},
			{Rule: "SIB-6", Filter: role("stages")},
			{Rule: "GLOB-3", Filter: cfgIs("D")},
			{Rule: "GLOB-1", Filter: and(role("sink", "global-mutable", "summary"), cfgIs("D"))},
			{Rule: "EFF-4", Filter: and(role("gate", "encode"), funcHas("rogrammably", "FromRoot"))},
			{Rule: "ERR-1", Filter: and(scope("lib"), funcHas("rogrammably", "FromRoot"))},
		},
		Decides:    "every From-Root entry point (and the iterator closures) validates the root first with the documented sentinels and does nothing else before; deprecated aliases are identical to their replacements; Add looks the name up before inserting and links both ways one level deeper; the fused From-Root printer writes the same row term as the grow-then-print path and clears the node cache first on every route; From-Root routes enable validation and force the default encoding like the Markdown routes; no mutable package-level state reaches a decision or output.",
		NotDecided: "equality of the two API families' outputs as values for every tree and option combination (it follows from shared code only as far as that code is deterministic in the tree).",
	}
	props["C04"] = &PropSpec{ID: "C04",
		Uses: []Use{
			{Rule: "TAB-6", Filter: role("tags", "encode", "factory"), Floors: map[string]int{"tags": 2, "encode": 1, "factory-nop": 1}},
			{Rule: "EFF-4", Filter: role("encode-kept"), Floors: map[string]int{"encode-kept": 2}},
			{Rule: "PAIR-6", Floors: map[string]int{"encoder": 2}},
			{Rule: "SIB-4", Filter: or(funcHas("toFormattedNode", "toJSONNode"), role("fresh")), Floors: map[string]int{"traversal": 1, "fresh": 3}},
			{Rule: "ERR-1", Filter: and(scope("lib"), funcHas("formattedSpreader", "jsonSpreader"))},
			{Rule: "NIL-4", Filter: funcHas("toFormattedNode", "jsonNode)", "tomlNode)", "yamlNode)", "toJSONNode")},
		},
		Decides:    "records are tagged value/children in all three formats; the encode constant selects the encoder of the matching package; one encoder is constructed per call (outside the per-root loop) and Encode is called per root; the tree copy uses one index for source and copy and preserves order and nesting; encoder errors propagate. (Thin claim: the encoders' own quoting is not analysed.)",
		NotDecided: "that encoding/json, yaml.v3 and go-toml quote every hostile name correctly and that decoding yields equal strings (library behaviour on run-time values; a hand-written Marshaler would not be analysed); TOML for multi-root input.",
	}
	props["C05"] = &PropSpec{ID: "C05",
		Uses: []Use{
			{Rule: "SIB-6", Filter: and(role("shadow"), funcHas("alker"))},
			{Rule: "SIB-3", Filter: and(role("accessor", "fact"), cfgIs("D")), Floors: map[string]int{"accessor": 3}},
			{Rule: "ERR-4", Floors: map[string]int{"callback": 4}},
			{Rule: "PAIR-7", Floors: map[string]int{"yield": 3, "yield-exempt": 2}},
			{Rule: "SIB-4", Filter: funcHas("walkNode", "assemble"), Floors: map[string]int{"traversal": 2}},
			{Rule: "NIL-3", Filter: role("iter")},
			{Rule: "PAIR-4", Filter: role("lazy")},
			{Rule: "C01-SEL", Filter: and(role("path", "assembly-site", "select", "walkup", "last"), cfgIs("D"))},
			{Rule: "GLOB-3", Filter: cfgIs("D")},
			{Rule: "GLOB-1", Filter: and(role("sink"), cfgIs("D"), funcHas("alk"))},
			{Rule: "SIB-5", Filter: and(cfgIs("D"), funcHas("rootGeneratorSimple"))},
			{Rule: "EFF-4", Filter: and(func(o Ob) bool { return o.Role == "encode" }, funcHas("Walk"))},
			{Rule: "ERR-1", Filter: and(scope("lib"), funcHas("alk"))},
		},
		Decides:    "Row/Branch/Name/Level/Path/HasChild read exactly the node facts the printer uses (Row = Branch+space+Name, Name for a root); walkers visit pre-order in child order; the callback's first error is returned as the same value from every level (including the loop over roots) with no further callback reachable; iterators never call yield after a false result or a yielded error unless consumed through iter.Pull2 only; the simple tree is always selected for the iterator form; branches are grown (default encoding forced) before walking; path elements are placed root-first.",
		NotDecided: "that Path elements are single path elements (value-level), exactly-once visiting beyond the traversal template, behaviour under the massive option (excluded by the property).",
	}
	props["C13"] = &PropSpec{ID: "C13",
		Uses: []Use{
			{Rule: "TAB-3", Filter: role("ext")},
			{Rule: "GLOB-1", Floors: map[string]int{"global": 4, "summary": 1}},
			{Rule: "GLOB-3", Floors: map[string]int{"accumulate": 4}},
			{Rule: "PAIR-4", Filter: role("lazy"), Floors: map[string]int{"lazy": 1}},
			{Rule: "CONC-3", Filter: role("operation")},
		},
		Decides:    "no value derived from mutable package-level state (a variable assigned outside init, written through, or handed to a mutating method — counters, caches, pools, maps) reaches a branch condition, an output/filesystem call or an exported result; the per-node branch/path cache is cleared before it is rebuilt on every route, so repeating an operation repeats its result.",
		NotDecided: "concurrent Add on the same tree from several goroutines (unsupported by design), external global configuration (color.NoColor), state kept in objects the caller passes in.",
	}
	props["C15"] = &PropSpec{ID: "C15",
		Uses: []Use{
			{Rule: "TAB-2", Floors: map[string]int{"table": 1, "loop": 1, "split": 1}},
			{Rule: "TAB-1", Filter: role("blank", "parse-always")},
			{Rule: "PARSE-1"},
			{Rule: "GLOB-1", Filter: role("sink", "global-mutable")},
			{Rule: "CONC-6", Filter: role("parser-scope")},
			{Rule: "SIB-5", Filter: func(o Ob) bool { return strings.Contains(o.Construct, "blank lines") || strings.Contains(o.Construct, "classified") }},
		},
		Decides:    "(thin claim) the three bullet symbols are all in the parser's table, all tried (no early break), and the massive-mode splitter consults the same table plus '#'; whitespace-only lines are skipped — not rejected, not turned into nodes — in every line loop.",
		NotDecided: "most of the property: inference of the indentation unit, tab/space choice, heading roots shifting list rows, CRLF and final-newline handling, the order in which bullets are tried against text containing bullet characters — all arithmetic on run-time strings. A pass here says nothing about those.",
	}
	props["C17"] = &PropSpec{ID: "C17",
		Uses: []Use{
			{Rule: "GLOB-1", Filter: cfgIs("W")},
			{Rule: "SIB-2", Floors: map[string]int{"shared": 10, "partition": 1, "reject-set": 1}},
			{Rule: "SIB-3", Filter: or(cfgIs("W"), role("report")), Floors: map[string]int{"row": 2, "report": 3}},
			{Rule: "SIB-4", Filter: cfgIs("W"), Floors: map[string]int{"traversal": 2}},
			{Rule: "PAIR-5", Floors: map[string]int{"count": 2, "colorize": 2}},
			{Rule: "TAB-6", Filter: or(cfgIs("W"), role("tags"))},
			{Rule: "C01-SEL", Filter: cfgIs("W")},
			{Rule: "GLOB-3", Filter: cfgIs("W")},
			{Rule: "ERR-1", Filter: cfgIs("W")},
			{Rule: "ERR-3", Filter: cfgIs("W")},
			{Rule: "PAIR-3", Filter: cfgIs("W")},
			{Rule: "SIB-5", Filter: or(cfgIs("W"), funcHas("rootGeneratorSimple).generateIter"))},
			{Rule: "EFF-4", Filter: or(and(cfgIs("W"), role("validate-call")), role("validate"))},
			{Rule: "NIL-1", Filter: cfgIs("W")},
			{Rule: "PAIR-6", Filter: cfgIs("W")},
		},
		Decides:    "the error origins (constant messages and sentinels) reachable from the variant's Output are exactly the default build's; every same-named function the variant reaches is the same definition compiled into both variants; the variant's baked-in row term composed with its concatenating printer equals the default row term; the dry-run report and summary have the same term (newline placement differs but composes equally) and counters are reset per root and incremented once per node by the shared predicate; JSON tags and copy order agree; the variant's own error, scanner, attach and nil disciplines hold.",
		NotDecided: "equality on colour escape codes (the variant colours names before the branch is baked), TinyGo's runtime and standard library versus Go's, control flow of the variant-only functions beyond what the per-variant rules (scanner, attach, nil, error, factory and row-term rules run on the tinywasm build) decide.",
	}
}
