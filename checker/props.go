package main

func init() {
	props["C14"] = &PropSpec{ID: "C14", Uses: []Use{{Rule: "ERR-1"}, {Rule: "ERR-2"}, {Rule: "ERR-3"}}, Decides: "tbd", NotDecided: "tbd"}
}
