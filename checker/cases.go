package main

// Case evaluation: a value is described as a small set of (conditions → term) alternatives.  Phis,
// selections through struct-valued variables (`f := a; if c { f = b }; use(f.x)`) and small module
// helpers (`formatOf(n)`, `writeLine(w, n)`) are expanded, so a rule states *what* is computed under
// which condition and does not depend on how the selection is spelled.

import (
	"fmt"
	"go/constant"
	"go/token"
	"go/types"
	"sort"
	"strings"

	"golang.org/x/tools/go/ssa"
)

type vcase struct {
	conds map[string]bool // "atom" -> polarity
	term  string
}

type caseEval struct {
	p     *Prog
	t     *termer
	bind  map[ssa.Value]ssa.Value // callee parameter -> caller argument (inlining)
	outer *caseEval
	depth int
}

func newCaseEval(p *Prog, node ssa.Value) *caseEval {
	return &caseEval{p: p, t: &termer{p: p, node: node}}
}

func (e *caseEval) atom(c ssa.Value) string {
	return e.termOf(c)
}

// atomPol canonicalises a condition: x != y under polarity p is x == y under !p.
func (e *caseEval) atomPol(c ssa.Value, pol bool) (string, bool) {
	if b, ok := c.(*ssa.BinOp); ok && b.Op == token.NEQ {
		l, r := orderOperands(e.termOf(b.X), e.termOf(b.Y))
		return "(" + l + "==" + r + ")", !pol
	}
	return e.termOf(c), pol
}

// orderOperands gives the operands of a commutative comparison a canonical order: constants to the right,
// otherwise the shorter term (then the lexicographically smaller) first.
func orderOperands(l, r string) (string, string) {
	isConst := func(s string) bool {
		return s == "nil" || s == "true" || s == "false" || (len(s) > 0 && (s[0] == '"' || s[0] >= '0' && s[0] <= '9' || s[0] == '-'))
	}
	switch {
	case isConst(l) && !isConst(r):
		return r, l
	case isConst(r) && !isConst(l):
		return l, r
	case len(l) > len(r) || (len(l) == len(r) && l > r):
		return r, l
	}
	return l, r
}

// termOf renders a value, resolving inlined parameters in the caller's context.
func (e *caseEval) termOf(v ssa.Value) string {
	cs := e.cases(v, 0)
	if len(cs) == 1 {
		return cs[0].term
	}
	var parts []string
	for _, c := range cs {
		parts = append(parts, condKey(c.conds)+"?"+c.term)
	}
	sort.Strings(parts)
	return "phi{" + strings.Join(parts, ";") + "}"
}

func condKey(m map[string]bool) string {
	var ks []string
	for k, v := range m {
		if v {
			ks = append(ks, k)
		} else {
			ks = append(ks, "!"+k)
		}
	}
	sort.Strings(ks)
	return strings.Join(ks, "&")
}

func mergeConds(a, b map[string]bool) (map[string]bool, bool) {
	out := map[string]bool{}
	for k, v := range a {
		out[k] = v
	}
	for k, v := range b {
		if w, ok := out[k]; ok && w != v {
			return nil, false // contradictory
		}
		out[k] = v
	}
	return out, true
}

func single(term string) []vcase { return []vcase{{conds: map[string]bool{}, term: term}} }

// cases expands v.
func (e *caseEval) cases(v ssa.Value, d int) []vcase {
	if d > 8 {
		return single("…")
	}
	v = stripConv(v)
	if b, ok := e.bind[v]; ok && e.outer != nil {
		return e.outer.cases(b, d+1)
	}
	if e.t.node != nil && sameVar(v, e.t.node) {
		return single("n")
	}
	switch x := v.(type) {
	case *ssa.Phi:
		if inLoop(x) {
			return single("φ")
		}
		var out []vcase
		for _, pc := range e.phiEdges(x) {
			for _, c := range e.cases(pc.val, d+1) {
				if m, ok := mergeConds(pc.conds, c.conds); ok {
					out = append(out, vcase{m, c.term})
				}
			}
		}
		return out
	case *ssa.Field:
		return e.mapCases(e.cases(x.X, d+1), func(s string) string { return fieldName(x.X.Type(), x.Field) + "(" + s + ")" })
	case *ssa.UnOp:
		if x.Op == token.MUL {
			switch a := x.X.(type) {
			case *ssa.FieldAddr:
				if al, ok := a.X.(*ssa.Alloc); ok {
					// field of a local struct variable that is assigned as a whole on several paths
					if cs := e.allocCases(al, x, d); cs != nil {
						return e.mapCases(cs, func(s string) string { return fieldName(a.X.Type(), a.Field) + "(" + s + ")" })
					}
					if st := cellStores(al); len(st) == 1 {
						return e.mapCases(e.cases(st[0].Val, d+1), func(s string) string { return fieldName(a.X.Type(), a.Field) + "(" + s + ")" })
					}
				}
				return e.mapCases(e.cases(a.X, d+1), func(s string) string { return fieldName(a.X.Type(), a.Field) + "(" + s + ")" })
			case *ssa.IndexAddr:
				if _, isConst := a.Index.(*ssa.Const); !isConst {
					if involvesPhi(a.Index, 0) {
						return e.mapCases(e.cases(a.X, d+1), func(s string) string { return "at(" + s + ",*)" })
					}
					return e.cross([][]vcase{e.cases(a.X, d+1), e.cases(a.Index, d+1)}, func(ts []string) string { return "at(" + ts[0] + "," + ts[1] + ")" })
				}
			case *ssa.Alloc, *ssa.FreeVar:
				if r := resolve(x); r != ssa.Value(x) {
					return e.cases(r, d+1)
				}
				// a local struct variable assigned on several paths: treat its stores as alternatives
				if al, ok := a.(*ssa.Alloc); ok {
					if cs := e.allocCases(al, x, d); cs != nil {
						return cs
					}
				}
			}
		}
		if x.Op == token.NOT {
			return e.mapCases(e.cases(x.X, d+1), func(s string) string { return "!" + s })
		}
	case *ssa.BinOp:
		if x.Op == token.ADD {
			if b, ok := x.Type().Underlying().(*types.Basic); ok && b.Info()&types.IsString != 0 {
				var parts [][]vcase
				var flat func(v ssa.Value)
				flat = func(v ssa.Value) {
					if bb, ok := stripConv(v).(*ssa.BinOp); ok && bb.Op == token.ADD {
						flat(bb.X)
						flat(bb.Y)
						return
					}
					parts = append(parts, e.cases(v, d+1))
				}
				flat(x)
				return e.cross(parts, func(ts []string) string { return "cat(" + strings.Join(mergeLiterals(ts), ",") + ")" })
			}
		}
		l, r := e.cases(x.X, d+1), e.cases(x.Y, d+1)
		return e.cross([][]vcase{l, r}, func(ts []string) string {
			a, b := ts[0], ts[1]
			if x.Op == token.EQL || x.Op == token.NEQ {
				a, b = orderOperands(a, b)
			}
			return "(" + a + x.Op.String() + b + ")"
		})
	case *ssa.Slice:
		// buf[:0] — an emptied scratch buffer: the content starts from nothing
		if x.High != nil {
			if k, isK := constInt(x.High); isK && k == 0 {
				return single(`""`)
			}
		}
	case *ssa.Call:
		com := x.Common()
		// append(buf, s...) / append(buf, 'c') on a byte slice is concatenation
		if b, isB := com.Value.(*ssa.Builtin); isB && b.Name() == "append" && len(com.Args) == 2 && isByteSlice(x.Type()) {
			var parts [][]vcase
			parts = append(parts, e.cases(com.Args[0], d+1))
			if elems, ok := variadicElems(com.Args[1]); ok {
				lit := ""
				allConst := true
				for _, el := range elems {
					if k, isK := constInt(stripConv(el)); isK && k >= 0 && k < 0x110000 {
						lit += string(rune(k))
					} else {
						allConst = false
					}
				}
				if allConst {
					parts = append(parts, single(fmt.Sprintf("%q", lit)))
				} else {
					parts = append(parts, single("…"))
				}
			} else {
				parts = append(parts, e.cases(com.Args[1], d+1))
			}
			return e.cross(parts, func(ts []string) string {
				var flat []string
				for _, t := range ts {
					if t == `""` {
						continue
					}
					if strings.HasPrefix(t, "cat(") && strings.HasSuffix(t, ")") && balancedTo(t, 3) == len(t)-1 {
						flat = append(flat, splitTopLevel(t[4:len(t)-1])...)
					} else {
						flat = append(flat, t)
					}
				}
				if len(flat) == 1 {
					return flat[0]
				}
				return "cat(" + strings.Join(mergeLiterals(flat), ",") + ")"
			})
		}
		if f := com.StaticCallee(); f != nil && e.p.InModule(f) && e.depth < 2 && f.Blocks != nil && len(f.Blocks) <= 6 && !callsItself(f) && returnsValue(f) && inlinable(f) {
			if cs := e.inline(x, f, d); cs != nil {
				return cs
			}
		}
		// generic call: name(args)
		name := ""
		switch {
		case com.StaticCallee() != nil:
			f := com.StaticCallee()
			name = fname(f)
			if !e.p.InModule(f) {
				name = pkgOfFunc(f).Pkg.Name() + "." + fname(f)
			}
			if f.String() == "fmt.Sprintf" {
				if s, ok := e.sprintfCases(x, d); ok {
					return s
				}
			}
		case com.IsInvoke():
			name = methodName(com.Method)
		default:
			if b, ok := com.Value.(*ssa.Builtin); ok {
				name = b.Name()
			} else {
				name = "dyn:" + describeValue(com.Value)
			}
		}
		var parts [][]vcase
		for _, a := range callArgs(com) {
			if elems, ok := variadicElems(a); ok && len(elems) > 0 {
				for _, el := range elems {
					parts = append(parts, e.cases(el, d+1))
				}
				continue
			}
			parts = append(parts, e.cases(a, d+1))
		}
		return e.cross(parts, func(ts []string) string { return name + "(" + strings.Join(ts, ",") + ")" })
	}
	return single(e.t.term(v, 0))
}

func callsItself(f *ssa.Function) bool {
	rec := false
	allInstrs(f, func(in ssa.Instruction) {
		if c, ok := in.(ssa.CallInstruction); ok && c.Common().StaticCallee() == f {
			rec = true
		}
	})
	return rec
}

func returnsValue(f *ssa.Function) bool { return f.Signature.Results().Len() == 1 }

func mergeLiterals(ts []string) []string {
	var out []string
	for _, s := range ts {
		// flatten nested cat(...), drop empty string literals
		if strings.HasPrefix(s, "cat(") && strings.HasSuffix(s, ")") && balancedTo(s, 3) == len(s)-1 {
			out = append(out, mergeLiterals(splitTopLevel(s[4:len(s)-1]))...)
			continue
		}
		if s == `""` {
			continue
		}
		out = append(out, s)
	}
	return out
}

// balancedTo: index of the parenthesis closing the one at position open (strings in double quotes skipped); -1 if none.
func balancedTo(s string, open int) int {
	depth := 0
	inStr := false
	for i := open; i < len(s); i++ {
		c := s[i]
		if inStr {
			if c == '\\' {
				i++
			} else if c == '"' {
				inStr = false
			}
			continue
		}
		switch c {
		case '"':
			inStr = true
		case '(':
			depth++
		case ')':
			depth--
			if depth == 0 {
				return i
			}
		}
	}
	return -1
}

// splitTopLevel splits at commas that are outside parentheses and string literals.
func splitTopLevel(s string) []string {
	var out []string
	depth, start := 0, 0
	inStr := false
	for i := 0; i < len(s); i++ {
		c := s[i]
		if inStr {
			if c == '\\' {
				i++
			} else if c == '"' {
				inStr = false
			}
			continue
		}
		switch c {
		case '"':
			inStr = true
		case '(':
			depth++
		case ')':
			depth--
		case ',':
			if depth == 0 {
				out = append(out, s[start:i])
				start = i + 1
			}
		}
	}
	return append(out, s[start:])
}

func (e *caseEval) mapCases(cs []vcase, f func(string) string) []vcase {
	out := make([]vcase, len(cs))
	for i, c := range cs {
		out[i] = vcase{c.conds, f(c.term)}
	}
	return out
}

func (e *caseEval) cross(parts [][]vcase, f func([]string) string) []vcase {
	acc := []struct {
		conds map[string]bool
		ts    []string
	}{{map[string]bool{}, nil}}
	for _, p := range parts {
		var next []struct {
			conds map[string]bool
			ts    []string
		}
		for _, a := range acc {
			for _, c := range p {
				if m, ok := mergeConds(a.conds, c.conds); ok {
					next = append(next, struct {
						conds map[string]bool
						ts    []string
					}{m, append(append([]string{}, a.ts...), c.term)})
				}
			}
		}
		acc = next
		if len(acc) > 64 {
			acc = acc[:64]
		}
	}
	out := make([]vcase, len(acc))
	for i, a := range acc {
		out[i] = vcase{a.conds, f(a.ts)}
	}
	return out
}

type phiEdge struct {
	conds map[string]bool
	val   ssa.Value
}

// phiEdges: per incoming edge, the branch conditions that distinguish it from the other edges.
func (e *caseEval) phiEdges(ph *ssa.Phi) []phiEdge {
	all := make([]map[string]bool, len(ph.Edges))
	for i := range ph.Edges {
		pred := ph.Block().Preds[i]
		m := map[string]bool{}
		for _, g := range guardsOf(pred) {
			c, pol := flattenCond(g.Cond, g.Pol)
			if isRangeLoopCond(c) || isIndexLoopCond(c) {
				continue
			}
			a, ap := e.atomPol(c, pol)
			m[a] = ap
		}
		if iff, ok := pred.Instrs[len(pred.Instrs)-1].(*ssa.If); ok && pred.Succs[0] != pred.Succs[1] {
			c, pol := flattenCond(iff.Cond, pred.Succs[0] == ph.Block())
			a, ap := e.atomPol(c, pol)
			m[a] = ap
		}
		all[i] = m
	}
	out := make([]phiEdge, len(ph.Edges))
	for i, v := range ph.Edges {
		m := map[string]bool{}
		for k, pol := range all[i] {
			common := true
			for j := range all {
				if p2, ok := all[j][k]; !ok || p2 != pol {
					common = false
				}
			}
			if !common {
				m[k] = pol
			}
		}
		out[i] = phiEdge{m, v}
	}
	return out
}

// allocCases: a non-escaping local (typically a struct) that is stored on several paths and loaded
// at 'load': alternatives = reaching stores with the guards of their blocks.
func (e *caseEval) allocCases(al *ssa.Alloc, load *ssa.UnOp, d int) []vcase {
	var stores []*ssa.Store
	for _, r := range *al.Referrers() {
		switch x := r.(type) {
		case *ssa.Store:
			if x.Addr == ssa.Value(al) {
				stores = append(stores, x)
			}
		case *ssa.UnOp, *ssa.DebugRef, *ssa.FieldAddr:
		default:
			return nil
		}
	}
	if len(stores) < 2 || len(stores) > 3 {
		return nil
	}
	// the store whose block dominates the others is the default; the others override it under their guards
	var out []vcase
	var dflt *ssa.Store
	for _, s := range stores {
		isDefault := true
		for _, o := range stores {
			if o != s && !s.Block().Dominates(o.Block()) {
				isDefault = false
			}
		}
		if isDefault {
			dflt = s
		}
	}
	if dflt == nil {
		return nil
	}
	over := map[string]bool{}
	for _, s := range stores {
		if s == dflt {
			continue
		}
		conds := map[string]bool{}
		for _, g := range guardsOf(s.Block()) {
			if g.If.Block().Dominates(dflt.Block()) && g.If.Block() != dflt.Block() {
				continue // guard shared with the default store
			}
			c, pol := flattenCond(g.Cond, g.Pol)
			a, ap := e.atomPol(c, pol)
			conds[a] = ap
		}
		if len(conds) != 1 {
			return nil
		}
		for k, v := range conds {
			over[k] = v
		}
		for _, c := range e.cases(s.Val, d+1) {
			if m, ok := mergeConds(conds, c.conds); ok {
				out = append(out, vcase{m, c.term})
			}
		}
	}
	neg := map[string]bool{}
	for k, v := range over {
		neg[k] = !v
	}
	if len(neg) != 1 {
		return nil
	}
	for _, c := range e.cases(dflt.Val, d+1) {
		if m, ok := mergeConds(neg, c.conds); ok {
			out = append(out, vcase{m, c.term})
		}
	}
	return out
}

// inline: the alternatives of a call to a small module function = its returns under their guards.
func (e *caseEval) inline(call *ssa.Call, f *ssa.Function, d int) []vcase {
	sub := &caseEval{p: e.p, t: &termer{p: e.p, node: nil}, bind: map[ssa.Value]ssa.Value{}, outer: e, depth: e.depth + 1}
	args := callArgs(call.Common())
	for i, prm := range f.Params {
		if i < len(args) {
			sub.bind[prm] = args[i]
		}
	}
	var out []vcase
	n := 0
	allInstrs(f, func(in ssa.Instruction) {
		r, ok := in.(*ssa.Return)
		if !ok {
			return
		}
		n++
		conds := map[string]bool{}
		for _, g := range guardsOf(r.Block()) {
			c, pol := flattenCond(g.Cond, g.Pol)
			if isRangeLoopCond(c) || isIndexLoopCond(c) {
				continue
			}
			a, ap := sub.atomPol(c, pol)
			conds[a] = ap
		}
		for _, c := range sub.cases(rr(r)[0], d+1) {
			if m, ok := mergeConds(conds, c.conds); ok {
				out = append(out, vcase{m, c.term})
			}
		}
	})
	if n == 0 || n > 4 {
		return nil
	}
	return out
}

func (e *caseEval) sprintfCases(c *ssa.Call, d int) ([]vcase, bool) {
	format, ok := constString(c.Common().Args[0])
	if !ok {
		return nil, false
	}
	elems, ok := variadicElems(c.Common().Args[1])
	if !ok {
		return nil, false
	}
	var parts [][]vcase
	lit := ""
	ai := 0
	for i := 0; i < len(format); i++ {
		if format[i] != '%' || i+1 >= len(format) {
			lit += string(format[i])
			continue
		}
		i++
		switch format[i] {
		case '%':
			lit += "%"
		case 's', 'd', 'v':
			if lit != "" {
				parts = append(parts, single(fmt.Sprintf("%q", lit)))
				lit = ""
			}
			if ai >= len(elems) {
				return nil, false
			}
			parts = append(parts, e.cases(elems[ai], d+1))
			ai++
		default:
			return nil, false
		}
	}
	if lit != "" {
		parts = append(parts, single(fmt.Sprintf("%q", lit)))
	}
	return e.cross(parts, func(ts []string) string { return "cat(" + strings.Join(ts, ",") + ")" }), true
}

// byAtom groups the alternatives of a value by the polarity of one atom (e.g. "isRoot(n)"); cases
// that do not mention the atom go under "*".  Terms are normalised by dropping address-of marks.
func byAtom(cs []vcase, atom string) map[string][]string {
	out := map[string][]string{}
	for _, c := range cs {
		k := "*"
		if v, ok := c.conds[atom]; ok {
			k = fmt.Sprint(v)
		}
		t := strings.ReplaceAll(c.term, "&", "")
		found := false
		for _, x := range out[k] {
			if x == t {
				found = true
			}
		}
		if !found {
			out[k] = append(out[k], t)
		}
	}
	for k := range out {
		sort.Strings(out[k])
	}
	return out
}


// guardConds: the conditions under which a block executes, as canonical atoms.
func (e *caseEval) guardConds(b *ssa.BasicBlock) map[string]bool {
	m := map[string]bool{}
	for _, g := range guardsOf(b) {
		c, pol := flattenCond(g.Cond, g.Pol)
		if isRangeLoopCond(c) || isIndexLoopCond(c) {
			continue
		}
		a, ap := e.atomPol(c, pol)
		m[a] = ap
	}
	return m
}

// argCases: the alternatives of a list of values taken together (joined with ","), under extra conditions.
func (e *caseEval) argCases(vals []ssa.Value, extra map[string]bool) []vcase {
	var parts [][]vcase
	for _, v := range vals {
		parts = append(parts, e.cases(v, 0))
	}
	cs := e.cross(parts, func(ts []string) string { return strings.Join(ts, ",") })
	var out []vcase
	for _, c := range cs {
		if m, ok := mergeConds(extra, c.conds); ok {
			out = append(out, vcase{m, c.term})
		}
	}
	return out
}


// inlinable: helpers are expanded; the vocabulary the rules are stated in is not (node facts such as
// branch(), path(), isRoot(), isLastOfHierarchy(), hasChild(); the colouriser; constructors).
func inlinable(f *ssa.Function) bool {
	if recvTypeName(f) == "Node" || recvTypeName(f) == "WalkerNode" {
		// the node vocabulary the terms are stated in is kept opaque; other (new) node helpers are expanded
		switch fname(f) {
		case "branch", "path", "isRoot", "isLastOfHierarchy", "hasChild", "isDirectlyUnder", "findChildByText", "validatePath",
			"Name", "Branch", "Row", "Level", "Path", "HasChild", "Add", "addChild", "setParent", "setBranch", "setPath", "clean":
			return false
		}
		if recvTypeName(f) == "WalkerNode" && (f.Object() == nil || f.Object().Exported()) {
			return false
		}
	}
	switch fname(f) {
	case "colorize", "summary", "spreadBranch", "isFile", "current", "next":
		return false
	}
	if f.Parent() == nil && strings.HasPrefix(fname(f), "new") {
		return false
	}
	return true
}

// involvesPhi: the value is (derived by arithmetic from) a loop-carried variable.
func involvesPhi(v ssa.Value, d int) bool {
	if d > 4 {
		return true
	}
	switch x := stripConv(v).(type) {
	case *ssa.Phi:
		return true
	case *ssa.BinOp:
		return involvesPhi(x.X, d+1) || involvesPhi(x.Y, d+1)
	case *ssa.UnOp:
		if x.Op == token.MUL {
			if r := resolve(x); r != ssa.Value(x) {
				return involvesPhi(r, d+1)
			}
			if _, ok := x.X.(*ssa.Alloc); ok {
				return true // a local assigned more than once
			}
		}
	}
	return false
}

// ---------------------------------------------------------------------------------------------
// write sequences: what a function writes, piece by piece, to one sink before it recurses into the children

// sinkWrite: the string-valued operands an instruction writes to a sink (an io.Writer handed in, a strings.Builder /
// bytes.Buffer / bufio.Writer), in order; nil if the instruction is not such a write.  Module helpers whose string
// parameter flows into a sink write (writeOutput(w, s)) count as writes of their argument.
func sinkWrite(p *Prog, in ssa.Instruction, depth int) []ssa.Value {
	c, ok := in.(*ssa.Call)
	if !ok {
		return nil
	}
	com := c.Common()
	name := calleeFullName(com)
	switch {
	case name == "fmt.Fprint" || name == "fmt.Fprintln":
		if len(com.Args) == 2 {
			if els, ok := variadicElems(com.Args[1]); ok {
				var out []ssa.Value
				for _, e := range els {
					out = append(out, stripIface(e))
				}
				if name == "fmt.Fprintln" {
					out = append(out, ssa.NewConst(constantString("\n"), types.Typ[types.String]))
				}
				return out
			}
		}
	case name == "io.WriteString":
		if len(com.Args) == 2 {
			return []ssa.Value{com.Args[1]}
		}
	case strings.HasSuffix(name, ").WriteString") && (strings.HasPrefix(name, "(*strings.Builder)") || strings.HasPrefix(name, "(*bytes.Buffer)") || strings.HasPrefix(name, "(*bufio.Writer)")):
		return []ssa.Value{com.Args[1]}
	case strings.HasSuffix(name, ").WriteByte") || strings.HasSuffix(name, ").WriteRune"):
		if strings.HasPrefix(name, "(*strings.Builder)") || strings.HasPrefix(name, "(*bytes.Buffer)") || strings.HasPrefix(name, "(*bufio.Writer)") {
			if k, ok := constInt(stripConv(com.Args[1])); ok && k > 0 && k < 128 {
				return []ssa.Value{ssa.NewConst(constantString(string(rune(k))), types.Typ[types.String])}
			}
		}
	case com.IsInvoke() && methodName(com.Method) == "Write" && len(com.Args) == 1:
		// w.Write([]byte(s))
		if cv, ok := com.Args[0].(*ssa.Convert); ok {
			if b, ok := cv.X.Type().Underlying().(*types.Basic); ok && b.Info()&types.IsString != 0 {
				return []ssa.Value{cv.X}
			}
		}
	}
	if f := com.StaticCallee(); f != nil && p.InModule(f) && depth < 2 && f.Blocks != nil && !callsItself(f) {
		// a helper that writes one of its string parameters
		for i, prm := range f.Params {
			if b, ok := prm.Type().Underlying().(*types.Basic); !ok || b.Info()&types.IsString == 0 {
				continue
			}
			writes := false
			allInstrs(f, func(in2 ssa.Instruction) {
				for _, v := range sinkWrite(p, in2, depth+1) {
					if sameVar(v, prm) {
						writes = true
					}
				}
			})
			if writes && i < len(com.Args) {
				return []ssa.Value{com.Args[i]}
			}
		}
	}
	return nil
}

func stripIface(v ssa.Value) ssa.Value {
	if mi, ok := v.(*ssa.MakeInterface); ok {
		return mi.X
	}
	return v
}

// writeSequences enumerates the acyclic paths of fn from its entry up to (not into) the first loop and returns, per
// path, the canonical conditions and the concatenation of what is written to sinks along it.  ok is false when the
// function has no such write.
func writeSequences(p *Prog, fn *ssa.Function, node ssa.Value) ([]vcase, bool) {
	return writeSequencesFrom(p, fn, node, nil)
}

// writeSequencesFrom: with a loop header given, the sequences of one iteration of that loop (from the header's
// in-loop successor back to the header); otherwise from the function entry up to the first loop.
func writeSequencesFrom(p *Prog, fn *ssa.Function, node ssa.Value, header *ssa.BasicBlock) ([]vcase, bool) {
	ev := newCaseEval(p, node)
	var out []vcase
	any := false
	loopHeads := map[*ssa.BasicBlock]bool{}
	for _, b := range fn.Blocks {
		for _, s := range b.Succs {
			if s.Dominates(b) {
				loopHeads[s] = true
			}
		}
	}
	type frame struct {
		conds map[string]bool
		parts [][]vcase
	}
	var walk func(b *ssa.BasicBlock, fr frame, depth int)
	emit := func(fr frame) {
		if len(fr.parts) == 0 {
			return
		}
		cs := ev.cross(fr.parts, func(ts []string) string { return "cat(" + strings.Join(mergeLiterals(ts), ",") + ")" })
		for _, c := range cs {
			if m, ok := mergeConds(fr.conds, c.conds); ok {
				out = append(out, vcase{m, c.term})
			}
		}
	}
	walk = func(b *ssa.BasicBlock, fr frame, depth int) {
		if depth > 24 || len(out) > 64 {
			return
		}
		if loopHeads[b] {
			emit(fr)
			return
		}
		if header != nil && !header.Dominates(b) {
			emit(fr) // left the loop
			return
		}
		for _, in := range b.Instrs {
			if vs := sinkWrite(p, in, 0); vs != nil {
				any = true
				for _, v := range vs {
					fr.parts = append(append([][]vcase{}, fr.parts...), ev.cases(v, 0))
				}
				continue
			}
			// a module printer that is handed a sink (builder / writer) and a node: "print(node)"
			if c, ok := in.(*ssa.Call); ok && c.Common().StaticCallee() != nil && p.InModule(c.Common().StaticCallee()) && c.Common().StaticCallee() != fn {
				hasSink, nodeTerm := false, ""
				for _, a := range c.Common().Args {
					if isSinkType(a.Type()) {
						hasSink = true
					}
					if isNodePtr(a.Type()) {
						nodeTerm = ev.termOf(a)
					}
				}
				if hasSink && nodeTerm != "" && callsItself(c.Common().StaticCallee()) {
					any = true
					fr.parts = append(append([][]vcase{}, fr.parts...), single("print("+nodeTerm+")"))
				}
			}
		}
		last := b.Instrs[len(b.Instrs)-1]
		switch x := last.(type) {
		case *ssa.If:
			c, pol := flattenCond(x.Cond, true)
			for i, s := range b.Succs {
				nf := frame{conds: map[string]bool{}, parts: fr.parts}
				for k, v := range fr.conds {
					nf.conds[k] = v
				}
				a, ap := ev.atomPol(c, pol == (i == 0))
				if old, has := nf.conds[a]; has && old != ap {
					continue
				}
				nf.conds[a] = ap
				walk(s, nf, depth+1)
			}
		case *ssa.Return:
			emit(fr)
		default:
			for _, s := range b.Succs {
				walk(s, fr, depth+1)
			}
		}
	}
	if header != nil {
		for _, s := range header.Succs {
			// the in-loop successor: the one from which the header can be reached again
			if canReach(s, header) {
				walk(s, frame{conds: map[string]bool{}}, 0)
			}
		}
		return out, any
	}
	walk(fn.Blocks[0], frame{conds: map[string]bool{}}, 0)
	return out, any
}

func constantString(s string) constant.Value { return constant.MakeString(s) }

// isSinkType: *strings.Builder, *bytes.Buffer, *bufio.Writer or io.Writer.
func isSinkType(t types.Type) bool {
	if isNamed(t, "io", "Writer") {
		return true
	}
	if pt, ok := t.Underlying().(*types.Pointer); ok {
		return isNamed(pt.Elem(), "strings", "Builder") || isNamed(pt.Elem(), "bytes", "Buffer") || isNamed(pt.Elem(), "bufio", "Writer")
	}
	return false
}

func isByteSlice(t types.Type) bool {
	sl, ok := t.Underlying().(*types.Slice)
	if !ok {
		return false
	}
	b, ok := sl.Elem().Underlying().(*types.Basic)
	return ok && b.Kind() == types.Byte
}
