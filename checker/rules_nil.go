package main

// NIL — producer/consumer nil contracts for *Node hand-overs, configuration pairs, and the
// index / type-assertion / division obligations the compiler could not discharge.

import (
	"fmt"
	"go/token"
	"go/types"
	"sort"
	"strings"

	"golang.org/x/tools/go/ssa"
)

func init() {
	register(&Rule{ID: "NIL-1", Doc: "hand-over contract: at every send on chan *Node, yield(*Node, error) and return (*Node, error) the node is proven non-nil (N) or the error is proven non-nil (E); otherwise every consumer of that hand-over class must test the node before dereferencing it (assume-guarantee over the classes chan / iterator / callers)", Run: ruleNIL1})
	register(&Rule{ID: "NIL-3", Doc: "configuration pairs: a store of true to config.massive is accompanied by a store of a proven non-nil context; a call of tree.walkIterProgrammably is dominated by cfg.massive=false before initializeTree(cfg) (the pipeline tree returns a nil iterator)", Run: ruleNIL3})
	register(&Rule{ID: "NIL-4", Doc: "every bounds check the compiler could not prove (go build -d=ssa/check_bce), every non-comma-ok type assertion and every integer division in module code is discharged by a recognised guard or a named data-structure invariant", Run: ruleNIL4})
}

// ---------------------------------------------------------------------------------------------
// nil-ness proofs

type nilCtx struct {
	p          *Prog
	nonNilRes  map[*ssa.Function]map[int]bool // function result index proven non-nil
	nilKeeping map[*ssa.Function]int          // single-result wrapper: result is non-nil whenever parameter i is (nil only for a nil argument)
	contract   map[string]bool                // link class -> all producers N or E (assumption being checked)
	derefParam map[*ssa.Function]map[int]bool
	nonNilPrm  map[*ssa.Parameter]bool // parameter proven non-nil at every module call site
	nilRetImp  map[*ssa.Function]map[int]bool // f returns a nil error only where param i is non-nil
}

func newNilCtx(p *Prog) *nilCtx {
	c := &nilCtx{p: p, nonNilRes: map[*ssa.Function]map[int]bool{}, contract: map[string]bool{}, derefParam: map[*ssa.Function]map[int]bool{}}
	c.nonNilPrm = map[*ssa.Parameter]bool{}
	c.nilRetImp = map[*ssa.Function]map[int]bool{}
	c.nilKeeping = map[*ssa.Function]int{}
	c.computeNonNilResults()
	c.computeNilKeeping()
	c.computeNilRetImplies()
	c.computeNonNilParams()
	c.computeDerefParams()
	return c
}

func isNilable(t types.Type) bool {
	switch t.Underlying().(type) {
	case *types.Pointer, *types.Map, *types.Slice, *types.Chan, *types.Interface, *types.Signature:
		return true
	}
	return false
}

func (c *nilCtx) computeNonNilResults() {
	fns := append([]*ssa.Function{}, c.p.ModFuncs...)
	for _, fn := range fns {
		res := fn.Signature.Results()
		m := map[int]bool{}
		for i := 0; i < res.Len(); i++ {
			if _, ok := res.At(i).Type().Underlying().(*types.Pointer); ok {
				m[i] = true // optimistic
			}
			if _, ok := res.At(i).Type().Underlying().(*types.Interface); ok {
				m[i] = true // an error constructor (every return hands back a non-nil error)
			}
		}
		c.nonNilRes[fn] = m
	}
	for changed := true; changed; {
		changed = false
		for _, fn := range fns {
			for i, ok := range c.nonNilRes[fn] {
				if !ok {
					continue
				}
				good := true
				n := 0
				allInstrs(fn, func(in ssa.Instruction) {
					r, isRet := in.(*ssa.Return)
					if !isRet || i >= len(rr(r)) {
						return
					}
					n++
					if !c.nonNil(rr(r)[i], r, 0) {
						good = false
					}
				})
				if !good || n == 0 {
					c.nonNilRes[fn][i] = false
					changed = true
				}
			}
		}
	}
}

// nonNil: is v proven non-nil at instruction 'at'?
func (c *nilCtx) nonNil(v ssa.Value, at ssa.Instruction, depth int) bool {
	if depth > 8 {
		return false
	}
	if guardedNonNil(v, at) {
		return true
	}
	if c.validatedByCall(v, at) {
		return true
	}
	if r := resolve(v); r != v {
		if st := singleStoreOf(v); st != nil {
			if c.nonNil(r, st, depth+1) {
				return true
			}
		} else if c.nonNil(r, at, depth+1) {
			return true
		}
	}
	switch x := v.(type) {
	case *ssa.Parameter:
		return c.nonNilPrm[x]
	case *ssa.Alloc, *ssa.MakeClosure, *ssa.Function, *ssa.Global, *ssa.MakeMap, *ssa.MakeChan, *ssa.MakeSlice, *ssa.FieldAddr, *ssa.IndexAddr:
		return true
	case *ssa.MakeInterface:
		// an interface holding a typed value is a non-nil interface
		return true
	case *ssa.ChangeType:
		return c.nonNil(x.X, at, depth+1)
	case *ssa.ChangeInterface:
		return c.nonNil(x.X, at, depth+1)
	case *ssa.Const:
		return x.Value != nil
	case *ssa.Call:
		if f := x.Common().StaticCallee(); f != nil {
			if c.nonNilRes[f][0] && f.Signature.Results().Len() == 1 {
				return true
			}
			if i, ok := c.nilKeeping[f]; ok && i < len(x.Common().Args) && c.nonNil(x.Common().Args[i], at, depth+1) {
				return true // wrap(err): non-nil for a non-nil argument
			}
			switch f.String() {
			case "errors.New", "fmt.Errorf", "context.Background", "context.TODO":
				return true
			}
		}
	case *ssa.Extract:
		if call, ok := x.Tuple.(*ssa.Call); ok {
			if f := call.Common().StaticCallee(); f != nil && c.nonNilRes[f][x.Index] {
				return true
			}
		}
		// contract-based: a node received from a hand-over class whose producers all guarantee
		// "node non-nil or error non-nil", at a point where the paired error is known nil
		if cls, errv := c.receivedFrom(x); cls != "" && c.contract[cls] {
			if errv == nil || guardedNil(errv, at) {
				return true
			}
		}
	case *ssa.UnOp:
		if x.Op == token.ARROW {
			if cls, _ := c.receivedFrom(x); cls != "" && c.contract[cls] {
				return true
			}
		}
		if x.Op == token.MUL {
			switch a := x.X.(type) {
			case *ssa.Alloc, *ssa.FreeVar:
				if c.cellNonNilAt(a, at, map[*ssa.BasicBlock]bool{}) {
					return true
				}
			case *ssa.Global:
				// package-level error sentinels assigned once in init
				if c.globalNonNil(a) {
					return true
				}
			}
		}
	case *ssa.Phi:
		for i, e := range x.Edges {
			pred := x.Block().Preds[i]
			last := pred.Instrs[len(pred.Instrs)-1]
			if edgeGuardNonNil(pred, x.Block(), e) {
				continue
			}
			if !c.nonNil(e, last, depth+1) {
				return false
			}
		}
		return true
	}
	return false
}

// edgeGuardNonNil: pred ends with `if e != nil` and the edge to succ is the non-nil side.
func edgeGuardNonNil(pred, succ *ssa.BasicBlock, e ssa.Value) bool {
	iff, ok := pred.Instrs[len(pred.Instrs)-1].(*ssa.If)
	if !ok || pred.Succs[0] == pred.Succs[1] {
		return false
	}
	pol := pred.Succs[0] == succ
	tv, nonNil, ok := nilTest(iff.Cond, pol)
	return ok && nonNil && stripConv(tv) == stripConv(e)
}

func (c *nilCtx) globalNonNil(g *ssa.Global) bool {
	stores := 0
	ok := true
	for _, fn := range c.p.ModFuncs {
		allInstrs(fn, func(in ssa.Instruction) {
			st, isSt := in.(*ssa.Store)
			if !isSt || st.Addr != ssa.Value(g) {
				return
			}
			stores++
			if fname(fn) != "init" || !c.nonNil(st.Val, st, 0) {
				ok = false
			}
		})
	}
	if g.Pkg != nil && !strings.HasPrefix(g.Pkg.Pkg.Path(), modulePath) {
		// exported sentinels of other packages (io.EOF, fs.ErrNotExist …)
		return strings.HasPrefix(g.Name(), "Err") || g.Name() == "EOF"
	}
	return ok && stores == 1
}

// cellNonNilAt: on every path reaching 'at', the last store to the variable stored a non-nil value
// or a nil test on the variable guards the path.
func (c *nilCtx) cellNonNilAt(cell ssa.Value, at ssa.Instruction, seen map[*ssa.BasicBlock]bool) bool {
	key := cellKey(cell)
	var scan func(b *ssa.BasicBlock, from int) bool
	scan = func(b *ssa.BasicBlock, from int) bool {
		for i := from; i >= 0; i-- {
			if st, ok := b.Instrs[i].(*ssa.Store); ok && cellKey(st.Addr) == key {
				return c.nonNil(st.Val, st, 1)
			}
			if ci, ok := b.Instrs[i].(ssa.CallInstruction); ok {
				// a call to a closure sharing the variable could assign it; be conservative for FreeVar cells
				if _, isFree := cell.(*ssa.FreeVar); isFree && !isBuiltinOrExternal(c.p, ci) {
					return false
				}
			}
		}
		if len(b.Preds) == 0 {
			return false // zero value / unknown on entry
		}
		for _, pr := range b.Preds {
			// edge guard on a load of the same variable
			if iff, ok := pr.Instrs[len(pr.Instrs)-1].(*ssa.If); ok && pr.Succs[0] != pr.Succs[1] {
				pol := pr.Succs[0] == b
				if tv, nonNil, ok := nilTest(iff.Cond, pol); ok && nonNil {
					if la, isLoad := isLoad(stripConv(tv)); isLoad && cellKey(la) == key {
						// no store between that load and the branch
						clean := true
						ld := stripConv(tv).(*ssa.UnOp)
						if ld.Block() == pr {
							for j := instrIndex(ld); j < len(pr.Instrs); j++ {
								if st, ok := pr.Instrs[j].(*ssa.Store); ok && cellKey(st.Addr) == key {
									clean = false
								}
							}
						} else {
							clean = false
						}
						if clean {
							continue
						}
					}
				}
			}
			if seen[pr] {
				continue // loop: coinductive
			}
			seen[pr] = true
			if !scan(pr, len(pr.Instrs)-1) {
				return false
			}
		}
		return true
	}
	return scan(at.Block(), instrIndex(at)-1)
}

func isBuiltinOrExternal(p *Prog, ci ssa.CallInstruction) bool {
	if _, ok := ci.Common().Value.(*ssa.Builtin); ok {
		return true
	}
	if f := ci.Common().StaticCallee(); f != nil {
		return !p.InModule(f) || f.Parent() == nil
	}
	return ci.Common().IsInvoke()
}

// receivedFrom: if v is a *Node obtained from a hand-over class, return the class and the paired error.
func (c *nilCtx) receivedFrom(v ssa.Value) (string, ssa.Value) {
	switch x := v.(type) {
	case *ssa.UnOp:
		if x.Op == token.ARROW && !x.CommaOk {
			if ch, ok := x.X.Type().Underlying().(*types.Chan); ok && isNodePtr(ch.Elem()) {
				return "chan", nil
			}
		}
	case *ssa.Extract:
		switch t := x.Tuple.(type) {
		case *ssa.UnOp:
			if t.Op == token.ARROW && t.CommaOk && x.Index == 0 {
				if ch, ok := t.X.Type().Underlying().(*types.Chan); ok && isNodePtr(ch.Elem()) {
					return "chan", nil
				}
			}
		case *ssa.Select:
			ri := 0
			for _, st := range t.States {
				if st.Dir != types.RecvOnly {
					continue
				}
				if x.Index == 2+ri {
					if ch, ok := st.Chan.Type().Underlying().(*types.Chan); ok && isNodePtr(ch.Elem()) {
						return "chan", nil
					}
				}
				ri++
			}
		case *ssa.Call:
			if !isNodePtr(x.Type()) {
				return "", nil
			}
			com := t.Common()
			// next() of iter.Pull2 over Seq2[*Node, error]
			if com.StaticCallee() == nil && !com.IsInvoke() {
				res := com.Signature().Results()
				if res.Len() == 3 && isNodePtr(res.At(0).Type()) && isErrorType(res.At(1).Type()) && x.Index == 0 {
					return "seq", siblingExtract(t, 1)
				}
			}
			if f := com.StaticCallee(); f != nil && c.p.InModule(f) {
				res := f.Signature.Results()
				if res.Len() == 2 && isNodePtr(res.At(0).Type()) && isErrorType(res.At(1).Type()) && x.Index == 0 {
					return "ret:" + relFunc(f), siblingExtract(t, 1)
				}
			}
		}
	case *ssa.Parameter:
		// range-over-func body / yield-like callback receiving (*Node, error)
		fn := x.Parent()
		if strings.HasPrefix(fn.Synthetic, "range-over-func") && isNodePtr(x.Type()) {
			var errv ssa.Value
			for _, p2 := range fn.Params {
				if isErrorType(p2.Type()) {
					errv = p2
				}
			}
			return "seq", errv
		}
	}
	return "", nil
}

func siblingExtract(t ssa.Value, idx int) ssa.Value {
	if t.Referrers() == nil {
		return nil
	}
	for _, r := range *t.Referrers() {
		if e, ok := r.(*ssa.Extract); ok && e.Index == idx {
			return e
		}
	}
	return nil
}

// computeDerefParams: does fn dereference parameter i on some path without a nil test?
func (c *nilCtx) computeDerefParams() {
	for _, fn := range c.p.ModFuncs {
		c.derefParam[fn] = map[int]bool{}
	}
	for changed := true; changed; {
		changed = false
		for _, fn := range c.p.ModFuncs {
			for i, prm := range fn.Params {
				if c.derefParam[fn][i] {
					continue
				}
				if _, ok := prm.Type().Underlying().(*types.Pointer); !ok {
					continue
				}
				if len(c.unguardedDerefs(prm, 0)) > 0 {
					c.derefParam[fn][i] = true
					changed = true
				}
			}
		}
	}
}

// unguardedDerefs lists instructions that dereference v (directly or by handing it to a module
// function that dereferences its parameter) without a dominating v != nil test.
func (c *nilCtx) unguardedDerefs(v ssa.Value, depth int) []ssa.Instruction {
	var out []ssa.Instruction
	if v.Referrers() == nil || depth > 4 {
		return nil
	}
	// parameters captured by closures live in a cell: follow the loads of that cell
	vals := []ssa.Value{v}
	for _, r := range *v.Referrers() {
		if st, ok := r.(*ssa.Store); ok && st.Val == v {
			if _, isAlloc := st.Addr.(*ssa.Alloc); isAlloc && len(cellStores(st.Addr)) == 1 {
				for _, ld := range cellLoads(st.Addr) {
					vals = append(vals, ld)
				}
			}
		}
	}
	for _, val := range vals {
		for _, r := range *val.Referrers() {
			guarded := func() bool { return guardedNonNil(val, r) || (val != v && guardedNonNil(v, r)) }
			switch x := r.(type) {
			case *ssa.FieldAddr:
				if x.X == val && !guarded() {
					out = append(out, x)
				}
			case *ssa.Field:
				if x.X == val && !guarded() {
					out = append(out, x)
				}
			case *ssa.UnOp:
				if x.Op == token.MUL && x.X == val && val == v {
					if _, isPtr := v.Type().Underlying().(*types.Pointer); isPtr && !guarded() {
						// *v
						if _, isCell := v.(*ssa.Alloc); !isCell {
							if _, isFree := v.(*ssa.FreeVar); !isFree {
								out = append(out, x)
							}
						}
					}
				}
			case *ssa.Phi:
				out = append(out, c.unguardedDerefs(x, depth+1)...)
			case ssa.CallInstruction:
				if guarded() {
					continue
				}
				com := x.Common()
				off := 0
				if com.IsInvoke() {
					off = 1
				}
				for _, callee := range c.p.ModCallees(x) {
					for i, a := range com.Args {
						if a == val && i+off < len(callee.Params) && c.derefParam[callee][i+off] {
							out = append(out, x)
						}
					}
				}
			}
		}
	}
	return out
}

// ---------------------------------------------------------------------------------------------
// NIL-1

type handover struct {
	fn    *ssa.Function
	instr ssa.Instruction
	node  ssa.Value
	err   ssa.Value // may be nil (channels)
	class string
	desc  string
}

func (c *nilCtx) handovers(fns []*ssa.Function) []handover {
	var out []handover
	for _, fn := range fns {
		allInstrs(fn, func(in ssa.Instruction) {
			switch x := in.(type) {
			case *ssa.Send:
				if ch, ok := x.Chan.Type().Underlying().(*types.Chan); ok && isNodePtr(ch.Elem()) {
					out = append(out, handover{fn, x, x.X, nil, "chan", "send " + describeValue(x.Chan) + " <- " + describeValue(x.X)})
				}
			case *ssa.Select:
				for _, st := range x.States {
					if st.Dir != types.SendOnly {
						continue
					}
					if ch, ok := st.Chan.Type().Underlying().(*types.Chan); ok && isNodePtr(ch.Elem()) {
						out = append(out, handover{fn, x, st.Send, nil, "chan", "select send " + describeValue(st.Chan) + " <- " + describeValue(st.Send)})
					}
				}
			case *ssa.Call:
				com := x.Common()
				if com.StaticCallee() == nil && !com.IsInvoke() {
					sig := com.Signature()
					if sig.Params().Len() == 2 && isNodePtr(sig.Params().At(0).Type()) && isErrorType(sig.Params().At(1).Type()) {
						out = append(out, handover{fn, x, com.Args[0], com.Args[1], "seq", "yield(" + describeValue(com.Args[0]) + ", " + describeValue(com.Args[1]) + ")"})
					}
				}
			case *ssa.Return:
				res := fn.Signature.Results()
				if res.Len() == 2 && isNodePtr(res.At(0).Type()) && isErrorType(res.At(1).Type()) && len(rr(x)) == 2 {
					out = append(out, handover{fn, x, rr(x)[0], rr(x)[1], "ret:" + relFunc(fn), "return " + describeValue(rr(x)[0]) + ", " + describeValue(rr(x)[1])})
				}
			}
		})
	}
	return out
}

// consumers returns the *Node values received from each class, per function.
func (c *nilCtx) consumers(fns []*ssa.Function) map[string][]ssa.Value {
	out := map[string][]ssa.Value{}
	for _, fn := range fns {
		for _, prm := range fn.Params {
			if cls, _ := c.receivedFrom(prm); cls != "" {
				out[cls] = append(out[cls], prm)
			}
		}
		allInstrs(fn, func(in ssa.Instruction) {
			v, ok := in.(ssa.Value)
			if !ok || !isNodePtr(v.Type()) {
				return
			}
			if cls, _ := c.receivedFrom(v); cls != "" {
				out[cls] = append(out[cls], v)
			}
		})
	}
	return out
}

func (c *nilCtx) classify(h handover) string {
	if c.nonNil(h.node, h.instr, 0) {
		return "N"
	}
	if h.err != nil && c.nonNil(h.err, h.instr, 0) {
		return "E"
	}
	return "Q"
}

func nilObligations(w *World, p *Prog, fns []*ssa.Function, l *obs) {
	c := newNilCtx(p)
	hs := c.handovers(fns)
	classes := map[string]bool{}
	for _, h := range hs {
		classes[h.class] = true
	}
	// assume-guarantee: start by assuming every class keeps its contract, drop classes with a Q producer, repeat
	for cls := range classes {
		c.contract[cls] = true
	}
	for changed := true; changed; {
		changed = false
		for _, h := range hs {
			if c.contract[h.class] && c.classify(h) == "Q" {
				c.contract[h.class] = false
				changed = true
			}
		}
	}
	cons := c.consumers(fns)
	num := map[string]numbered{}
	for _, h := range hs {
		fid := p.FuncID(h.fn)
		if num[fid] == nil {
			num[fid] = numbered{}
		}
		construct := num[fid].name(h.desc)
		pos := p.InstrPos(h.instr)
		k := c.classify(h)
		switch k {
		case "N":
			l.ok(fid, construct, pos, "node proven non-nil at the hand-over", true, "handover-"+classKind(h.class))
		case "E":
			l.ok(fid, construct, pos, "error proven non-nil at the hand-over (consumers test it first: see consumer obligations)", true, "handover-"+classKind(h.class))
		default:
			if cls, _ := c.receivedFrom(resolve(h.node)); cls != "" && c.contract[cls] {
				l.ok(fid, construct, pos, "forwards a node it received from hand-over class "+cls+" unchanged; whether that class keeps the contract is decided at its producers", false, "handover-"+classKind(h.class))
				continue
			}
			// every consumer of the class must test the node before any dereference
			var bad []string
			nCons := 0
			for _, v := range cons[h.class] {
				nCons++
				for _, d := range c.unguardedDerefs(v, 0) {
					bad = append(bad, p.FuncID(d.Parent())+" at "+p.InstrPos(d))
				}
			}
			if len(bad) > 0 {
				sort.Strings(bad)
				bad = dedup(bad)
				more := ""
				if len(bad) > 3 {
					more = fmt.Sprintf(" and %d more", len(bad)-3)
					bad = bad[:3]
				}
				l.bad(fid, construct, pos, "neither the node nor the error is proven non-nil here, and consumers dereference the node without testing it: "+strings.Join(bad, ", ")+more, "handover-"+classKind(h.class))
			} else if nCons == 0 {
				l.undecided(fid, construct, pos, "possibly-nil hand-over and no consumer of class "+h.class+" was found", "handover-"+classKind(h.class))
			} else {
				l.ok(fid, construct, pos, fmt.Sprintf("node may be nil with a nil error, but all %d consumer(s) of %s test it before use", nCons, h.class), true, "handover-"+classKind(h.class))
			}
		}
	}
	// consumer side for classes that keep the contract through E producers: the paired error must be
	// tested before the node is used
	for _, cls := range sortedKeys(cons) {
		for _, v := range cons[cls] {
			fn := valueFunc(v)
			fid := p.FuncID(fn)
			if num[fid] == nil {
				num[fid] = numbered{}
			}
			_, errv := c.receivedFrom(v)
			construct := num[fid].name("consume " + classKind(cls) + " node " + describeValue(v))
			if !c.contract[cls] {
				continue // reported at the producer that breaks the contract
			}
			var bad []string
			// loop-carried pairs: `for n, err, ok := next(); ok; n, err, ok = next()` merges the node and its error in
			// two phis of one block; a test of the error phi speaks for the node phi
			var errPhis []ssa.Value
			if errv != nil && v.Referrers() != nil {
				for _, r := range *v.Referrers() {
					pn, ok := r.(*ssa.Phi)
					if !ok {
						continue
					}
					for i, e := range pn.Edges {
						if e != v {
							continue
						}
						for _, in2 := range pn.Block().Instrs {
							if pe, ok := in2.(*ssa.Phi); ok && pe != pn && i < len(pe.Edges) && pe.Edges[i] == errv {
								errPhis = append(errPhis, pe)
							}
						}
					}
				}
			}
			for _, d := range c.unguardedDerefs(v, 0) {
				if errv != nil && c.contract[cls] && guardedNil(errv, d) {
					continue
				}
				viaPhi := false
				for _, pe := range errPhis {
					if c.contract[cls] && guardedNil(pe, d) {
						viaPhi = true
					}
				}
				if viaPhi {
					continue
				}
				if errv == nil && c.contract[cls] {
					continue
				}
				bad = append(bad, p.InstrPos(d))
			}
			if len(bad) > 0 {
				why := "the node is dereferenced at " + strings.Join(dedup(bad), ", ") + " where neither node != nil nor err == nil is established"
				if !c.contract[cls] {
					why += " (and a producer of this class may hand over nil with a nil error)"
				}
				l.bad(fid, construct, p.InstrPos(valueInstr(v)), why, "consumer")
			} else {
				l.ok(fid, construct, p.InstrPos(valueInstr(v)), "dereferenced only where the node or the producers' contract (err == nil ⇒ node != nil) guarantees non-nil", true, "consumer")
			}
		}
	}
}

func classKind(cls string) string {
	if strings.HasPrefix(cls, "ret:") {
		return "return"
	}
	return cls
}

func valueFunc(v ssa.Value) *ssa.Function {
	if in, ok := v.(ssa.Instruction); ok {
		return in.Parent()
	}
	return v.Parent()
}

func valueInstr(v ssa.Value) ssa.Instruction {
	if in, ok := v.(ssa.Instruction); ok {
		return in
	}
	return firstInstr(v.Parent())
}

// parentDerefObligations: a node's parent is nil exactly for roots.  Every dereference of `x.parent` (a field access or a
// method call on it) needs evidence that x is not a root: a dominating `x.parent != nil`, a dominating `!x.isRoot()`
// (non-roots are linked to their parent when they are attached, PAIR-2), or — when x is a parameter — such evidence at
// every call site.
func parentDerefObligations(p *Prog, l *obs, fns []*ssa.Function) {
	isParentLoad := func(v ssa.Value) (*ssa.FieldAddr, bool) {
		ld, ok := isLoad(stripConv(v))
		if !ok {
			return nil, false
		}
		fa, ok := ld.(*ssa.FieldAddr)
		if !ok {
			return nil, false
		}
		tn, f, _ := fieldOf(fa)
		return fa, tn == "Node" && f == "parent"
	}
	var evidence func(x ssa.Value, at ssa.Instruction, depth int) bool
	evidence = func(x ssa.Value, at ssa.Instruction, depth int) bool {
		for _, g := range guardsOf(at.Block()) {
			// x.parent != nil on (another load of) the same node
			if tv, nonNil, ok := nilTest(g.Cond, g.Pol); ok && nonNil {
				if fa, isP := isParentLoad(tv); isP && (fa.X == x || sameVar(fa.X, x)) {
					return true
				}
			}
			// !x.isRoot()
			c, pol := flattenCond(g.Cond, g.Pol)
			if call, ok := c.(*ssa.Call); ok && !pol && call.Common().StaticCallee() != nil && fname(call.Common().StaticCallee()) == "isRoot" && len(call.Common().Args) == 1 {
				if call.Common().Args[0] == x || sameVar(call.Common().Args[0], x) {
					return true
				}
				// the loop `for ; !a.isRoot(); a = a.parent`: x is the phi a
				if ph, isPhi := x.(*ssa.Phi); isPhi && call.Common().Args[0] == ssa.Value(ph) {
					return true
				}
			}
		}
		if prm, ok := x.(*ssa.Parameter); ok && depth < 2 {
			fn := prm.Parent()
			i := paramIndex(fn, prm)
			callers := p.Callers(fn)
			if len(callers) == 0 || i < 0 {
				return false
			}
			for _, ci := range callers {
				args := callArgs(ci.Common())
				if i >= len(args) || !evidence(args[i], ci.(ssa.Instruction), depth+1) {
					return false
				}
			}
			return true
		}
		return false
	}
	n := 0
	for _, fn := range fns {
		fn := fn
		num := numbered{}
		allInstrs(fn, func(in ssa.Instruction) {
			var pv ssa.Value
			switch x := in.(type) {
			case *ssa.FieldAddr:
				pv = x.X
			case ssa.CallInstruction:
				if f := x.Common().StaticCallee(); f != nil && p.InModule(f) && recvTypeName(f) == "Node" && len(x.Common().Args) > 0 {
					pv = x.Common().Args[0]
				}
			}
			if pv == nil {
				return
			}
			fa, isP := isParentLoad(pv)
			if !isP {
				return
			}
			n++
			construct := num.name("dereference of " + describeValue(fa.X) + ".parent")
			base := fa.X
			if guardedNonNil(pv, in) || evidence(base, in, 0) {
				l.ok(p.FuncID(fn), construct, p.InstrPos(in), "the node is known not to be a root here (parent != nil / !isRoot() in this function or at every call site)", true, "parent-deref")
			} else {
				l.bad(p.FuncID(fn), construct, p.InstrPos(in), "nothing establishes that the node has a parent here (no dominating `parent != nil` or `!isRoot()` test, in this function or at all of its call sites): for a root the parent is nil and this dereference panics", "parent-deref")
			}
		})
	}
	_ = n
}

func ruleNIL1(w *World) []Ob {
	l := &obs{rule: "NIL-1", cfg: "D"}
	d := w.D()
	parentDerefObligations(d, l, libFuncs(d))
	nilObligations(w, d, libFuncs(d), l)
	pw := w.W()
	l.cfg = "W"
	var wf []*ssa.Function
	for _, fn := range libFuncs(pw) {
		wf = append(wf, fn)
	}
	before := len(l.list)
	nilObligations(w, pw, wf, l)
	// keep only W obligations located in tinywasm-only functions or differing from D
	keep := l.list[:before]
	seen := map[string]bool{}
	for _, o := range keep {
		seen[o.Func+"|"+o.Construct] = true
	}
	for _, o := range l.list[before:] {
		if !seen[o.Func+"|"+o.Construct] {
			keep = append(keep, o)
		}
	}
	l.list = keep
	// errors handed to a stage's error channel are non-nil: the collector takes the first value it reads from an
	// error channel as that stage's verdict, so a nil sent there reads as "this stage succeeded"
	l.cfg = "D"
	nc := newNilCtx(d)
	isErrSender := func(f *ssa.Function) (int, bool) {
		// a module helper that sends its error parameter on its chan<- error parameter
		if f == nil || !d.InModule(f) || f.Blocks == nil {
			return 0, false
		}
		for i, prm := range f.Params {
			if !isErrorType(prm.Type()) {
				continue
			}
			sends := false
			allInstrs(f, func(in ssa.Instruction) {
				switch x := in.(type) {
				case *ssa.Send:
					if sameVar(x.X, prm) {
						sends = true
					}
				case *ssa.Select:
					for _, st := range x.States {
						if st.Dir == types.SendOnly && sameVar(st.Send, prm) {
							sends = true
						}
					}
				}
			})
			if sends {
				return i, true
			}
		}
		return 0, false
	}
	for _, fn := range libFuncs(d) {
		fn := fn
		num := numbered{}
		if _, self := isErrSender(fn); self {
			continue // judged at its call sites
		}
		allInstrs(fn, func(in ssa.Instruction) {
			var v ssa.Value
			what := ""
			switch x := in.(type) {
			case *ssa.Call:
				if i, ok := isErrSender(x.Common().StaticCallee()); ok && i < len(x.Common().Args) {
					v, what = x.Common().Args[i], "error handed to "+fname(x.Common().StaticCallee())
				}
			case *ssa.Send:
				if isErrorType(x.X.Type()) {
					v, what = x.X, "error sent on "+describeValue(x.Chan)
				}
			case *ssa.Select:
				for _, st := range x.States {
					if st.Dir == types.SendOnly && isErrorType(st.Send.Type()) {
						v, what = st.Send, "error offered on "+describeValue(st.Chan)
					}
				}
			}
			if v == nil {
				return
			}
			construct := num.name(what)
			if nc.nonNil(v, in, 0) {
				l.ok(d.FuncID(fn), construct, d.InstrPos(in), "proven non-nil where it is handed over", true, "handover-err")
			} else {
				l.bad(d.FuncID(fn), construct, d.InstrPos(in), "the value may be nil here: the collector reads the first value of a stage's error channel as that stage's result, so a nil reads as success and a real error of another root is never looked at", "handover-err")
			}
		})
	}
	return l.list
}

// ---------------------------------------------------------------------------------------------
// NIL-3

func ruleNIL3(w *World) []Ob {
	p := w.D()
	l := &obs{rule: "NIL-3", cfg: "D"}
	c := newNilCtx(p)
	nMassive, nIter := 0, 0
	for _, fn := range libFuncs(p) {
		fid := p.FuncID(fn)
		allInstrs(fn, func(in ssa.Instruction) {
			switch x := in.(type) {
			case *ssa.Store:
				fa, ok := x.Addr.(*ssa.FieldAddr)
				if !ok {
					return
				}
				tn, f, _ := fieldOf(fa)
				if tn != "config" || f != "massive" {
					return
				}
				if b, isConst := constBool(x.Val); isConst && !b {
					return
				}
				if a, ok := fa.X.(*ssa.Alloc); ok && a.Parent() == fn && fname(fn) == "newConfig" {
					return
				}
				nMassive++
				construct := "config.massive = " + describeValue(x.Val)
				// a store to config.ctx of the same object with a proven non-nil value in this function
				okCtx := false
				detail := "no store to config.ctx accompanies it"
				allInstrs(fn, func(in2 ssa.Instruction) {
					st2, ok := in2.(*ssa.Store)
					if !ok {
						return
					}
					fa2, ok := st2.Addr.(*ssa.FieldAddr)
					if !ok {
						return
					}
					tn2, f2, _ := fieldOf(fa2)
					if tn2 != "config" || f2 != "ctx" || !sameVar(fa2.X, fa.X) {
						return
					}
					if c.nonNil(st2.Val, st2, 0) {
						okCtx = true
					} else {
						detail = "the context stored at " + p.InstrPos(st2) + " is not proven non-nil"
					}
				})
				if okCtx {
					l.ok(fid, construct, p.InstrPos(x), "the same function stores a context proven non-nil into config.ctx (the pipeline calls context.WithCancel(cfg.ctx), which panics on nil)", true, "massive")
				} else {
					l.bad(fid, construct, p.InstrPos(x), "massive mode is switched on but "+detail+": context.WithCancel(nil) panics", "massive")
				}
			case *ssa.Call:
				com := x.Common()
				if !com.IsInvoke() || methodName(com.Method) != "walkIterProgrammably" {
					return
				}
				nIter++
				construct := "tree.walkIterProgrammably via " + describeValue(com.Value)
				mk, ok := resolve(com.Value).(*ssa.Call)
				// the tree comes out of a set-up helper (t, cfg, err := prepare(root, kind, options)): look inside the helper,
				// following only the branches that the constant arguments of this call select
				if !ok {
					if ex, isEx := resolve(com.Value).(*ssa.Extract); isEx {
						if hc, isC := ex.Tuple.(*ssa.Call); isC && hc.Common().StaticCallee() != nil && p.InModule(hc.Common().StaticCallee()) {
							if why, decided := iterTreeViaHelper(p, hc, ex.Index); decided {
								if why == "" {
									l.ok(fid, construct, p.InstrPos(x), "the set-up helper "+fname(hc.Common().StaticCallee())+" stores cfg.massive = false before initializeTree(cfg) on the branch this call's constant arguments select", true, "iter")
								} else {
									l.bad(fid, construct, p.InstrPos(x), why, "iter")
								}
								return
							}
						}
					}
				}
				if !ok || mk.Common().StaticCallee() == nil || fname(mk.Common().StaticCallee()) != "initializeTree" {
					l.undecided(fid, construct, p.InstrPos(x), "the tree value does not come from initializeTree(cfg) directly", "iter")
					return
				}
				cfgv := mk.Common().Args[0]
				okStore := false
				allInstrs(fn, func(in2 ssa.Instruction) {
					st, ok := in2.(*ssa.Store)
					if !ok {
						return
					}
					fa, ok := st.Addr.(*ssa.FieldAddr)
					if !ok {
						return
					}
					tn, f, _ := fieldOf(fa)
					if tn != "config" || f != "massive" || !sameVar(fa.X, cfgv) {
						return
					}
					b, isConst := constBool(st.Val)
					if isConst && !b && (st.Block().Dominates(mk.Block())) && (st.Block() != mk.Block() || instrIndex(st) < instrIndex(mk)) {
						okStore = true
					}
				})
				if okStore {
					l.ok(fid, construct, p.InstrPos(x), "cfg.massive = false dominates initializeTree(cfg): the simple tree (whose iterator is non-nil) is selected", true, "iter")
				} else {
					l.bad(fid, construct, p.InstrPos(x), "initializeTree(cfg) may select the pipeline tree, whose walkIterProgrammably returns a nil iterator; iter.Pull2(nil) panics", "iter")
				}
			}
		})
	}
	if nMassive == 0 {
		l.undecided("-", "stores to config.massive", "-", "no store enabling massive mode found", "massive")
	}
	if nIter == 0 {
		l.undecided("-", "calls of tree.walkIterProgrammably", "-", "none found", "iter")
	}
	return l.list
}


// iterTreeViaHelper: hc calls a module helper whose result #idx is initializeTree(cfg).  With the constant arguments of
// hc substituted for the helper's parameters, every route from the helper's entry to that initializeTree call passes a
// store cfg.massive = false.  Returns (reason, decided); reason "" means the obligation holds.
func iterTreeViaHelper(p *Prog, hc *ssa.Call, idx int) (string, bool) {
	h := hc.Common().StaticCallee()
	if len(h.Blocks) == 0 {
		return "", false
	}
	var mk *ssa.Call
	allInstrs(h, func(in ssa.Instruction) {
		if r, ok := in.(*ssa.Return); ok && idx < len(rr(r)) {
			if c, ok := stripConv(resolve(rr(r)[idx])).(*ssa.Call); ok && c.Common().StaticCallee() != nil && fname(c.Common().StaticCallee()) == "initializeTree" {
				mk = c
			}
		}
	})
	if mk == nil {
		return "", false
	}
	cfgv := mk.Common().Args[0]
	consts := map[*ssa.Parameter]int64{}
	for i, prm := range h.Params {
		if i < len(hc.Common().Args) {
			if k, ok := constInt(stripNum(hc.Common().Args[i])); ok {
				consts[prm] = k
			}
		}
	}
	storeBlocks := map[*ssa.BasicBlock]bool{}
	allInstrs(h, func(in ssa.Instruction) {
		st, ok := in.(*ssa.Store)
		if !ok {
			return
		}
		fa, ok := st.Addr.(*ssa.FieldAddr)
		if !ok {
			return
		}
		tn, f, _ := fieldOf(fa)
		same := sameVar(fa.X, cfgv)
		if ph, isPhi := cfgv.(*ssa.Phi); isPhi && !same {
			// cfg is assigned per branch and merged: the store goes through the value of its own branch
			for _, e := range ph.Edges {
				if e == fa.X || sameVar(e, fa.X) {
					same = true
				}
			}
		}
		if tn != "config" || f != "massive" || !same {
			return
		}
		if b, isC := constBool(st.Val); isC && !b {
			storeBlocks[st.Block()] = true
		}
	})
	// which successor does a test on a constant parameter take?
	taken := func(b *ssa.BasicBlock) []*ssa.BasicBlock {
		if len(b.Instrs) == 0 || len(b.Succs) != 2 {
			return b.Succs
		}
		iff, ok := b.Instrs[len(b.Instrs)-1].(*ssa.If)
		if !ok {
			return b.Succs
		}
		bo, ok := iff.Cond.(*ssa.BinOp)
		if !ok {
			return b.Succs
		}
		prm, isP := stripNum(bo.X).(*ssa.Parameter)
		k, isK := constInt(stripNum(bo.Y))
		if !isP || !isK {
			return b.Succs
		}
		v, known := consts[prm]
		if !known {
			return b.Succs
		}
		res := false
		switch bo.Op {
		case token.EQL:
			res = v == k
		case token.NEQ:
			res = v != k
		default:
			return b.Succs
		}
		if res {
			return b.Succs[:1]
		}
		return b.Succs[1:]
	}
	seen := map[*ssa.BasicBlock]bool{}
	reached := false
	var walk func(b *ssa.BasicBlock)
	walk = func(b *ssa.BasicBlock) {
		if seen[b] || reached || storeBlocks[b] {
			return
		}
		seen[b] = true
		if b == mk.Block() {
			reached = true
			return
		}
		for _, s2 := range taken(b) {
			walk(s2)
		}
	}
	walk(h.Blocks[0])
	if reached {
		return "in the set-up helper " + fname(h) + " initializeTree(cfg) can be reached, with this call's arguments, without cfg.massive having been set to false: it may select the pipeline tree, whose walkIterProgrammably returns a nil iterator, and iter.Pull2(nil) panics", true
	}
	return "", true
}

// singleStoreOf: v is a load of a variable cell that is assigned exactly once; return that store.
func singleStoreOf(v ssa.Value) *ssa.Store {
	for i := 0; i < 4; i++ {
		switch x := v.(type) {
		case *ssa.ChangeType:
			v = x.X
			continue
		case *ssa.UnOp:
			if x.Op == token.MUL {
				switch x.X.(type) {
				case *ssa.Alloc, *ssa.FreeVar:
					if st := initStore(x.X); st != nil {
						return st
					}
				}
			}
		}
		break
	}
	return nil
}

// computeNilRetImplies: for module functions returning error as last result, find parameters that
// are proven non-nil on every path that returns a nil error ("validators").
func (c *nilCtx) computeNilRetImplies() {
	for round := 0; round < 3; round++ {
		c.computeNilRetImpliesOnce()
	}
}

func (c *nilCtx) computeNilRetImpliesOnce() {
	for _, fn := range c.p.ModFuncs {
		res := fn.Signature.Results()
		if res.Len() == 0 || !isErrorType(res.At(res.Len()-1).Type()) {
			continue
		}
		m := map[int]bool{}
		for i, prm := range fn.Params {
			if _, ok := prm.Type().Underlying().(*types.Pointer); !ok {
				continue
			}
			good, n := true, 0
			allInstrs(fn, func(in ssa.Instruction) {
				r, ok := in.(*ssa.Return)
				if !ok {
					return
				}
				ev := rr(r)[len(rr(r))-1]
				if c.nonNil(ev, r, 1) {
					return // returns an error: nothing promised
				}
				n++
				if !guardedNonNil(prm, r) && !c.validatedByCall(prm, r) {
					good = false
				}
			})
			if good && n > 0 {
				m[i] = true
			}
		}
		if len(m) > 0 {
			c.nilRetImp[fn] = m
		}
	}
}

// validatedByCall: 'at' is only reached when f(…v…) returned a nil error and f is a validator for that argument.
func (c *nilCtx) validatedByCall(v ssa.Value, at ssa.Instruction) bool {
	for _, g := range guardsOf(at.Block()) {
		tv, nonNil, ok := nilTest(g.Cond, g.Pol)
		if !ok || nonNil {
			continue
		}
		call, ok := stripConv(tv).(*ssa.Call)
		if !ok {
			// (x, err) := prepare(v): the error is the last result
			if ex, isEx := stripConv(tv).(*ssa.Extract); isEx {
				if c2, isC := ex.Tuple.(*ssa.Call); isC && c2.Common().StaticCallee() != nil && ex.Index == c2.Common().StaticCallee().Signature.Results().Len()-1 {
					call, ok = c2, true
				}
			}
		}
		if !ok {
			continue
		}
		f := call.Common().StaticCallee()
		if f == nil || c.nilRetImp[f] == nil {
			continue
		}
		for j, a := range call.Common().Args {
			if c.nilRetImp[f][j] && sameVar(a, v) {
				return true
			}
		}
	}
	return false
}

// computeNonNilParams: a pointer parameter is non-nil when every module call site passes a value
// proven non-nil there (optimistic fixed point; exported functions and functions without module
// callers get no promise).
func (c *nilCtx) computeNonNilParams() {
	type site struct {
		call ssa.CallInstruction
		arg  ssa.Value
	}
	sites := map[*ssa.Parameter][]site{}
	for _, fn := range c.p.ModFuncs {
		if fn.Parent() != nil {
			continue
		}
		exported := fn.Object() != nil && fn.Object().Exported() && fn.Signature.Recv() == nil
		callers := c.p.Callers(fn)
		if exported || len(callers) == 0 {
			continue
		}
		for i, prm := range fn.Params {
			if _, ok := prm.Type().Underlying().(*types.Pointer); !ok {
				continue
			}
			okAll := true
			var ss []site
			for _, ci := range callers {
				com := ci.Common()
				var arg ssa.Value
				if com.IsInvoke() {
					if i == 0 {
						arg = com.Value
					} else if i-1 < len(com.Args) {
						arg = com.Args[i-1]
					}
				} else if i < len(com.Args) {
					arg = com.Args[i]
				}
				if arg == nil {
					okAll = false
					break
				}
				// (a go statement evaluates its arguments where it stands, so it counts like a call)
				ss = append(ss, site{ci, arg})
			}
			if okAll {
				sites[prm] = ss
				c.nonNilPrm[prm] = true
			}
		}
	}
	for changed := true; changed; {
		changed = false
		for prm, ss := range sites {
			if !c.nonNilPrm[prm] {
				continue
			}
			for _, s := range ss {
				if !c.nonNil(s.arg, s.call.(ssa.Instruction), 1) {
					c.nonNilPrm[prm] = false
					changed = true
					break
				}
			}
		}
	}
}

// computeNilKeeping: module functions with one nilable result that hand back nil only where one of their nilable
// parameters is nil (error wrappers that map nil to nil): every return is a proven non-nil value or lies on the
// parameter's nil side.
func (c *nilCtx) computeNilKeeping() {
	for _, fn := range c.p.ModFuncs {
		if fn.Signature.Results().Len() != 1 || !isNilable(fn.Signature.Results().At(0).Type()) || fn.Blocks == nil {
			continue
		}
		for i, prm := range fn.Params {
			if !isNilable(prm.Type()) {
				continue
			}
			good, n, viaNil := true, 0, false
			allInstrs(fn, func(in ssa.Instruction) {
				r, ok := in.(*ssa.Return)
				if !ok {
					return
				}
				n++
				v := rr(r)[0]
				if guardedNil(prm, r) {
					viaNil = true
					return
				}
				if guardedNonNil(prm, r) && (sameVar(v, prm) || c.nonNil(v, r, 1)) {
					return
				}
				if c.nonNil(v, r, 1) {
					return
				}
				// `return wrap(x)` of another nil-keeping function on the same parameter, or the parameter itself
				if sameVar(v, prm) {
					return
				}
				good = false
			})
			if good && n > 0 && viaNil {
				c.nilKeeping[fn] = i
				break
			}
			if good && n > 0 && !viaNil {
				// never returns nil at all for this parameter: covered by nonNilRes or returns the parameter itself
				allSelf := true
				allInstrs(fn, func(in ssa.Instruction) {
					if r, ok := in.(*ssa.Return); ok && !sameVar(rr(r)[0], prm) && !c.nonNil(rr(r)[0], r, 1) {
						allSelf = false
					}
				})
				if allSelf {
					c.nilKeeping[fn] = i
					break
				}
			}
		}
	}
}
