package main

import (
	"fmt"
	"go/constant"
	"go/token"
	"math"

	"golang.org/x/tools/go/ssa"
)

// worker pools: a stage that starts its workers in a counted loop must start at least one.  With no worker the
// stage's WaitGroup is done at once, its output channel is closed empty and the operation reports success without
// having handled a single root (or, with an unbuffered input nobody drains, the producer waits for the context).
//
// The loop bound is evaluated to a lower bound by interval arithmetic over constants, min / max, + - * /, the
// runtime's processor counts (≥ 1) and module helpers; a bound that depends on a value outside that vocabulary is
// left undecided-but-silent (it cannot be shown wrong).

const negInf = math.MinInt64 / 4
const posInf = math.MaxInt64 / 4

type ival struct{ lo, hi int64 }

func (p *Prog) bounds(v ssa.Value, env map[*ssa.Parameter]ival, depth int) ival {
	unknown := ival{negInf, posInf}
	if depth > 8 {
		return unknown
	}
	clamp := func(x int64) int64 {
		if x < negInf {
			return negInf
		}
		if x > posInf {
			return posInf
		}
		return x
	}
	switch x := v.(type) {
	case *ssa.Const:
		if x.Value != nil && x.Value.Kind() == constant.Int {
			if n, ok := constant.Int64Val(x.Value); ok {
				return ival{n, n}
			}
		}
		return unknown
	case *ssa.Parameter:
		if iv, ok := env[x]; ok {
			return iv
		}
		// every call site
		fn := x.Parent()
		idx := paramIndex(fn, x)
		callers := p.Callers(fn)
		if len(callers) == 0 || idx < 0 {
			return unknown
		}
		out := ival{posInf, negInf}
		for _, ci := range callers {
			args := callArgs(ci.Common())
			if idx >= len(args) {
				return unknown
			}
			iv := p.bounds(args[idx], nil, depth+1)
			out.lo, out.hi = min(out.lo, iv.lo), max(out.hi, iv.hi)
		}
		return out
	case *ssa.Convert:
		return p.bounds(x.X, env, depth+1)
	case *ssa.ChangeType:
		return p.bounds(x.X, env, depth+1)
	case *ssa.UnOp:
		if x.Op == token.MUL {
			if r := resolve(x); r != ssa.Value(x) {
				return p.bounds(r, env, depth+1)
			}
		}
		if x.Op == token.SUB {
			iv := p.bounds(x.X, env, depth+1)
			return ival{clamp(-iv.hi), clamp(-iv.lo)}
		}
		return unknown
	case *ssa.BinOp:
		a, b := p.bounds(x.X, env, depth+1), p.bounds(x.Y, env, depth+1)
		switch x.Op {
		case token.ADD:
			return ival{clamp(a.lo + b.lo), clamp(a.hi + b.hi)}
		case token.SUB:
			return ival{clamp(a.lo - b.hi), clamp(a.hi - b.lo)}
		case token.MUL:
			if a.lo >= 0 && b.lo >= 0 && a.hi < 1<<30 && b.hi < 1<<30 {
				return ival{a.lo * b.lo, a.hi * b.hi}
			}
			if a.lo >= 0 && b.lo >= 0 {
				return ival{clamp(a.lo * min(b.lo, 1<<30)), posInf}
			}
		case token.QUO:
			if a.lo >= 0 && b.lo >= 1 {
				hi := a.hi
				if b.hi >= posInf {
					return ival{0, hi}
				}
				return ival{a.lo / b.hi, hi / b.lo}
			}
		case token.SHR:
			if a.lo >= 0 && b.lo >= 0 && b.hi < 62 {
				return ival{a.lo >> uint(b.hi), a.hi >> uint(b.lo)}
			}
		case token.REM:
			if a.lo >= 0 && b.lo >= 1 {
				return ival{0, clamp(b.hi - 1)}
			}
		}
		return unknown
	case *ssa.Phi:
		out := ival{posInf, negInf}
		for i, e := range x.Edges {
			iv := p.bounds(e, env, depth+1)
			// an edge that only passes on the false / true side of a comparison of that very value with a constant
			if i < len(x.Block().Preds) {
				iv = refineByGuard(p, e, x.Block().Preds[i], x.Block(), iv, env, depth)
			}
			out.lo, out.hi = min(out.lo, iv.lo), max(out.hi, iv.hi)
		}
		return out
	case *ssa.Call:
		if b, ok := x.Common().Value.(*ssa.Builtin); ok {
			switch b.Name() {
			case "min":
				out := ival{posInf, posInf}
				for _, a := range x.Common().Args {
					iv := p.bounds(a, env, depth+1)
					out.lo, out.hi = min(out.lo, iv.lo), min(out.hi, iv.hi)
				}
				return out
			case "max":
				out := ival{negInf, negInf}
				for _, a := range x.Common().Args {
					iv := p.bounds(a, env, depth+1)
					out.lo, out.hi = max(out.lo, iv.lo), max(out.hi, iv.hi)
				}
				return out
			case "len", "cap":
				return ival{0, posInf}
			}
			return unknown
		}
		f := x.Common().StaticCallee()
		if f == nil {
			return unknown
		}
		switch f.String() {
		case "runtime.NumCPU", "runtime.GOMAXPROCS":
			return ival{1, posInf}
		}
		if !p.InModule(f) || len(f.Blocks) == 0 || f.Signature.Results().Len() != 1 {
			return unknown
		}
		sub := map[*ssa.Parameter]ival{}
		for i, prm := range f.Params {
			if i < len(x.Common().Args) {
				sub[prm] = p.bounds(x.Common().Args[i], env, depth+1)
			}
		}
		out := ival{posInf, negInf}
		n := 0
		allInstrs(f, func(in ssa.Instruction) {
			if r, ok := in.(*ssa.Return); ok {
				for _, rv := range rr(r) {
					n++
					iv := p.bounds(rv, sub, depth+1)
					if ph, isPhi := rv.(*ssa.Phi); !isPhi || ph == nil {
						// a return inside a guarded branch: refine by the guards dominating it
						iv = refineByDominatingGuards(p, rv, r.Block(), iv, sub, depth)
					}
					out.lo, out.hi = min(out.lo, iv.lo), max(out.hi, iv.hi)
				}
			}
		})
		if n == 0 {
			return unknown
		}
		return out
	}
	return unknown
}

// guardFact: what the branch from `from` to `to` tells about value v when `from` ends in `if v OP const`.
func guardFact(p *Prog, v ssa.Value, from, to *ssa.BasicBlock, iv ival, env map[*ssa.Parameter]ival, depth int) ival {
	if len(from.Instrs) == 0 {
		return iv
	}
	ifi, ok := from.Instrs[len(from.Instrs)-1].(*ssa.If)
	if !ok || len(from.Succs) != 2 {
		return iv
	}
	bo, ok := ifi.Cond.(*ssa.BinOp)
	if !ok {
		return iv
	}
	op := bo.Op
	var k ival
	switch {
	case sameVar(bo.X, v):
		k = p.bounds(bo.Y, env, depth+1)
	case sameVar(bo.Y, v):
		k = p.bounds(bo.X, env, depth+1)
		switch op { // c OP v  ⇒  v OP' c
		case token.LSS:
			op = token.GTR
		case token.LEQ:
			op = token.GEQ
		case token.GTR:
			op = token.LSS
		case token.GEQ:
			op = token.LEQ
		}
	default:
		return iv
	}
	if k.lo != k.hi {
		return iv
	}
	if from.Succs[1] == to && from.Succs[0] != to {
		switch op { // negate
		case token.LSS:
			op = token.GEQ
		case token.LEQ:
			op = token.GTR
		case token.GTR:
			op = token.LEQ
		case token.GEQ:
			op = token.LSS
		case token.EQL:
			op = token.NEQ
		case token.NEQ:
			op = token.EQL
		}
	} else if from.Succs[0] != to {
		return iv
	}
	c := k.lo
	switch op {
	case token.GEQ:
		iv.lo = max(iv.lo, c)
	case token.GTR:
		iv.lo = max(iv.lo, c+1)
	case token.LEQ:
		iv.hi = min(iv.hi, c)
	case token.LSS:
		iv.hi = min(iv.hi, c-1)
	case token.EQL:
		iv.lo, iv.hi = max(iv.lo, c), min(iv.hi, c)
	case token.NEQ:
		if iv.lo == c {
			iv.lo = c + 1
		}
		if iv.hi == c {
			iv.hi = c - 1
		}
	}
	return iv
}

func refineByGuard(p *Prog, v ssa.Value, pred, blk *ssa.BasicBlock, iv ival, env map[*ssa.Parameter]ival, depth int) ival {
	iv = guardFact(p, v, pred, blk, iv, env, depth)
	// the predecessor itself may be reached only through a guard (if v < 1 { v = 1 } leaves the other edge coming
	// straight from the guard block; an else-branch block is one hop further)
	if len(pred.Preds) == 1 {
		iv = guardFact(p, v, pred.Preds[0], pred, iv, env, depth)
	}
	return iv
}

func refineByDominatingGuards(p *Prog, v ssa.Value, blk *ssa.BasicBlock, iv ival, env map[*ssa.Parameter]ival, depth int) ival {
	for b := blk; b != nil && len(b.Preds) == 1; b = b.Preds[0] {
		iv = guardFact(p, v, b.Preds[0], b, iv, env, depth)
	}
	return iv
}

// poolObligations: every `go` inside a counted loop — the loop's bound is at least 1.
func poolObligations(p *Prog) []Ob {
	var out []Ob
	for _, fn := range libFuncs(p) {
		num := numbered{}
		allInstrs(fn, func(in ssa.Instruction) {
			g, ok := in.(*ssa.Go)
			if !ok || !inLoop(g) {
				return
			}
			// the comparisons `i < N` whose true side leads into the loop body holding the go statement
			var boundsSeen []ssa.Value
			for _, b := range fn.Blocks {
				if len(b.Instrs) == 0 || len(b.Succs) != 2 {
					continue
				}
				ifi, ok := b.Instrs[len(b.Instrs)-1].(*ssa.If)
				if !ok {
					continue
				}
				bo, ok := ifi.Cond.(*ssa.BinOp)
				if !ok || bo.Op != token.LSS {
					continue
				}
				t := b.Succs[0]
				if t != g.Block() && !t.Dominates(g.Block()) {
					continue
				}
				if !canReach(g.Block(), b) && b != fn.Blocks[0] && !b.Dominates(g.Block()) {
					continue
				}
				// the counter starts at 0: a constant 0, or a phi with a constant-0 entry edge
				start := false
				switch c := bo.X.(type) {
				case *ssa.Const:
					if n, isC := constInt(c); isC && n == 0 {
						start = true
					}
				case *ssa.Phi:
					for _, e := range c.Edges {
						if n, isC := constInt(e); isC && n == 0 {
							start = true
						}
					}
				case *ssa.BinOp: // rotated loop: i+1 < N at the bottom
					start = true
				}
				if !start {
					continue
				}
				dup := false
				for _, s := range boundsSeen {
					if s == bo.Y {
						dup = true
					}
				}
				if !dup {
					boundsSeen = append(boundsSeen, bo.Y)
				}
			}
			if len(boundsSeen) == 0 {
				return // a loop over a collection, not a counted pool
			}
			construct := num.name("worker pool started by " + calleeString(g.Common()))
			ob := Ob{Rule: "CONC-1", Cfg: p.Cfg.Name, Func: p.FuncID(fn), Construct: construct, Pos: p.InstrPos(g), Role: "pool"}
			lo := int64(posInf)
			for _, b := range boundsSeen {
				lo = min(lo, p.bounds(b, nil, 0).lo)
			}
			switch {
			case lo >= 1:
				ob.Status, ob.Nontrivial = OK, true
				ob.Detail = fmt.Sprintf("the loop that starts the workers runs at least %d time(s)", lo)
				if lo >= posInf/2 {
					ob.Detail = "the loop that starts the workers runs at least once"
				}
			case lo <= negInf/2:
				ob.Status = OK
				ob.Detail = "the number of workers depends on a value outside the checker's arithmetic (constants, min/max, + - * /, processor counts, module helpers): not decided"
			default:
				ob.Status, ob.Nontrivial = Violation, true
				ob.Detail = fmt.Sprintf("the number of workers can be as low as %d: with no worker the stage joins at once, closes its output and the operation returns success without having handled its roots (or leaves its producer waiting)", lo)
			}
			out = append(out, ob)
		})
	}
	return out
}

func stripNum(v ssa.Value) ssa.Value {
	for {
		switch x := v.(type) {
		case *ssa.Convert:
			v = x.X
		case *ssa.ChangeType:
			v = x.X
		default:
			return v
		}
	}
}

// cmpFact: what the comparison bo (holding when pos, failing otherwise) tells about the integer value v.
func cmpFact(p *Prog, v ssa.Value, bo *ssa.BinOp, pos bool, iv ival) ival {
	op := bo.Op
	var k ival
	switch {
	case stripNum(bo.X) == stripNum(v) || sameVar(bo.X, v):
		k = p.bounds(bo.Y, nil, 1)
	case stripNum(bo.Y) == stripNum(v) || sameVar(bo.Y, v):
		k = p.bounds(bo.X, nil, 1)
		op = flipOp(op)
	default:
		return iv
	}
	if k.lo != k.hi {
		return iv
	}
	if !pos {
		op = negateOp(op)
	}
	c := k.lo
	switch op {
	case token.GEQ:
		iv.lo = max(iv.lo, c)
	case token.GTR:
		iv.lo = max(iv.lo, c+1)
	case token.LEQ:
		iv.hi = min(iv.hi, c)
	case token.LSS:
		iv.hi = min(iv.hi, c-1)
	case token.EQL:
		iv.lo, iv.hi = max(iv.lo, c), min(iv.hi, c)
	}
	return iv
}

// predicateRange: for a module function `func(x Int) bool` (x its only parameter or its receiver), the interval x
// lies in whenever the function returns true — e.g. `return s >= 0 && int(s) < len(table)`.
func predicateRange(p *Prog, f *ssa.Function) (ival, bool) {
	if f == nil || !p.InModule(f) || len(f.Blocks) == 0 || len(f.Params) != 1 || f.Signature.Results().Len() != 1 {
		return ival{}, false
	}
	prm := f.Params[0]
	unknown := ival{negInf, posInf}
	guardsFor := func(b *ssa.BasicBlock, iv ival) ival {
		for _, g := range guardsOf(b) {
			c, pol := flattenCond(g.Cond, g.Pol)
			if bo, ok := c.(*ssa.BinOp); ok {
				iv = cmpFact(p, prm, bo, pol, iv)
			}
		}
		return iv
	}
	out := ival{posInf, negInf}
	okAll := true
	var visit func(v ssa.Value, b *ssa.BasicBlock, depth int)
	visit = func(v ssa.Value, b *ssa.BasicBlock, depth int) {
		if depth > 6 {
			okAll = false
			return
		}
		switch x := v.(type) {
		case *ssa.Const:
			if x.Value != nil && x.Value.String() == "true" {
				iv := guardsFor(b, unknown)
				out.lo, out.hi = min(out.lo, iv.lo), max(out.hi, iv.hi)
			}
		case *ssa.BinOp:
			iv := cmpFact(p, prm, x, true, guardsFor(b, unknown))
			out.lo, out.hi = min(out.lo, iv.lo), max(out.hi, iv.hi)
		case *ssa.Phi:
			for i, e := range x.Edges {
				if i < len(x.Block().Preds) {
					visit(e, x.Block().Preds[i], depth+1)
				}
			}
		default:
			okAll = false
		}
	}
	n := 0
	allInstrs(f, func(in ssa.Instruction) {
		if r, ok := in.(*ssa.Return); ok && len(rr(r)) == 1 {
			n++
			visit(rr(r)[0], r.Block(), 0)
		}
	})
	if n == 0 || !okAll || out.lo > out.hi {
		return ival{}, false
	}
	return out, true
}
