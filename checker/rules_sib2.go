package main

// SIB (part 2): row terms, generator siblings, connector selection, name transformers.

import (
	"fmt"
	"go/token"
	"os"
	"go/types"
	"regexp"
	"sort"
	"strconv"
	"strings"

	"golang.org/x/tools/go/ssa"
)

func init() {
	register(&Rule{ID: "SIB-3", Doc: "row term: the string every printer hands to the writer per node is name⧺\"\\n\" under isRoot and branch⧺\" \"⧺name⧺\"\\n\" otherwise (default, fused, colourising printers; the tinywasm grower bakes the same term into the branch that its printer concatenates); WalkerNode.Row is the same term without the newline, Branch/Name/Path/Level/HasChild read the corresponding node facts", Run: ruleSIB3})
	register(&Rule{ID: "SIB-5", Doc: "generator siblings: in every line loop the scanner's text reaches nodeGenerator.generate, its error leads to an error exit with that error, a nil node continues, a root starts a new stack and is recorded, an item without an open root yields the nil-stack error through a live test, anything else is attached to the current stack, and every recorded root is handed over (before being overwritten where several roots can occur, and after the loop)", Run: ruleSIB5})
	register(&Rule{ID: "C01-SEL", Doc: "connector selection: the last/intermediate 'directly' string is appended to the node's own branch under isLastOfHierarchy(node) true/false; the 'indirectly' string is placed before the node's branch under isLastOfHierarchy(ancestor); the ancestor walks parent links from node.parent up to (excluding) the root; isLastOfHierarchy compares the node with the last element of its parent's children", Run: ruleC01SEL})
	register(&Rule{ID: "C01-NAME", Doc: "name as written: between the scanned line and Node.name a list row passes only through the cut at the bullet and transformers that remove at most one leading space; lossy transformers (Trim, TrimSpace, Fields, Replace, case mapping) are violations", Run: ruleC01NAME})
}

// ---------------------------------------------------------------------------------------------
// terms

type termer struct {
	p       *Prog
	node    ssa.Value // the node whose facts are abstracted as n
	byIndex bool      // name parameters/free variables by position, indices as *, loop phis as φ
}

func (t *termer) nodeTerm(v ssa.Value) string {
	if t.node != nil && sameVar(v, t.node) {
		return "n"
	}
	return t.term(v, 0)
}

func (t *termer) term(v ssa.Value, d int) string {
	if d > 10 {
		return "…"
	}
	v = stripConv(v)
	if t.node != nil && sameVar(v, t.node) {
		return "n"
	}
	switch x := v.(type) {
	case *ssa.Const:
		if s, ok := constString(x); ok {
			return strconv.Quote(s)
		}
		return describeValue(x)
	case *ssa.Parameter:
		if t.byIndex {
			return fmt.Sprintf("p%d", inputIndex(x.Parent(), x))
		}
		return x.Name()
	case *ssa.FreeVar:
		if t.byIndex {
			return fmt.Sprintf("f%d", inputIndex(x.Parent(), x)-len(x.Parent().Params))
		}
		return x.Name()
	case *ssa.BinOp:
		if x.Op == token.ADD {
			if b, ok := x.Type().Underlying().(*types.Basic); ok && b.Info()&types.IsString != 0 {
				return "cat(" + strings.Join(t.catParts(x, d), ",") + ")"
			}
		}
		return "(" + t.term(x.X, d+1) + x.Op.String() + t.term(x.Y, d+1) + ")"
	case *ssa.UnOp:
		if x.Op == token.MUL {
			if fa, ok := x.X.(*ssa.FieldAddr); ok {
				return fieldName(fa.X.Type(), fa.Field) + "(" + t.term(fa.X, d+1) + ")"
			}
			if ia, ok := x.X.(*ssa.IndexAddr); ok {
				if t.byIndex {
					if _, isConst := ia.Index.(*ssa.Const); !isConst {
						return "at(" + t.term(ia.X, d+1) + ",*)"
					}
				}
				return "at(" + t.term(ia.X, d+1) + "," + t.term(ia.Index, d+1) + ")"
			}
			if r := resolve(x); r != ssa.Value(x) {
				return t.term(r, d+1)
			}
			return "load(" + describeValue(x.X) + ")"
		}
		return x.Op.String() + t.term(x.X, d+1)
	case *ssa.FieldAddr:
		return "&" + fieldName(x.X.Type(), x.Field) + "(" + t.term(x.X, d+1) + ")"
	case *ssa.Field:
		return fieldName(x.X.Type(), x.Field) + "(" + t.term(x.X, d+1) + ")"
	case *ssa.Extract:
		return fmt.Sprintf("ext%d(%s)", x.Index, t.term(x.Tuple, d+1))
	case *ssa.Call:
		com := x.Common()
		name := ""
		if f := com.StaticCallee(); f != nil {
			name = fname(f)
			if !t.p.InModule(f) {
				name = pkgOfFunc(f).Pkg.Name() + "." + fname(f)
			}
			if f.String() == "fmt.Sprintf" {
				if s, ok := t.sprintf(x, d); ok {
					return s
				}
			}
		} else if com.IsInvoke() {
			name = methodName(com.Method)
		} else if b, ok := com.Value.(*ssa.Builtin); ok {
			name = b.Name()
		} else {
			name = "dyn:" + describeValue(com.Value)
		}
		var args []string
		for _, a := range callArgs(com) {
			if elems, ok := variadicElems(a); ok && len(elems) > 0 {
				for _, e := range elems {
					args = append(args, t.term(e, d+1))
				}
				continue
			}
			args = append(args, t.term(a, d+1))
		}
		return name + "(" + strings.Join(args, ",") + ")"
	case *ssa.Phi:
		if t.byIndex && inLoop(x) {
			return "φ"
		}
		var parts []string
		for _, c := range t.phiCases(x, d) {
			parts = append(parts, c.cond+"?"+c.term)
		}
		sort.Strings(parts)
		return "phi{" + strings.Join(parts, ";") + "}"
	case *ssa.IndexAddr:
		return "&" + t.term(x.X, d+1) + "[" + t.term(x.Index, d+1) + "]"
	case *ssa.Slice:
		return t.term(x.X, d+1) + "[:]"
	case *ssa.Alloc:
		return "new(" + relType(x.Type().(*types.Pointer).Elem()) + ")"
	}
	return describeValue(v)
}

func (t *termer) catParts(b *ssa.BinOp, d int) []string {
	var out []string
	var rec func(v ssa.Value)
	rec = func(v ssa.Value) {
		if bb, ok := stripConv(v).(*ssa.BinOp); ok && bb.Op == token.ADD {
			rec(bb.X)
			rec(bb.Y)
			return
		}
		out = append(out, t.term(v, d+1))
	}
	rec(b.X)
	rec(b.Y)
	// merge adjacent string constants
	var merged []string
	for _, s := range out {
		if len(merged) > 0 && strings.HasPrefix(s, `"`) && strings.HasPrefix(merged[len(merged)-1], `"`) {
			a, _ := strconv.Unquote(merged[len(merged)-1])
			b2, _ := strconv.Unquote(s)
			merged[len(merged)-1] = strconv.Quote(a + b2)
			continue
		}
		merged = append(merged, s)
	}
	return merged
}

func (t *termer) sprintf(c *ssa.Call, d int) (string, bool) {
	// fmt.Fprintf(w, format, …): the same text, formatted straight into the writer
	off := 0
	if calleeFullName(c.Common()) == "fmt.Fprintf" {
		off = 1
	}
	if len(c.Common().Args) < off+2 {
		return "", false
	}
	format, ok := constString(c.Common().Args[off])
	if !ok {
		return "", false
	}
	elems, ok := variadicElems(c.Common().Args[off+1])
	if !ok {
		return "", false
	}
	var parts []string
	lit := ""
	ai := 0
	for i := 0; i < len(format); i++ {
		if format[i] != '%' || i+1 >= len(format) {
			lit += string(format[i])
			continue
		}
		i++
		switch format[i] {
		case '%':
			lit += "%"
		case 's', 'd', 'v':
			if lit != "" {
				parts = append(parts, strconv.Quote(lit))
				lit = ""
			}
			if ai >= len(elems) {
				return "", false
			}
			parts = append(parts, t.term(elems[ai], d+1))
			ai++
		default:
			return "", false
		}
	}
	if lit != "" {
		parts = append(parts, strconv.Quote(lit))
	}
	return "cat(" + strings.Join(parts, ",") + ")", true
}

type phiCase struct {
	cond string
	term string
}

// phiCases labels each incoming edge with the branch conditions that distinguish it.
func (t *termer) phiCases(ph *ssa.Phi, d int) []phiCase {
	type edgeConds map[string]bool
	all := make([]edgeConds, len(ph.Edges))
	for i := range ph.Edges {
		pred := ph.Block().Preds[i]
		ec := edgeConds{}
		for _, g := range guardsOf(pred) {
			c, pol := flattenCond(g.Cond, g.Pol)
			ec[condText(t, c, pol, d)] = true
		}
		if iff, ok := pred.Instrs[len(pred.Instrs)-1].(*ssa.If); ok && pred.Succs[0] != pred.Succs[1] {
			c, pol := flattenCond(iff.Cond, pred.Succs[0] == ph.Block())
			ec[condText(t, c, pol, d)] = true
		}
		all[i] = ec
	}
	var out []phiCase
	for i, e := range ph.Edges {
		var conds []string
		for c := range all[i] {
			common := true
			for j := range all {
				if !all[j][c] {
					common = false
				}
			}
			if !common {
				conds = append(conds, c)
			}
		}
		sort.Strings(conds)
		out = append(out, phiCase{strings.Join(conds, "&"), t.term(e, d+1)})
	}
	return out
}

func condText(t *termer, c ssa.Value, pol bool, d int) string {
	s := t.term(c, d+1)
	if !pol {
		return "!" + s
	}
	return s
}

// rowCases: classify a per-node string value into its root / non-root terms (normalised on node n).
// The value must be a 2-way phi (or a single term under a dominating isRoot guard).
func rowCases(p *Prog, v ssa.Value, at ssa.Instruction) (map[string]string, string) {
	v = stripConv(v)
	out := map[string]string{}
	ph, ok := v.(*ssa.Phi)
	if !ok {
		return nil, "the row is not selected by a branch on isRoot (it is " + describeValue(v) + ")"
	}
	// find the node: argument of the isRoot call in the distinguishing conditions
	var node ssa.Value
	for i := range ph.Edges {
		pred := ph.Block().Preds[i]
		var conds []ssa.Value
		for _, g := range guardsOf(pred) {
			conds = append(conds, g.Cond)
		}
		if iff, ok := pred.Instrs[len(pred.Instrs)-1].(*ssa.If); ok {
			conds = append(conds, iff.Cond)
		}
		for _, c := range conds {
			cc, _ := flattenCond(c, true)
			if call, ok := cc.(*ssa.Call); ok && call.Common().StaticCallee() != nil && fname(call.Common().StaticCallee()) == "isRoot" {
				node = call.Common().Args[0]
			}
		}
	}
	if node == nil {
		return nil, "no isRoot test selects the row"
	}
	t := &termer{p: p, node: node}
	for _, c := range t.phiCases(ph, 0) {
		switch c.cond {
		case "isRoot(n)":
			out["root"] = c.term
		case "!isRoot(n)":
			out["child"] = c.term
		default:
			out["?"+c.cond] = c.term
		}
	}
	return out, ""
}

var sameFieldCompare = regexp.MustCompile(`^\((\w+)\((n)\)==(\w+)\((at\(.*\))\)\)$`)

const (
	wantRootLine  = `cat(name(n),"\n")`
	wantChildLine = `cat(branch(n)," ",name(n),"\n")`
)

func checkRow(cases map[string]string, nameAtom string, newline bool) string {
	root, child := wantRootLine, wantChildLine
	if !newline {
		root, child = "name(n)", `cat(branch(n)," ",name(n))`
	}
	root = strings.ReplaceAll(root, "name(n)", nameAtom)
	child = strings.ReplaceAll(child, "name(n)", nameAtom)
	if !newline && root == nameAtom {
		// single atom: no cat()
	}
	var problems []string
	if cases["root"] != root {
		problems = append(problems, fmt.Sprintf("root line is %s, expected %s", cases["root"], root))
	}
	if cases["child"] != child {
		problems = append(problems, fmt.Sprintf("non-root line is %s, expected %s", cases["child"], child))
	}
	for k := range cases {
		if strings.HasPrefix(k, "?") {
			problems = append(problems, "the row also depends on "+strings.TrimPrefix(k, "?"))
		}
	}
	sort.Strings(problems)
	return strings.Join(problems, "; ")
}

// formatObligations: text that contains what the user wrote (names, branch strings, whole reports) is written as
// data.  Handed to a printf-style function as the *format*, every '%' in it is read as a verb ("100%_done" comes out
// as "100%!_(MISSING)done").  Every call of the fmt printf family in the module has a constant format.
func formatObligations(w *World, l *obs) {
	for _, p := range []*Prog{w.D(), w.W()} {
		l.cfg = p.Cfg.Name
		n, nBad := 0, 0
		for _, fn := range p.ModFuncs {
			if p.Cfg.Name == "W" && !wOnlyFunc(w, fn) {
				continue
			}
			fn := fn
			allInstrs(fn, func(in ssa.Instruction) {
				c, ok := in.(ssa.CallInstruction)
				if !ok {
					return
				}
				f := c.Common().StaticCallee()
				if f == nil || f.Pkg == nil || p.InModule(f) {
					return
				}
				idx := -1
				switch f.String() {
				case "fmt.Printf", "fmt.Sprintf", "fmt.Errorf", "(*github.com/fatih/color.Color).Printf", "(*github.com/fatih/color.Color).Sprintf":
					idx = 0
				case "fmt.Fprintf", "fmt.Appendf", "(*github.com/fatih/color.Color).Fprintf":
					idx = 1
				default:
					return
				}
				if f.Signature.Recv() != nil {
					idx++
				}
				if idx >= len(c.Common().Args) {
					return
				}
				n++
				if _, isConst := stripConv(c.Common().Args[idx]).(*ssa.Const); isConst {
					return
				}
				// a printf-style wrapper: the format is a parameter and every call site hands in a constant
				if prm, isP := resolve(c.Common().Args[idx]).(*ssa.Parameter); isP && prm.Parent() == fn && fn.Parent() == nil {
					pi := paramIndex(fn, prm)
					callers := p.Callers(fn)
					all := len(callers) > 0 && pi >= 0
					for _, ci := range callers {
						args := callArgs(ci.Common())
						if pi >= len(args) {
							all = false
							continue
						}
						if _, isC := stripConv(args[pi]).(*ssa.Const); !isC {
							all = false
						}
					}
					if all {
						return
					}
				}
				nBad++
				l.bad(p.FuncID(fn), "printf-style calls have a constant format", p.InstrPos(in), "the format of "+f.String()+" is the value "+describeValue(c.Common().Args[idx])+", not a constant: text built from node names or branch strings is interpreted as a format, so a '%' the user wrote is mangled (and the arguments are misread)", "format")
			})
		}
		if nBad == 0 {
			l.ok("-", "printf-style calls have a constant format", "-", fmt.Sprintf("%d calls of the printf family, each with a constant format string", n), n > 0, "format")
		}
	}
}

func ruleSIB3(w *World) []Ob {
	l := &obs{rule: "SIB-3"}
	formatObligations(w, l)
	d := w.D()
	l.cfg = "D"
	// (a) row writers: every library function that writes a string built from a node's name to a writer
	// it was handed must write exactly the row term; the two text printers must reach such a writer
	rowWriters := map[*ssa.Function]bool{}
	for _, fn := range libFuncs(d) {
		var cur *ssa.Parameter
		for _, prm := range fn.Params {
			if isNodePtr(prm.Type()) && cur == nil {
				cur = prm
			}
		}
		if cur == nil {
			continue
		}
		allInstrs(fn, func(in ssa.Instruction) {
			c, ok := in.(*ssa.Call)
			if !ok {
				return
			}
			f := c.Common().StaticCallee()
			var rowv ssa.Value
			if f == nil && c.Common().IsInvoke() && len(c.Common().Args) == 1 && (c.Common().Method.Name() == "Write" || c.Common().Method.Name() == "WriteString") {
				// w.Write(row) on the writer itself
				rowv = c.Common().Args[0]
			} else {
				if f == nil || d.InModule(f) || classifyExternal(f) != EffWriteGiven || len(c.Common().Args) < 2 {
					return
				}
				for _, a := range c.Common().Args[1:] {
					if elems, ok := variadicElems(a); ok && len(elems) == 1 {
						rowv = elems[0]
					} else if b, ok := a.Type().Underlying().(*types.Basic); ok && b.Info()&types.IsString != 0 {
						rowv = a
					} else if isByteSlice(a.Type()) {
						rowv = a
					}
				}
			}
			if rowv == nil {
				return
			}
			// the row kept in a field / variable just filled in this block (x.row = appendRow(x.row[:0], n); w.Write(x.row))
			if ld, isL := isLoad(stripConv(rowv)); isL {
				// … or behind a pointer handed down: *row = appendRow((*row)[:0], n); w.Write(*row)
				if _, isFA := ld.(*ssa.FieldAddr); !isFA {
					for _, in2 := range c.Block().Instrs[:instrIndex(c)] {
						if st, isSt := in2.(*ssa.Store); isSt && st.Addr == ld {
							rowv = st.Val
						}
					}
				}
				if fa, isFA := ld.(*ssa.FieldAddr); isFA {
					for _, in2 := range c.Block().Instrs[:instrIndex(c)] {
						if st, isSt := in2.(*ssa.Store); isSt {
							if f2, ok := st.Addr.(*ssa.FieldAddr); ok && f2.Field == fa.Field && sameVar(f2.X, fa.X) {
								rowv = st.Val
							}
						}
					}
				}
			}
			ev := newCaseEval(d, cur)
			cs := ev.cases(rowv, 0)
			mentions := false
			for _, cc := range cs {
				if strings.Contains(cc.term, "name(n)") {
					mentions = true
				}
			}
			if !mentions {
				return
			}
			groups := byAtom(cs, "isRoot(n)")
			var problems []string
			// the row must be written as data: handed to a printf-style function as the *format*, every '%' in a
			// node name or branch string is read as a verb
			if f != nil && strings.HasSuffix(f.Name(), "f") && f.Pkg != nil && f.Pkg.Pkg.Path() == "fmt" && len(c.Common().Args) >= 2 && c.Common().Args[1] == rowv {
				if _, isConst := rowv.(*ssa.Const); !isConst {
					problems = append(problems, "the row is passed to "+f.Name()+" as its format string: a '%' in a node name or branch string is interpreted as a formatting verb")
				}
			}
			if len(groups["true"]) != 1 || groups["true"][0] != wantRootLine {
				problems = append(problems, fmt.Sprintf("root line is %v, expected %s", groups["true"], wantRootLine))
			}
			if len(groups["false"]) != 1 || groups["false"][0] != wantChildLine {
				problems = append(problems, fmt.Sprintf("non-root line is %v, expected %s", groups["false"], wantChildLine))
			}
			if len(groups["*"]) > 0 {
				problems = append(problems, fmt.Sprintf("a line %v is written regardless of isRoot", groups["*"]))
			}
			name := d.FuncID(fn)
			if len(problems) > 0 {
				l.bad(name, "row written per node", d.InstrPos(c), strings.Join(problems, "; "), "row")
			} else {
				rowWriters[fn] = true
				l.ok(name, "row written per node", d.InstrPos(c), "isRoot ? name+\"\\n\" : branch+\" \"+name+\"\\n\"", true, "row")
			}
		})
	}
	// rows written piece by piece (branch, blank, name, newline as separate writes, directly or through a helper):
	// the concatenation along every path up to the children loop must be the row term
	// only code the text printers reach prints rows: a traversal that writes names into a builder for another purpose
	// (a cache key, a digest) is not a printer
	var textRoots []*ssa.Function
	for _, fn := range libFuncs(d) {
		rn := recvTypeName(outermost(fn))
		if strings.Contains(rn, "defaultSpreader") || strings.Contains(rn, "defaultGrowSpreader") || strings.Contains(rn, "colorizeSpreader") {
			textRoots = append(textRoots, fn)
		}
	}
	textReach := reachableFrom(d, textRoots, nil)
	for _, fn := range libFuncs(d) {
		if rowWriters[fn] || fn.Blocks == nil || !textReach[fn] {
			continue
		}
		var cur *ssa.Parameter
		for _, prm := range fn.Params {
			if isNodePtr(prm.Type()) && cur == nil {
				cur = prm
			}
		}
		if cur == nil {
			continue
		}
		seq, any := writeSequences(d, fn, cur)
		if !any {
			continue
		}
		var rows []vcase
		for _, c := range seq {
			if strings.Contains(c.term, "name(n)") {
				rows = append(rows, c)
			}
		}
		if len(rows) == 0 {
			continue
		}
		groups := byAtom(rows, "isRoot(n)")
		var problems []string
		if len(groups["true"]) != 1 || groups["true"][0] != wantRootLine {
			problems = append(problems, fmt.Sprintf("root line is %v, expected %s", groups["true"], wantRootLine))
		}
		if len(groups["false"]) != 1 || groups["false"][0] != wantChildLine {
			problems = append(problems, fmt.Sprintf("non-root line is %v, expected %s", groups["false"], wantChildLine))
		}
		if len(groups["*"]) > 0 {
			problems = append(problems, fmt.Sprintf("a line %v is written regardless of isRoot", groups["*"]))
		}
		if len(problems) > 0 {
			l.bad(d.FuncID(fn), "row written per node", d.Pos(fn.Pos()), strings.Join(problems, "; ")+" (pieces written along each path, concatenated)", "row")
		} else {
			rowWriters[fn] = true
			l.ok(d.FuncID(fn), "row written per node", d.Pos(fn.Pos()), "written in pieces: isRoot ? name+\"\\n\" : branch+\" \"+name+\"\\n\"", true, "row")
		}
	}
	for _, name := range []string{"(*gtree.defaultSpreaderSimple).spreadBranch", "(*gtree.defaultGrowSpreaderSimple).assembleAndPrint"} {
		fn := d.Func(name)
		if fn == nil {
			l.undecided(name, "printer reaches a row writer", "-", "printer not found", "row")
			continue
		}
		reaches := rowWriters[fn]
		allInstrs(fn, func(in ssa.Instruction) {
			if c, ok := in.(*ssa.Call); ok {
				if f := c.Common().StaticCallee(); f != nil && rowWriters[f] && f != fn {
					for _, a := range c.Common().Args {
						if prm, ok := resolve(a).(*ssa.Parameter); ok && isNodePtr(prm.Type()) && prm.Parent() == fn {
							reaches = true
						}
					}
				}
			}
		})
		if reaches {
			l.ok(name, "printer reaches a row writer", d.Pos(fn.Pos()), "the node's row is written by a function whose written term was checked", true, "row")
		} else {
			l.bad(name, "printer reaches a row writer", d.Pos(fn.Pos()), "the printer neither writes the row itself nor hands its node to a function that does", "row")
		}
	}
	// (b) colourising printer: initial value of the accumulated string
	for _, spec := range []struct {
		p    *Prog
		name string
	}{{d, "(*gtree.colorizeSpreaderSimple).spreadBranch"}} {
		fn := spec.p.Func(spec.name)
		byRole := func() {
			// by role: the recursive printer of the colourising spreader that is handed a sink and a node
			okRole := ""
			for _, f := range libFuncs(spec.p) {
				if f.Parent() != nil || !callsItself(f) || !strings.Contains(recvTypeName(f), "olorize") || recvTypeName(f) != "colorizeSpreaderSimple" {
					continue
				}
				var cur *ssa.Parameter
				hasSink := false
				for _, prm := range f.Params[1:] {
					if isNodePtr(prm.Type()) {
						cur = prm
					}
					if isSinkType(prm.Type()) {
						hasSink = true
					}
				}
				if cur == nil || !hasSink {
					continue
				}
				seq, any := writeSequences(spec.p, f, cur)
				if !any {
					continue
				}
				var rows []vcase
				for _, c := range seq {
					t := c.term
					for _, r := range recvNames(f) {
						t = strings.ReplaceAll(t, "("+r+",", "(R,")
					}
					rows = append(rows, vcase{c.conds, t})
				}
				g := byAtom(rows, "isRoot(n)")
				if len(g["true"]) == 1 && g["true"][0] == `cat(colorize(R,n),"\n")` && len(g["false"]) == 1 && g["false"][0] == `cat(branch(n)," ",colorize(R,n),"\n")` && len(g["*"]) == 0 {
					okRole = spec.p.FuncID(f)
					l.ok(spec.p.FuncID(f), "row accumulated per node", spec.p.Pos(f.Pos()), "written into the sink in pieces: isRoot ? colorize(n)+\"\\n\" : branch+\" \"+colorize(n)+\"\\n\", then the children", true, "row")
				} else {
					okRole = "bad"
					l.bad(spec.p.FuncID(f), "row accumulated per node", spec.p.Pos(f.Pos()), fmt.Sprintf("the colourising printer writes root %v, child %v, unconditional %v", g["true"], g["false"], g["*"]), "row")
				}
			}
			if okRole == "" {
				l.undecided(spec.name, "row accumulated per node", "-", "printer not found", "row")
			}
		}
		if fn == nil {
			byRole()
			continue
		}
		var base ssa.Value
		allInstrs(fn, func(in ssa.Instruction) {
			ph, ok := in.(*ssa.Phi)
			if !ok || !inLoop(ph) {
				return
			}
			if b, ok := ph.Type().Underlying().(*types.Basic); !ok || b.Info()&types.IsString == 0 {
				return
			}
			for _, e := range ph.Edges {
				if bo, ok := e.(*ssa.BinOp); ok && bo.Op == token.ADD && bo.X == ssa.Value(ph) {
					continue
				}
				base = e
			}
		})
		if base == nil {
			byRole() // the named printer only wraps a sink-writing recursive printer
			continue
		}
		cases, why := rowCases(spec.p, base, firstInstr(fn))
		if why == "" {
			why = checkRow(cases, "colorize(cs,n)", true)
		}
		if why != "" {
			// the same decision with the case engine: any spelling (guard building a prefix, if/else, helper) of
			// isRoot ? colorize+"\n" : branch+" "+colorize+"\n"
			var cur *ssa.Parameter
			for _, prm := range fn.Params {
				if isNodePtr(prm.Type()) && cur == nil {
					cur = prm
				}
			}
			if cur != nil {
				ev := newCaseEval(spec.p, cur)
				groups := byAtom(ev.cases(base, 0), "isRoot(n)")
				norm := func(ts []string) []string {
					var out []string
					for _, t := range ts {
						for _, r := range recvNames(fn) {
							t = strings.ReplaceAll(t, "("+r+",", "(R,")
						}
						out = append(out, t)
					}
					return out
				}
				gt, gf := norm(groups["true"]), norm(groups["false"])
				if len(gt) == 1 && gt[0] == `cat(colorize(R,n),"\n")` && len(gf) == 1 && gf[0] == `cat(branch(n)," ",colorize(R,n),"\n")` && len(groups["*"]) == 0 {
					why = ""
				} else {
					why += fmt.Sprintf(" (as cases: root %v, child %v, unconditional %v)", gt, gf, groups["*"])
				}
			}
		}
		if why != "" {
			l.bad(spec.name, "row accumulated per node", spec.p.Pos(fn.Pos()), why, "row")
		} else {
			l.ok(spec.name, "row accumulated per node", spec.p.Pos(fn.Pos()), "isRoot ? colorize(n)+\"\\n\" : branch+\" \"+colorize(n)+\"\\n\", children appended after it", true, "row")
		}
	}
	// (c) the dry-run report per root: row block, newline, summary, newline
	for _, spec := range []struct {
		p       *Prog
		name    string
		summary string
	}{
		{d, "(*gtree.colorizeSpreaderSimple).spread", `"\n"`},
		{d, "(*gtree.colorizeSpreaderSimple).spreadIter$1", `"\n"`},
		{d, "(*gtree.colorizeSpreaderPipeline).spread$1", `"\n"`},
		{w.W(), "(*gtree.colorizeSpreader).spread", ``},
	} {
		p := spec.p
		l.cfg = p.Cfg.Name
		fn := p.Func(spec.name)
		if fn == nil {
			l.undecided(spec.name, "dry-run report per root", "-", "function not found", "report")
			continue
		}
		found := false
		scan := []*ssa.Function{fn}
		// helpers the report was moved into: everything reachable (calls and function values) that is not one of
		// the vocabulary functions the report term is stated in
		stop := func(f *ssa.Function) bool {
			switch fname(outermost(f)) {
			case "spreadBranch", "summary", "write", "colorize":
				return f != fn
			}
			return false
		}
		var reach []*ssa.Function
		for f := range reachableFrom(p, []*ssa.Function{fn}, stop) {
			if f != fn {
				reach = append(reach, f)
			}
		}
		sort.Slice(reach, func(i, j int) bool { return p.FuncID(reach[i]) < p.FuncID(reach[j]) })
		scan = append(scan, reach...)
		for _, sf := range scan {
			allInstrs(sf, func(in ssa.Instruction) {
				c, ok := in.(*ssa.Call)
				if !ok || (calleeFullName(c.Common()) != "fmt.Sprintf" && !(calleeFullName(c.Common()) == "fmt.Fprintf" && isSinkType(c.Common().Args[0].Type()))) {
					return
				}
				t := &termer{p: p}
				got, _ := t.sprintf(c, 0)
				if calleeFullName(c.Common()) == "fmt.Fprintf" && !strings.Contains(got, "summary(") {
					return
				}
				found = true
				got = normaliseReport(got, recvNames(sf, fn)...)
				want := `cat(spreadBranch(R,ROOT),"\n",summary(R),"\n")`
				if spec.summary == "" {
					// the tinywasm summary carries its own trailing newline
					want = `cat(spreadBranch(R,ROOT),"\n",summary(R))`
				}
				if got == want {
					l.ok(spec.name, "dry-run report per root", p.InstrPos(c), got, true, "report")
				} else {
					l.bad(spec.name, "dry-run report per root", p.InstrPos(c), "the per-root report is "+got+", expected "+want, "report")
				}
			})
		}
		if !found {
			// builder style: a function that is handed the root writes print(root), "\n", summary(), ["\n"] to a sink
			for _, sf := range scan {
				var cur *ssa.Parameter
				for _, prm := range sf.Params {
					if isNodePtr(prm.Type()) {
						cur = prm
					}
				}
				if cur == nil || callsItself(sf) {
					continue
				}
				seq, any := writeSequences(p, sf, cur)
				if !any {
					continue
				}
				var terms []string
				for _, c := range seq {
					t := c.term
					for _, r := range recvNames(sf, fn) {
						t = strings.ReplaceAll(t, "("+r+")", "(R)")
					}
					if strings.Contains(t, "summary(") {
						terms = append(terms, t)
					}
				}
				terms = dedup(terms)
				if len(terms) == 0 {
					continue
				}
				found = true
				want := `cat(print(n),"\n",summary(R),"\n")`
				if spec.summary == "" {
					want = `cat(print(n),"\n",summary(R))`
				}
				if len(terms) == 1 && terms[0] == want {
					l.ok(spec.name, "dry-run report per root", p.Pos(sf.Pos()), "written to the sink in pieces by "+fname(sf)+": "+want, true, "report")
				} else {
					l.bad(spec.name, "dry-run report per root", p.Pos(sf.Pos()), fmt.Sprintf("the per-root report written by %s is %v, expected %s", fname(sf), terms, want), "report")
				}
			}
		}
		if !found {
			// the same inside the per-root loop of the spreader itself: one iteration writes print(root), "\n", summary()
			for _, sf := range scan {
				var printCall *ssa.Call
				allInstrs(sf, func(in ssa.Instruction) {
					c, ok := in.(*ssa.Call)
					if !ok || c.Common().StaticCallee() == nil || !p.InModule(c.Common().StaticCallee()) || !callsItself(c.Common().StaticCallee()) || !inLoop(c) {
						return
					}
					hasSink, hasNode := false, false
					for _, a := range c.Common().Args {
						if isSinkType(a.Type()) {
							hasSink = true
						}
						if isNodePtr(a.Type()) {
							hasNode = true
						}
					}
					if hasSink && hasNode {
						printCall = c
					}
				})
				if printCall == nil {
					continue
				}
				var header *ssa.BasicBlock
				for b := printCall.Block(); b != nil; b = b.Idom() {
					isHead := false
					for _, pr := range b.Preds {
						if b.Dominates(pr) {
							isHead = true
						}
					}
					if isHead {
						header = b
						break
					}
				}
				if header == nil {
					continue
				}
				var nodeArg ssa.Value
				for _, a := range printCall.Common().Args {
					if isNodePtr(a.Type()) {
						nodeArg = a
					}
				}
				seq, any := writeSequencesFrom(p, sf, nodeArg, header)
				if !any {
					continue
				}
				var terms []string
				for _, c := range seq {
					t := c.term
					for _, r := range recvNames(sf, fn) {
						t = strings.ReplaceAll(t, "("+r+")", "(R)")
					}
					if strings.Contains(t, "summary(") {
						terms = append(terms, t)
					}
				}
				terms = dedup(terms)
				if len(terms) == 0 {
					continue
				}
				found = true
				want := `cat(print(n),"\n",summary(R),"\n")`
				if spec.summary == "" {
					want = `cat(print(n),"\n",summary(R))`
				}
				if len(terms) == 1 && terms[0] == want {
					l.ok(spec.name, "dry-run report per root", p.InstrPos(printCall), "one iteration of the per-root loop writes "+want+" to the sink", true, "report")
				} else {
					l.bad(spec.name, "dry-run report per root", p.InstrPos(printCall), fmt.Sprintf("one iteration of the per-root loop writes %v, expected %s", terms, want), "report")
				}
			}
		}
		if !found {
			l.bad(spec.name, "dry-run report per root", p.Pos(fn.Pos()), "no fmt.Sprintf assembles tree text and summary", "report")
		}
	}
	// summary line format
	for _, spec := range []struct {
		p    *Prog
		name string
		want string
	}{
		{d, "(*gtree.colorizeSpreaderSimple).summary", `cat(current(dirCounter(R))," directories, ",current(fileCounter(R))," files")`},
		{w.W(), "(*gtree.colorizeSpreader).summary", `cat(current(dirCounter(R))," directories, ",current(fileCounter(R))," files\n")`},
	} {
		p := spec.p
		l.cfg = p.Cfg.Name
		fn := p.Func(spec.name)
		if fn == nil {
			l.undecided(spec.name, "summary line", "-", "function not found", "report")
			continue
		}
		got := ""
		allInstrs(fn, func(in ssa.Instruction) {
			if c, ok := in.(*ssa.Call); ok && calleeFullName(c.Common()) == "fmt.Sprintf" {
				t := &termer{p: p}
				got, _ = t.sprintf(c, 0)
			}
		})
		got = normaliseReport(got, recvNames(fn)...)
		if got == spec.want {
			l.ok(spec.name, "summary line", p.Pos(fn.Pos()), got, true, "report")
		} else {
			l.bad(spec.name, "summary line", p.Pos(fn.Pos()), "the summary is "+got+", expected "+spec.want+" (directories first, then files)", "report")
		}
	}
	// (d) tinywasm: the grower bakes the row into the branch; the printer concatenates branches
	pw := w.W()
	l.cfg = "W"
	if fn := pw.Func("(*gtree.defaultGrower).assembleBranchFinally"); fn != nil {
		got := map[string]string{}
		allInstrs(fn, func(in ssa.Instruction) {
			c, ok := nodeMethodCall(in, "setBranch")
			if !ok {
				return
			}
			node := c.Common().Args[0]
			t := &termer{p: pw, node: node}
			elems, ok := variadicElems(c.Common().Args[1])
			if !ok {
				return
			}
			var parts []string
			for _, e := range elems {
				parts = append(parts, t.term(e, 0))
			}
			side := "?"
			for _, g := range guardsOf(c.Block()) {
				cc, pol := flattenCond(g.Cond, g.Pol)
				if call, ok := cc.(*ssa.Call); ok && call.Common().StaticCallee() != nil && fname(call.Common().StaticCallee()) == "isRoot" && sameVar(call.Common().Args[0], node) {
					if pol {
						side = "root"
					} else {
						side = "child"
					}
				}
			}
			got[side] = "cat(" + strings.Join(parts, ",") + ")"
		})
		why := checkRow(got, "name(n)", true)
		if why != "" {
			l.bad(pw.FuncID(fn), "row baked into the branch", pw.Pos(fn.Pos()), why, "row")
		} else {
			l.ok(pw.FuncID(fn), "row baked into the branch", pw.Pos(fn.Pos()), "setBranch(name,\"\\n\") for roots, setBranch(branch,\" \",name,\"\\n\") otherwise", true, "row")
		}
	} else {
		l.undecided("(*gtree.defaultGrower).assembleBranchFinally", "row baked into the branch", "-", "function not found", "row")
	}
	// the tinywasm printers, by role: the recursive functions of the variant that take a node and return its text
	var wPrinters []*ssa.Function
	for _, f := range libFuncs(pw) {
		if !wOnlyFunc(w, f) || f.Parent() != nil || !callsItself(f) {
			continue
		}
		sinkStyle := false
		for _, prm := range f.Params {
			if isSinkType(prm.Type()) {
				sinkStyle = true
			}
		}
		if !sinkStyle {
			if f.Signature.Results().Len() != 1 {
				continue
			}
			if b, ok := f.Signature.Results().At(0).Type().Underlying().(*types.Basic); !ok || b.Info()&types.IsString == 0 {
				continue
			}
		}
		hasNode := false
		for _, prm := range f.Params {
			if isNodePtr(prm.Type()) && !(f.Signature.Recv() != nil && prm == f.Params[0]) {
				hasNode = true
			}
		}
		if hasNode {
			wPrinters = append(wPrinters, f)
		}
	}
	if len(wPrinters) < 2 {
		l.undecided("tinywasm printers", "printer concatenates baked branches", "-", fmt.Sprintf("expected the text and the dry-run printer of the variant (recursive node → string functions), found %d", len(wPrinters)), "row")
	}
	for _, fn := range wPrinters {
		name := pw.FuncID(fn)
		var base ssa.Value
		allInstrs(fn, func(in ssa.Instruction) {
			ph, ok := in.(*ssa.Phi)
			if !ok || !inLoop(ph) {
				return
			}
			if b, ok := ph.Type().Underlying().(*types.Basic); !ok || b.Info()&types.IsString == 0 {
				return
			}
			for _, e := range ph.Edges {
				if bo, ok := e.(*ssa.BinOp); ok && bo.Op == token.ADD && bo.X == ssa.Value(ph) {
					continue
				}
				base = e
			}
		})
		okBase := false
		if c, ok := base.(*ssa.Call); ok && c.Common().StaticCallee() != nil && fname(c.Common().StaticCallee()) == "branch" {
			if prm, ok := c.Common().Args[0].(*ssa.Parameter); ok && isNodePtr(prm.Type()) {
				okBase = true
			}
		}
		if base == nil {
			// sink style: the only thing written before the children is the node's baked branch
			var cur *ssa.Parameter
			for _, prm := range fn.Params {
				if isNodePtr(prm.Type()) && !(fn.Signature.Recv() != nil && prm == fn.Params[0]) {
					cur = prm
				}
			}
			if cur != nil {
				if seq, any := writeSequences(pw, fn, cur); any {
					okBase = len(seq) > 0
					for _, c := range seq {
						if c.term != "cat(branch(n))" && c.term != "branch(n)" {
							okBase = false
						}
					}
				}
			}
		}
		if okBase {
			l.ok(name, "printer concatenates baked branches", pw.Pos(fn.Pos()), "current.branch() followed by the children's strings", true, "row")
		} else {
			l.bad(name, "printer concatenates baked branches", pw.Pos(fn.Pos()), "the tinywasm printer no longer starts each node's text with exactly current.branch()", "row")
		}
	}
	// (e) WalkerNode accessors
	l.cfg = "D"
	acc := map[string]string{
		"Name":     "name(origin(wn))",
		"Branch":   "branch(origin(wn))",
		"Level":    "hierarchy(origin(wn))",
		"Path":     "path(origin(wn))",
		"HasChild": "hasChild(origin(wn))",
	}
	for _, m := range sortedKeys(acc) {
		fn := d.Func("(*gtree.WalkerNode)." + m)
		if fn == nil {
			l.undecided("(*gtree.WalkerNode)."+m, "accessor", "-", "not found", "accessor")
			continue
		}
		got := ""
		n := 0
		allInstrs(fn, func(in ssa.Instruction) {
			if r, ok := in.(*ssa.Return); ok {
				n++
				got = (&termer{p: d}).term(rr(r)[0], 0)
			}
		})
		if n == 1 && got == acc[m] {
			l.ok(d.FuncID(fn), "accessor", d.Pos(fn.Pos()), got, true, "accessor")
		} else if terms := nonNilCaseTerms(d, fn); len(terms) == 1 && terms[0] == acc[m] {
			l.ok(d.FuncID(fn), "accessor", d.Pos(fn.Pos()), acc[m]+" wherever the walker node and its node are not nil (zero value otherwise)", true, "accessor")
		} else {
			l.bad(d.FuncID(fn), "accessor", d.Pos(fn.Pos()), fmt.Sprintf("returns %s (cases without nil guards: %v), expected %s", got, nonNilCaseTerms(d, fn), acc[m]), "accessor")
		}
	}
	if fn := d.Func("(*gtree.WalkerNode).Row"); fn != nil {
		var rv ssa.Value
		n := 0
		allInstrs(fn, func(in ssa.Instruction) {
			if r, ok := in.(*ssa.Return); ok {
				n++
				rv = rr(r)[0]
			}
		})
		// two returns: one per side
		got := map[string]string{}
		if n == 2 {
			allInstrs(fn, func(in ssa.Instruction) {
				r, ok := in.(*ssa.Return)
				if !ok {
					return
				}
				side := "?"
				var node ssa.Value
				for _, g := range guardsOf(r.Block()) {
					cc, pol := flattenCond(g.Cond, g.Pol)
					if call, ok := cc.(*ssa.Call); ok && call.Common().StaticCallee() != nil && fname(call.Common().StaticCallee()) == "isRoot" {
						node = call.Common().Args[0]
						if pol {
							side = "root"
						} else {
							side = "child"
						}
					}
				}
				t := &termer{p: d, node: node}
				got[side] = t.term(rr(r)[0], 0)
			})
		} else if n == 1 {
			got, _ = rowCases(d, rv, firstInstr(fn))
		}
		why := checkRow(got, "name(n)", false)
		if why != "" {
			// the same through the case engine, ignoring the nil-guard cases
			ev := newCaseEval(d, nil)
			var all []vcase
			allInstrs(fn, func(in ssa.Instruction) {
				if r, ok := in.(*ssa.Return); ok {
					all = append(all, ev.argCases([]ssa.Value{rr(r)[0]}, ev.guardConds(r.Block()))...)
				}
			})
			var live []vcase
			for _, c := range all {
				if os.Getenv("GTCHECK_DEBUG") != "" {
					fmt.Fprintf(os.Stderr, "DEBUG Row: %v -> %s\n", c.conds, c.term)
				}
				if !hasNilGuard(c) {
					live = append(live, c)
				}
			}
			atom := "isRoot(origin(wn))"
			for _, c := range live {
				for a := range c.conds {
					if a != atom && strings.Contains(a, "isRoot(origin(wn))") {
						atom = a // the test reached through a nil-guarding accessor: same decision on the live paths
					}
				}
			}
			g := byAtom(live, atom)
			if os.Getenv("GTCHECK_DEBUG") != "" {
				fmt.Fprintf(os.Stderr, "DEBUG Row groups (%s): %v\n", atom, g)
			}
			if len(g["true"]) == 1 && g["true"][0] == "name(origin(wn))" && len(g["false"]) == 1 && g["false"][0] == `cat(branch(origin(wn))," ",name(origin(wn)))` && len(g["*"]) == 0 {
				why = ""
			}
		}
		if why != "" {
			l.bad(d.FuncID(fn), "Row = Branch + space + Name (Name for a root)", d.Pos(fn.Pos()), why, "accessor")
		} else {
			l.ok(d.FuncID(fn), "Row = Branch + space + Name (Name for a root)", d.Pos(fn.Pos()), "isRoot ? name : branch+\" \"+name", true, "accessor")
		}
	}
	// Node.path: root → name, else the assembled path; hasChild: len(children) > 0; isRoot: hierarchy == 1
	for _, spec := range []struct{ name, want string }{
		{"(*gtree.Node).hasChild", "(len(children(n))>0)"},
		{"(*gtree.Node).branch", "value(&brnch(n))"},
	} {
		fn := d.Func(spec.name)
		if fn == nil {
			continue
		}
		got := ""
		allInstrs(fn, func(in ssa.Instruction) {
			if r, ok := in.(*ssa.Return); ok {
				got = (&termer{p: d, node: fn.Params[0]}).term(rr(r)[0], 0)
			}
		})
		if normTerm(got) == normTerm(spec.want) {
			l.ok(spec.name, "node fact", d.Pos(fn.Pos()), got, true, "fact")
		} else {
			l.bad(spec.name, "node fact", d.Pos(fn.Pos()), "returns "+got+", expected "+spec.want, "fact")
		}
	}
	if fn := d.Func("(*gtree.Node).isRoot"); fn != nil {
		got := ""
		allInstrs(fn, func(in ssa.Instruction) {
			if r, ok := in.(*ssa.Return); ok {
				got = (&termer{p: d, node: fn.Params[0]}).term(rr(r)[0], 0)
			}
		})
		if got == "(hierarchy(n)==1)" {
			l.ok(d.FuncID(fn), "node fact", d.Pos(fn.Pos()), "isRoot means level 1", true, "fact")
		} else {
			l.bad(d.FuncID(fn), "node fact", d.Pos(fn.Pos()), "isRoot returns "+got+", expected hierarchy == 1", "fact")
		}
	}
	if fn := d.Func("(*gtree.Node).path"); fn != nil {
		got := map[string]string{}
		allInstrs(fn, func(in ssa.Instruction) {
			r, ok := in.(*ssa.Return)
			if !ok {
				return
			}
			side := "?"
			for _, g := range guardsOf(r.Block()) {
				cc, pol := flattenCond(g.Cond, g.Pol)
				if call, ok := cc.(*ssa.Call); ok && call.Common().StaticCallee() != nil && fname(call.Common().StaticCallee()) == "isRoot" {
					if pol {
						side = "root"
					} else {
						side = "child"
					}
				}
			}
			got[side] = (&termer{p: d, node: fn.Params[0]}).term(rr(r)[0], 0)
		})
		if got["root"] == "name(n)" && got["child"] == "path(&brnch(n))" && len(got) == 2 {
			l.ok(d.FuncID(fn), "node fact", d.Pos(fn.Pos()), "path: a root's path is its name, otherwise the assembled path", true, "fact")
		} else {
			l.bad(d.FuncID(fn), "node fact", d.Pos(fn.Pos()), fmt.Sprintf("path() returns %v", got), "fact")
		}
	}
	return l.list
}

func normTerm(s string) string { return strings.ReplaceAll(s, " ", "") }

// normaliseReport maps receiver and root variable names to R / ROOT.
func recvNames(fns ...*ssa.Function) []string {
	var out []string
	for _, f := range fns {
		f = outermost(f)
		if f.Signature.Recv() != nil && len(f.Params) > 0 {
			out = append(out, f.Params[0].Name())
		}
	}
	return out
}

func normaliseReport(s string, recvs ...string) string {
	for _, r := range append(recvs, "cs", "ds") {
		s = strings.ReplaceAll(s, "colorizeSpreaderSimple("+r+")", r)
		s = strings.ReplaceAll(s, "defaultSpreader("+r+")", r)
		s = strings.ReplaceAll(s, "("+r+",", "(R,")
		s = strings.ReplaceAll(s, "("+r+")", "(R)")
	}
	// spreadBranch(R,<anything>) → ROOT
	if i := strings.Index(s, "spreadBranch(R,"); i >= 0 {
		j := i + len("spreadBranch(R,")
		depth := 1
		k := j
		for ; k < len(s) && depth > 0; k++ {
			switch s[k] {
			case '(':
				depth++
			case ')':
				depth--
			}
		}
		s = s[:j] + "ROOT" + s[k-1:]
	}
	return s
}

// ---------------------------------------------------------------------------------------------
// C01-SEL

func ruleC01SEL(w *World) []Ob {
	l := &obs{rule: "C01-SEL"}
	for _, spec := range []struct {
		p    *Prog
		recv string
	}{{w.D(), "defaultGrowerSimple"}, {w.W(), "defaultGrower"}} {
		p := spec.p
		l.cfg = p.Cfg.Name
		for _, kind := range []string{"Directly", "Indirectly"} {
			name := "(*gtree." + spec.recv + ").assembleBranch" + kind
			fn := p.Func(name)
			if fn == nil {
				l.undecided(name, "connector selection", "-", "function not found", "select")
				continue
			}
			// node params: current (first *Node), ancestor (second, if any)
			var nodes []*ssa.Parameter
			for _, prm := range fn.Params[1:] {
				if isNodePtr(prm.Type()) {
					nodes = append(nodes, prm)
				}
			}
			if len(nodes) == 0 {
				l.undecided(name, "connector selection", p.Pos(fn.Pos()), "no *Node parameter", "select")
				continue
			}
			cur := nodes[0]
			subject := cur
			if kind == "Indirectly" {
				if len(nodes) < 2 {
					l.undecided(name, "connector selection", p.Pos(fn.Pos()), "no ancestor parameter", "select")
					continue
				}
				subject = nodes[1]
			}
			var problems []string
			ev := newCaseEval(p, cur)
			atomName := "isLastOfHierarchy(" + ev.termOf(subject) + ")"
			var all []vcase
			nSites := 0
			allInstrs(fn, func(in ssa.Instruction) {
				c, ok := nodeMethodCall(in, "setBranch")
				if !ok {
					return
				}
				nSites++
				if !sameVar(c.Common().Args[0], cur) {
					problems = append(problems, "setBranch is applied to another node than the one being assembled")
					return
				}
				elems, ok := variadicElems(c.Common().Args[1])
				if !ok {
					problems = append(problems, "setBranch arguments not recognised")
					return
				}
				all = append(all, ev.argCases(elems, ev.guardConds(c.Block()))...)
			})
			groups := byAtom(all, atomName)
			recvName := fn.Params[0].Name()
			low := strings.ToLower(kind)
			var want map[string]string
			if kind == "Directly" {
				want = map[string]string{
					"true":  "branch(n)," + low + "(lastNodeFormat(" + recvName + "))",
					"false": "branch(n)," + low + "(intermedialNodeFormat(" + recvName + "))",
				}
			} else {
				want = map[string]string{
					"true":  low + "(lastNodeFormat(" + recvName + ")),branch(n)",
					"false": low + "(intermedialNodeFormat(" + recvName + ")),branch(n)",
				}
			}
			for k, v := range want {
				if len(groups[k]) != 1 || groups[k][0] != v {
					problems = append(problems, fmt.Sprintf("when %s=%s the branch becomes %v, expected [%s]", atomName, k, groups[k], v))
				}
			}
			if len(groups["*"]) > 0 {
				problems = append(problems, fmt.Sprintf("a branch value %v does not depend on %s at all", groups["*"], atomName))
			}
			if nSites == 0 {
				problems = append(problems, "no setBranch call")
			}
			sort.Strings(problems)
			if len(problems) > 0 {
				l.bad(name, "connector selection", p.Pos(fn.Pos()), strings.Join(dedup(problems), "; "), "select")
			} else {
				pos := "appended after"
				if kind == "Indirectly" {
					pos = "placed before"
				}
				l.ok(name, "connector selection", p.Pos(fn.Pos()), "last/intermediate '"+low+"' string "+pos+" the node's branch, chosen by isLastOfHierarchy("+subject.Name()+")", true, "select")
			}
		}
		// the walk-up loop in assembleBranch
		name := "(*gtree." + spec.recv + ").assembleBranch"
		var fn *ssa.Function
		var call *ssa.Call
		for _, f := range libFuncs(p) {
			if recvTypeName(f) != spec.recv {
				continue
			}
			allInstrs(f, func(in ssa.Instruction) {
				if c, ok := in.(*ssa.Call); ok && c.Common().StaticCallee() != nil && fname(c.Common().StaticCallee()) == "assembleBranchIndirectly" && recvTypeName(c.Common().StaticCallee()) == spec.recv {
					call, fn = c, f
				}
			})
		}
		if fn != nil {
			name = p.FuncID(fn)
			construct := "ancestor walk"
			if call == nil {
				l.bad(name, construct, p.Pos(fn.Pos()), "assembleBranch no longer calls assembleBranchIndirectly for the ancestors", "walkup")
			} else {
				cur := call.Common().Args[1]
				anc := call.Common().Args[2]
				var problems []string
				ph, ok := anc.(*ssa.Phi)
				if !ok || !inLoop(call) {
					problems = append(problems, "the ancestor is not a loop variable")
				} else {
					t := &termer{p: p, node: cur}
					var edges []string
					for _, e := range ph.Edges {
						if sameVar(e, ph) {
							continue
						}
						s := t.term(e, 0)
						// parent(<phi>) → parent(A)
						if ld, isL := isLoad(stripConv(e)); isL {
							if fa, isFA := ld.(*ssa.FieldAddr); isFA && fa.X == ssa.Value(ph) {
								s = fieldName(fa.X.Type(), fa.Field) + "(A)"
							}
						}
						edges = append(edges, s)
					}
					sort.Strings(edges)
					if strings.Join(edges, "|") != "parent(A)|parent(n)" {
						problems = append(problems, "the ancestor starts at / steps through "+strings.Join(edges, " | ")+", expected node.parent then ancestor.parent")
					}
					// guarded by !isRoot(A)
					guarded := false
					for _, g := range guardsOf(call.Block()) {
						cc, pol := flattenCond(g.Cond, g.Pol)
						if c2, ok := cc.(*ssa.Call); ok && !pol && c2.Common().StaticCallee() != nil && fname(c2.Common().StaticCallee()) == "isRoot" && c2.Common().Args[0] == ssa.Value(ph) {
							guarded = true
						}
					}
					if !guarded {
						problems = append(problems, "the call is not guarded by !isRoot(ancestor): the root would contribute a continuation string or the walk would not stop")
					}
				}
				if len(problems) > 0 {
					l.bad(name, construct, p.InstrPos(call), strings.Join(problems, "; "), "walkup")
				} else {
					l.ok(name, construct, p.InstrPos(call), "ancestor := node.parent; while !isRoot(ancestor): indirectly(node, ancestor); ancestor = ancestor.parent", true, "walkup")
				}
			}
		}
	}
	// isLastOfHierarchy
	d := w.D()
	l.cfg = "D"
	if fn := d.Func("(*gtree.Node).isLastOfHierarchy"); fn != nil {
		ev := newCaseEval(d, fn.Params[0])
		var all []vcase
		allInstrs(fn, func(in ssa.Instruction) {
			if r, ok := in.(*ssa.Return); ok {
				// `if n.parent == nil || len(n.parent.children) == 0 { return false }`: the return block is reached from
				// two tests, neither of which dominates it — take each incoming edge with the condition that leads there
				if b, isC := constBool(rr(r)[0]); isC && !b && len(r.Block().Preds) > 1 && len(r.Block().Instrs) == 1 {
					split := true
					var viaEdges []vcase
					for _, pred := range r.Block().Preds {
						if len(pred.Instrs) == 0 {
							split = false
							break
						}
						iff, isIf := pred.Instrs[len(pred.Instrs)-1].(*ssa.If)
						if !isIf {
							split = false
							break
						}
						conds := ev.guardConds(pred)
						a, pol := ev.atomPol(iff.Cond, pred.Succs[0] == r.Block())
						if m, ok := mergeConds(conds, map[string]bool{a: pol}); ok {
							viaEdges = append(viaEdges, vcase{m, "false"})
						}
					}
					if split {
						all = append(all, viaEdges...)
						return
					}
				}
				all = append(all, ev.argCases([]ssa.Value{rr(r)[0]}, ev.guardConds(r.Block()))...)
			}
		})
		want := "(n==at(children(parent(n)),(len(children(parent(n)))-1)))"
		got := byAtom(all, "(parent(n)==nil)")
		norm := func(g string) string {
			// comparing one and the same field of both nodes is accepted as well (whether that field is
			// history-free is GLOB-1's business, not this rule's)
			if m := sameFieldCompare.FindStringSubmatch(normTerm(g)); m != nil && m[1] == m[3] {
				g = "(" + m[2] + "==" + m[4] + ")"
			}
			return normTerm(g)
		}
		okMain := false
		for _, c := range all {
			if v, has := c.conds["(parent(n)==nil)"]; !has || v {
				continue
			}
			if norm(strings.ReplaceAll(c.term, "&", "")) == normTerm(want) {
				okMain = true
				continue
			}
			// a defensive `false` for a parent that (impossibly) has no children is not a different decision
			emptyGuard := false
			for a, pol := range c.conds {
				if pol && strings.Contains(a, "len(children(parent(n)))") && (strings.HasSuffix(a, "==0)") || strings.HasSuffix(a, "<1)") || strings.HasSuffix(a, "-1)<0)") || strings.HasSuffix(a, "-1)==-1)")) {
					emptyGuard = true
				}
				// spelled the other way round: !(len-1 >= 0), !(len > 0)
				if !pol && strings.Contains(a, "len(children(parent(n)))") && (strings.HasSuffix(a, "-1)>=0)") || strings.HasSuffix(a, ">0)") || strings.HasSuffix(a, ">=1)") || strings.HasSuffix(a, "!=0)")) {
					emptyGuard = true
				}
			}
			if c.term == "false" && emptyGuard {
				continue
			}
			okMain = false
			break
		}
		if okMain && len(got["*"]) == 0 && len(got["true"]) == 1 && got["true"][0] == "false" {
			l.ok(d.FuncID(fn), "last child = identical to the parent's last element", d.Pos(fn.Pos()), "n == n.parent.children[len(n.parent.children)-1]; false without a parent", true, "last")
		} else {
			l.bad(d.FuncID(fn), "last child = identical to the parent's last element", d.Pos(fn.Pos()), fmt.Sprintf("isLastOfHierarchy computes %v, expected %s (and false without a parent)", got, want), "last")
		}
	} else {
		l.undecided("(*gtree.Node).isLastOfHierarchy", "last child", "-", "function not found", "last")
	}
	// the path term mirrors it: setPath(name) ; setPath(ancestor.name, path) ; setPath(root.path, path)
	for _, spec := range []struct {
		p    *Prog
		recv string
	}{{w.D(), "defaultGrowerSimple"}, {w.W(), "defaultGrower"}} {
		p := spec.p
		l.cfg = p.Cfg.Name
		want := map[string]string{
			"Directly":   "name(n)",
			"Indirectly": "name(A),path(n)",
			"Finally":    "path(A),path(n)",
		}
		for _, kind := range []string{"Directly", "Indirectly", "Finally"} {
			name := "(*gtree." + spec.recv + ").assembleBranch" + kind
			fn := p.Func(name)
			if fn == nil {
				continue
			}
			var nodes []*ssa.Parameter
			for _, prm := range fn.Params[1:] {
				if isNodePtr(prm.Type()) {
					nodes = append(nodes, prm)
				}
			}
			got := ""
			extraGuard := ""
			allInstrs(fn, func(in ssa.Instruction) {
				c, ok := nodeMethodCall(in, "setPath")
				if !ok {
					return
				}
				for _, g := range guardsOf(c.Block()) {
					cc, _ := flattenCond(g.Cond, g.Pol)
					if _, _, isNil := nilTest(cc, true); isNil {
						continue
					}
					if call, isC := cc.(*ssa.Call); isC && call.Common().StaticCallee() != nil && fname(call.Common().StaticCallee()) == "isRoot" {
						continue
					}
					extraGuard = describeValue(cc)
				}
				t := &termer{p: p, node: nodes[0]}
				elems, _ := variadicElems(c.Common().Args[1])
				var parts []string
				for _, e := range elems {
					s := t.term(e, 0)
					if len(nodes) > 1 {
						s = strings.ReplaceAll(s, "("+nodes[1].Name()+")", "(A)")
					}
					parts = append(parts, s)
				}
				got = strings.Join(parts, ",")
			})
			if extraGuard != "" {
				l.bad(name, "path assembly", p.Pos(fn.Pos()), "the path element is added only when "+extraGuard+" holds: for some option values ancestors are missing from Path()", "path")
			} else if got == want[kind] {
				l.ok(name, "path assembly", p.Pos(fn.Pos()), "setPath("+got+")", true, "path")
			} else {
				l.bad(name, "path assembly", p.Pos(fn.Pos()), "setPath("+got+"), expected setPath("+want[kind]+"): ancestors' names must be placed before the node's path", "path")
			}
		}
		// the branch and the path of a node are formed nowhere else: a second assembly routine next to the modelled one
		// (a rewritten recursion that some operations use while others keep the old one) would escape every term above
		modelled := map[string]bool{}
		for _, k := range []string{"", "Directly", "Indirectly", "Finally"} {
			modelled["assembleBranch"+k] = true // the driver (ancestor walk, with a step possibly inlined) and its three steps
		}
		var strays []string
		for _, fn := range libFuncs(p) {
			if p.Cfg.Name == "W" && !wOnlyFunc(w, fn) {
				continue
			}
			if recvTypeName(outermost(fn)) == "Node" {
				continue // the setters themselves and clean()
			}
			if modelled[fname(outermost(fn))] && strings.Contains(recvTypeName(outermost(fn)), "rower") {
				continue
			}
			fn := fn
			allInstrs(fn, func(in ssa.Instruction) {
				c, ok := in.(*ssa.Call)
				if !ok || c.Common().StaticCallee() == nil || recvTypeName(c.Common().StaticCallee()) != "Node" {
					return
				}
				switch fname(c.Common().StaticCallee()) {
				case "setBranch", "setPath":
					// emptying the cache is not assembly
					if elems, isV := variadicElems(c.Common().Args[len(c.Common().Args)-1]); isV {
						allEmpty := true
						for _, e := range elems {
							if sv, isS := constString(e); !isS || sv != "" {
								allEmpty = false
							}
						}
						if allEmpty {
							return
						}
					}
					strays = append(strays, p.FuncID(fn)+" ("+fname(c.Common().StaticCallee())+" at "+p.InstrPos(c)+")")
				}
			})
		}
		if len(strays) > 0 {
			l.bad("(*gtree."+spec.recv+")", "branch and path are formed only by the modelled assembly functions", "-", "also formed in "+strings.Join(dedup(strays), ", ")+": a node's branch / path assembled by code these checks do not model — whatever it computes (and for which operations it is used) is not covered by the connector, ancestor-walk and path terms", "assembly-site")
		} else {
			l.ok("(*gtree."+spec.recv+")", "branch and path are formed only by the modelled assembly functions", "-", "setBranch / setPath with content are called from assembleBranchDirectly / Indirectly / Finally only", true, "assembly-site")
		}
	}
	return l.list
}

// ---------------------------------------------------------------------------------------------
// C01-NAME

var lossyTransformers = map[string]bool{
	"strings.Trim": true, "strings.TrimSpace": true, "strings.TrimRight": true, "strings.TrimLeft": true, "strings.TrimFunc": true,
	"strings.TrimSuffix": true, "strings.Fields": true, "strings.Replace": true, "strings.ReplaceAll": true, "strings.ToLower": true,
	"strings.ToUpper": true, "strings.Title": true, "strings.ToTitle": true, "strings.Map": true, "strings.ToValidUTF8": true, "strings.Join": true,
	"strings.TrimRightFunc": true, "strings.TrimLeftFunc": true,
}

func ruleC01NAME(w *World) []Ob {
	p := w.D()
	l := &obs{rule: "C01-NAME", cfg: "D"}
	parse := p.Func("(*markdown.Parser).Parse")
	sep := separateRowBody(p)
	gen := p.Func("(*gtree.nodeGenerator).generate")
	if parse == nil || sep == nil || gen == nil {
		l.undecided("markdown", "name chain", "-", "Parse / separateRow / generate not found", "name")
		return l.list
	}
	// 1. generate: newNode(markdown.Text(), markdown.Hierarchy(), idx)
	okGen := false
	allInstrs(gen, func(in ssa.Instruction) {
		c, ok := in.(*ssa.Call)
		if !ok || c.Common().StaticCallee() == nil || fname(c.Common().StaticCallee()) != "newNode" {
			return
		}
		a0, ok0 := c.Common().Args[0].(*ssa.Call)
		a1, ok1 := c.Common().Args[1].(*ssa.Call)
		if ok0 && ok1 && a0.Common().StaticCallee() != nil && fname(a0.Common().StaticCallee()) == "Text" && a1.Common().StaticCallee() != nil && fname(a1.Common().StaticCallee()) == "Hierarchy" && sameVar(a0.Common().Args[0], a1.Common().Args[0]) {
			okGen = true
		}
	})
	if okGen {
		l.ok(p.FuncID(gen), "node takes text and level of the parsed row", p.Pos(gen.Pos()), "newNode(m.Text(), m.Hierarchy(), idx) on the same parse result", true, "name")
	} else {
		l.bad(p.FuncID(gen), "node takes text and level of the parsed row", p.Pos(gen.Pos()), "newNode is not fed with Text() and Hierarchy() of the parse result", "name")
	}
	for _, acc := range []struct{ m, f string }{{"Text", "text"}, {"Hierarchy", "hierarchy"}} {
		if fn := p.Func("(*markdown.Markdown)." + acc.m); fn != nil {
			got := ""
			allInstrs(fn, func(in ssa.Instruction) {
				if r, ok := in.(*ssa.Return); ok {
					got = (&termer{p: p}).term(rr(r)[0], 0)
				}
			})
			if got == acc.f+"(m)" {
				l.ok(p.FuncID(fn), "accessor returns the field", p.Pos(fn.Pos()), got, false, "name")
			} else {
				l.bad(p.FuncID(fn), "accessor returns the field", p.Pos(fn.Pos()), "returns "+got, "name")
			}
		}
	}
	// 2. Parse: text stored into Markdown on the list-row path
	nList := 0
	parseFam := []*ssa.Function{parse}
	allInstrs(parse, func(in ssa.Instruction) {
		if c, ok := in.(*ssa.Call); ok {
			if f := c.Common().StaticCallee(); f != nil && p.InModule(f) && recvTypeName(f) == "Parser" && f != sep && fname(f) != "isBlank" && fname(f) != "calculateHierarchy" {
				parseFam = append(parseFam, f)
			}
		}
	})
	for _, pf := range parseFam {
	pf := pf
	allInstrs(pf, func(in ssa.Instruction) {
		st, ok := in.(*ssa.Store)
		if !ok {
			return
		}
		fa, ok := st.Addr.(*ssa.FieldAddr)
		if !ok {
			return
		}
		tn, f, _ := fieldOf(fa)
		if tn != "Markdown" || f != "text" {
			return
		}
		heading := false
		for _, g := range guardsOf(st.Block()) {
			cc, pol := flattenCond(g.Cond, g.Pol)
			if c, ok := cc.(*ssa.Call); ok && pol && calleeFullName(c.Common()) == "strings.HasPrefix" {
				if s, _ := constString(c.Common().Args[1]); s == "#" {
					heading = true
				}
			}
		}
		if pf != parse {
			// a helper: it is the heading helper if Parse calls it only under HasPrefix(row, "#")
			for _, ci := range p.Callers(pf) {
				for _, g := range guardsOf(ci.(ssa.Instruction).Block()) {
					cc, pol := flattenCond(g.Cond, g.Pol)
					if c, ok := cc.(*ssa.Call); ok && pol && calleeFullName(c.Common()) == "strings.HasPrefix" {
						if s, _ := constString(c.Common().Args[1]); s == "#" {
							heading = true
						}
					}
				}
			}
		}
		if heading {
			return
		}
		nList++
		chain, origin := transformerChain(st.Val)
		var lossy []string
		for _, c := range chain {
			if lossyTransformers[c] {
				lossy = append(lossy, c)
			} else if c != "strings.TrimPrefix" && c != "strings.CutPrefix" {
				lossy = append(lossy, c+" (unknown transformer)")
			}
		}
		construct := "list row text"
		switch {
		case len(lossy) > 0:
			l.bad(p.FuncID(parse), construct, p.InstrPos(st), "the item text passes through "+strings.Join(lossy, ", ")+": characters the user wrote (trailing/leading blanks, case …) can be lost", "name")
		case origin != "separateRow#1":
			l.bad(p.FuncID(parse), construct, p.InstrPos(st), "the item text does not come from the part after the bullet (origin: "+origin+")", "name")
		default:
			// TrimPrefix must remove exactly the single space
			okTrim := true
			var walk func(v ssa.Value)
			walk = func(v ssa.Value) {
				if c, ok := stripConv(v).(*ssa.Call); ok && calleeFullName(c.Common()) == "strings.TrimPrefix" {
					if s, isS := constString(c.Common().Args[1]); !isS || s != " " {
						okTrim = false
					}
					walk(c.Common().Args[0])
				}
			}
			walk(st.Val)
			if okTrim {
				l.ok(p.FuncID(parse), construct, p.InstrPos(st), "text = TrimPrefix(after-bullet part, \" \"): at most one leading space removed", true, "name")
			} else {
				l.bad(p.FuncID(parse), construct, p.InstrPos(st), "TrimPrefix removes something other than one space", "name")
			}
		}
	})
	}
	if nList == 0 {
		l.bad(p.FuncID(parse), "list row text", p.Pos(parse.Pos()), "no store of the item text on the list-row path", "name")
	}
	// 3. separateRow: the returned text is the `after` part of strings.Cut(row, symbol)
	okCut := false
	allInstrs(sep, func(in ssa.Instruction) {
		r, ok := in.(*ssa.Return)
		if !ok || len(rr(r)) != 3 {
			return
		}
		v := stripConv(rr(r)[1])
		if ex, ok := v.(*ssa.Extract); ok && ex.Index == 1 {
			if c, ok := ex.Tuple.(*ssa.Call); ok && calleeFullName(c.Common()) == "strings.Cut" {
				if prm, ok := c.Common().Args[0].(*ssa.Parameter); ok && prm.Name() == sep.Params[1].Name() {
					okCut = true
				}
			}
		}
	})
	if okCut {
		l.ok(p.FuncID(sep), "text is what follows the first bullet", p.Pos(sep.Pos()), "the `after` result of strings.Cut(row, symbol), unmodified", true, "name")
	} else {
		l.bad(p.FuncID(sep), "text is what follows the first bullet", p.Pos(sep.Pos()), "separateRow no longer returns the unmodified part of the row after the bullet", "name")
	}
	return l.list
}

// transformerChain walks back through single-string-argument calls and returns the callee names and the origin.
func transformerChain(v ssa.Value) ([]string, string) {
	var chain []string
	for i := 0; i < 10; i++ {
		v = stripConv(v)
		switch x := v.(type) {
		case *ssa.Call:
			name := calleeFullName(x.Common())
			if name == "" {
				name = calleeString(x.Common())
			}
			chain = append(chain, name)
			if len(x.Common().Args) == 0 {
				return chain, "call " + name
			}
			v = x.Common().Args[0]
		case *ssa.Extract:
			if c, ok := x.Tuple.(*ssa.Call); ok {
				if f := c.Common().StaticCallee(); f != nil && fname(f) == "separateRow" {
					return chain, fmt.Sprintf("separateRow#%d", x.Index)
				}
				name := calleeFullName(c.Common())
				chain = append(chain, name)
				v = c.Common().Args[0]
				continue
			}
			return chain, describeValue(v)
		case *ssa.Slice:
			chain = append(chain, "slice expression")
			v = x.X
		default:
			return chain, describeValue(v)
		}
	}
	return chain, "…"
}

// ---------------------------------------------------------------------------------------------
// SIB-5

func ruleSIB5(w *World) []Ob {
	l := &obs{rule: "SIB-5"}
	n := 0
	eachLibFuncDW(w, func(p *Prog, fn *ssa.Function) {
		var gen *ssa.Call
		allInstrs(fn, func(in ssa.Instruction) {
			if c, ok := in.(*ssa.Call); ok && c.Common().StaticCallee() != nil && fname(c.Common().StaticCallee()) == "generate" && recvTypeName(c.Common().StaticCallee()) == "nodeGenerator" {
				gen = c
			}
		})
		if gen == nil {
			return
		}
		n++
		l.cfg = p.Cfg.Name
		fid := p.FuncID(fn)
		nc := newNilCtx(p)
		node := siblingExtract(gen, 0)
		errv := siblingExtract(gen, 1)
		add := func(construct string, why string, okDetail string) {
			if why != "" {
				l.bad(fid, construct, p.InstrPos(gen), why, "line-loop")
			} else {
				l.ok(fid, construct, p.InstrPos(gen), okDetail, true, "line-loop")
			}
		}
		// (a) text of the controlling scanner
		why := ""
		txt, ok := gen.Common().Args[1].(*ssa.Call)
		var scan *ssa.Call
		if !ok || calleeFullName(txt.Common()) != "(*bufio.Scanner).Text" {
			why = "the row handed to the node generator is not scanner.Text()"
		} else {
			allInstrs(fn, func(in ssa.Instruction) {
				if c, ok := in.(*ssa.Call); ok && calleeFullName(c.Common()) == "(*bufio.Scanner).Scan" && valueKey(c.Common().Args[0]) == valueKey(txt.Common().Args[0]) {
					scan = c
				}
			})
			if scan == nil || !scan.Block().Dominates(gen.Block()) {
				why = "the text does not come from the scanner that controls the loop"
			}
		}
		add("every scanned line is classified", why, "generate(scanner.Text(), …) for the scanner whose Scan() drives the loop")
		if scan == nil {
			return
		}
		// (b) error ⇒ error exit with that error
		why = ""
		if errv == nil {
			why = "the error of nodeGenerator.generate is discarded"
		} else {
			why = errorExit(p, nc, errv, scan.Block())
		}
		add("a parse error ends the operation with that error", why, "err != nil side hands the same error over and never returns to the loop")
		// (b') a row cut short by a failing reader is not judged as a row: bufio.ScanLines hands out the unterminated
		// remainder ("  - " of "  - child") when the reader fails, and the parse error of that remainder would be
		// returned in place of the reader's error.  Either the scanner was built with a split function of its own
		// (the module's line scanner, which withholds that remainder), or the parse-error exit asks scanner.Err()
		// first, or the scanner reads from memory (a block string), which cannot fail.
		// (b'') a token limit given to the scanner admits at least the rows the default admits: with a limit below that
		// (in the extreme 0, e.g. len(block) for an empty block) Scan fails with ErrTooLong before reading anything,
		// and input that used to be fine — the empty document — becomes an error
		{
			whyBuf := ""
			allInstrs2 := func(f *ssa.Function) {
				allInstrs(f, func(in ssa.Instruction) {
					c, ok := in.(*ssa.Call)
					if !ok || calleeFullName(c.Common()) != "(*bufio.Scanner).Buffer" || len(c.Common().Args) != 3 {
						return
					}
					iv := p.bounds(c.Common().Args[2], nil, 0)
					iv = refineByDominatingGuards(p, c.Common().Args[2], c.Block(), iv, nil, 0)
					for _, g := range guardsOf(c.Block()) {
						cd, pol := flattenCond(g.Cond, g.Pol)
						if bo, isB := cd.(*ssa.BinOp); isB {
							iv = cmpFact(p, c.Common().Args[2], bo, pol, iv)
						}
					}
					if iv.lo > negInf/2 && iv.lo < 1 {
						whyBuf = fmt.Sprintf("the scanner's token limit set at %s can be as low as %d: bufio.Scanner then reports ErrTooLong before it has read a byte, so an empty document (or an empty block) is an error instead of empty output and nil", p.InstrPos(c), iv.lo)
					}
				})
			}
			allInstrs2(fn)
			// the function that makes the scanner
			if sc, ok := stripConv(resolve(scan.Common().Args[0])).(*ssa.Call); ok && sc.Common().StaticCallee() != nil && p.InModule(sc.Common().StaticCallee()) {
				allInstrs2(sc.Common().StaticCallee())
			}
			add("the scanner's token limit admits every row the default admits", whyBuf, "no Scanner.Buffer call, or its limit is at least 1 on every path")
		}
		why = truncatedRowGuard(p, fn, scan, gen)
		add("a row cut short by a failing reader is not parsed", why, "the scanner reads from memory, or is built with a split function of its own, or scanner.Err() is consulted before the parse error is returned")
		// (c) nil node ⇒ next line
		why = ""
		if node == nil {
			why = "the node result is discarded"
		} else {
			var nilSucc *ssa.BasicBlock
			for _, r := range *node.Referrers() {
				if b, ok := r.(*ssa.BinOp); ok {
					if _, nonNil, ok := nilTest(b, true); ok {
						for _, rr2 := range *b.Referrers() {
							if iff, ok := rr2.(*ssa.If); ok {
								if nonNil {
									nilSucc = iff.Block().Succs[1]
								} else {
									nilSucc = iff.Block().Succs[0]
								}
							}
						}
					}
				}
			}
			if nilSucc == nil {
				why = "the node is not tested for nil (blank lines would be dereferenced)"
			} else {
				// from nilSucc back to the Scan block without any call
				clean := true
				seen := map[*ssa.BasicBlock]bool{}
				reached := false
				var walk func(b *ssa.BasicBlock)
				walk = func(b *ssa.BasicBlock) {
					if seen[b] {
						return
					}
					seen[b] = true
					if b == scan.Block() {
						reached = true
						return
					}
					for _, in := range b.Instrs {
						switch in.(type) {
						case ssa.CallInstruction, *ssa.Store, *ssa.Send, *ssa.Return:
							clean = false
						}
					}
					for _, s := range b.Succs {
						walk(s)
					}
				}
				walk(nilSucc)
				if !reached || !clean {
					why = "a blank line (nil node, nil error) does not simply continue with the next line"
				}
			}
		}
		add("blank lines are skipped", why, "node == nil leads straight back to Scan()")
		if node == nil {
			return
		}
		// delegates: an assembler object that owns the open stack (rootAssembler.attach(node,row) / builder.open(node) +
		// builder.place(node,row)): methods that receive the node and keep the stack in a field of their receiver
		dg := sib5Delegates(p, nc, fn, node, scan)
		// (d) root ⇒ new stack, push, record
		var isRootCall *ssa.Call
		for _, r := range *node.Referrers() {
			if c, ok := r.(*ssa.Call); ok && c.Common().StaticCallee() != nil && fname(c.Common().StaticCallee()) == "isRoot" {
				isRootCall = c
			}
		}
		why = ""
		var stackCell ssa.Value
		var rootCell0 ssa.Value
		rootWeb := map[ssa.Value]bool{}
		appendRoots := false
		var rootTest ssa.Value
		if isRootCall != nil {
			rootTest = isRootCall
		} else if dg != nil && dg.rootFlag != nil {
			// the assembler object asks isRoot() itself and reports the answer
			rootTest = dg.rootFlag
		}
		if rootTest == nil {
			why = "the node is never asked isRoot()"
		} else {
			var rootSide *ssa.BasicBlock
			for _, r := range *rootTest.Referrers() {
				if iff, ok := r.(*ssa.If); ok {
					rootSide = iff.Block().Succs[0]
				}
			}
			if rootSide == nil {
				why = "isRoot() does not decide a branch"
			} else {
				var newStk, push bool
				recBlocks, pushBlocks := map[*ssa.BasicBlock]bool{}, map[*ssa.BasicBlock]bool{}
				for b := range blockReach(rootSide, map[*ssa.BasicBlock]bool{scan.Block(): true}) {
					for _, in := range b.Instrs {
						switch x := in.(type) {
						case *ssa.Call:
							if f := x.Common().StaticCallee(); f != nil {
								if fname(f) == "newStack" {
									newStk = true
								}
								if fname(f) == "push" && len(x.Common().Args) == 2 && sameVar(x.Common().Args[1], node) {
									push = true
									pushBlocks[b] = true
								}
							}
							if isBuiltinCall(x, "append") {
								if elems, ok := variadicElems(x.Common().Args[1]); ok && len(elems) == 1 && sameVar(elems[0], node) {
									appendRoots = true
									recBlocks[b] = true
								}
							}
						case *ssa.Store:
							if c, ok := x.Val.(*ssa.Call); ok && c.Common().StaticCallee() != nil && fname(c.Common().StaticCallee()) == "newStack" {
								stackCell = x.Addr
							}
							if sameVar(x.Val, node) {
								rootCell0 = x.Addr
								recBlocks[b] = true
							}
						}
					}
				}
				// every way from the root test back to the next line records the root and opens its stack: a root
				// that is merged into an earlier one, or skipped, on some path is a different forest
				skipsRecording := false
				for _, must := range []map[*ssa.BasicBlock]bool{recBlocks, pushBlocks} {
					if len(must) == 0 {
						continue
					}
					if !must[rootSide] {
						if reach := blockReach(rootSide, must); reach[scan.Block()] {
							skipsRecording = true
						}
					}
				}
				if rootCell0 == nil && !appendRoots {
					rootWeb = phiWeb(fn, node)
				}
				if dg != nil && dg.rootStack {
					newStk, push = true, true // done by the assembler object for a root node
				}
				switch {
				case !newStk || !push:
					why = "a root line does not start a fresh stack holding the root"
				case !appendRoots && rootCell0 == nil && len(rootWeb) == 0:
					why = "a root line is not recorded (neither appended to the roots nor stored as the current root)"
				case skipsRecording:
					why = "on some path a root line goes back to the next line without being recorded as a new root with its own stack (merged into an earlier root, or skipped): this loop then builds a different forest than its siblings"
				}
			}
		}
		add("a root starts a new stack and is recorded", why, "isRoot ⇒ newStack(), push(root), root recorded")
		// a helper that receives the open stack and the node (attachToOpenRoot(stack, node, row) error):
		// its nil-stack test and its dfs call count for this loop if the helper's error ends the loop
		var helper *ssa.Call
		allInstrs(fn, func(in ssa.Instruction) {
			c, ok := in.(*ssa.Call)
			if !ok || c.Common().StaticCallee() == nil || !p.InModule(c.Common().StaticCallee()) {
				return
			}
			hasNode, hasStack := false, false
			for _, a := range c.Common().Args {
				if sameVar(a, node) {
					hasNode = true
				}
				if pt, ok := a.Type().(*types.Pointer); ok && isNamed(pt.Elem(), modulePath, "stack") {
					hasStack = true
				}
			}
			if hasNode && hasStack && fname(c.Common().StaticCallee()) != "dfs" && isErrorType(c.Type()) {
				helper = c
			}
		})
		if helper != nil {
			hf := helper.Common().StaticCallee()
			why = ""
			var hStack, hNode *ssa.Parameter
			for i, a := range helper.Common().Args {
				if i >= len(hf.Params) {
					continue
				}
				if sameVar(a, node) {
					hNode = hf.Params[i]
				}
				if pt, ok := a.Type().(*types.Pointer); ok && isNamed(pt.Elem(), modulePath, "stack") {
					hStack = hf.Params[i]
					if ld, ok := isLoad(stripConv(a)); ok {
						if st := initStore(ld); st != nil && nc.nonNil(st.Val, st, 0) {
							why = "the stack handed to " + fname(hf) + " is created before the first root is seen, so its nil test can never fire"
						}
						if stackCell != nil && cellKey(ld) != cellKey(stackCell) {
							why = fname(hf) + " is given a different stack than the one created for the current root"
						}
					}
				}
			}
			nilSentinel, dfsOK := false, false
			if hStack != nil && hNode != nil {
				allInstrs(hf, func(in ssa.Instruction) {
					switch x := in.(type) {
					case *ssa.Return:
						if globalName(rr(x)[0]) == "errNilStack" && guardedNil(hStack, x) {
							nilSentinel = true
						}
					case *ssa.Call:
						if x.Common().StaticCallee() != nil && fname(x.Common().StaticCallee()) == "dfs" && sameVar(x.Common().Args[0], hStack) && sameVar(x.Common().Args[1], hNode) {
							if failureLeadsToErrorExit(p, nc, x) == "" {
								dfsOK = true
							}
						}
					}
				})
			}
			if why == "" && !nilSentinel {
				why = fname(hf) + " does not return errNilStack when the stack is nil"
			}
			if why == "" && !dfsOK {
				why = fname(hf) + " does not attach the node with dfs and report a failed attach"
			}
			if why == "" {
				why = errorExit(p, nc, helper, scan.Block())
			}
			add("an item before the first root is an error", why, "nil-stack test and attach in helper "+fname(hf)+", whose error ends the operation")
			add("other items are attached to the current root's stack", why, "attach in helper "+fname(hf))
		}
		if helper == nil && dg != nil && dg.found {
			why = dg.why
			if why == "" && !dg.nilCheck {
				why = "the assembler object does not reject an item when no root is open (no nil test of its stack field ending in an error)"
			}
			add("an item before the first root is an error", why, "nil test of the assembler's stack field, whose error ends the operation")
			why = dg.why
			if why == "" && !dg.attach {
				why = "the assembler object does not attach the item with dfs on its stack field and report a failed attach"
			}
			add("other items are attached to the current root's stack", why, "dfs on the assembler's stack field, failure reported")
		}
		if helper == nil && !(dg != nil && dg.found) {
		// (e) nil-stack test live, yields errNilStack
		why = ""
		var stackLoadTested ssa.Value
		allInstrs(fn, func(in ssa.Instruction) {
			iff, ok := in.(*ssa.If)
			if !ok {
				return
			}
			tv, _, ok := nilTest(iff.Cond, true)
			if !ok {
				return
			}
			if pt, ok := tv.Type().(*types.Pointer); ok && isNamed(pt.Elem(), modulePath, "stack") {
				stackLoadTested = tv
			}
		})
		if stackLoadTested == nil {
			why = "an item without an open root is not detected: no `stack == nil` test"
		} else {
			// live: the stack variable is not initialised with a non-nil value at its declaration
			if ld, ok := isLoad(stripConv(stackLoadTested)); ok {
				if st := initStore(ld); st != nil && nc.nonNil(st.Val, st, 0) {
					why = "the `stack == nil` test can never be true: the stack is created before the first root is seen, so an item before the first root is silently attached nowhere"
				}
			} else if nc.nonNil(stackLoadTested, firstInstr(fn), 0) {
				why = "the `stack == nil` test can never be true"
			}
			if why == "" {
				// nil side produces errNilStack
				var nilSucc *ssa.BasicBlock
				allInstrs(fn, func(in ssa.Instruction) {
					if iff, ok := in.(*ssa.If); ok {
						if tv, nonNil, ok := nilTest(iff.Cond, true); ok && tv == stackLoadTested {
							if nonNil {
								nilSucc = iff.Block().Succs[1]
							} else {
								nilSucc = iff.Block().Succs[0]
							}
						}
					}
				})
				sentinel := false
				if nilSucc != nil {
					for b := range blockReach(nilSucc, map[*ssa.BasicBlock]bool{scan.Block(): true}) {
						for _, in := range b.Instrs {
							for _, op := range in.Operands(nil) {
								if op != nil && *op != nil && globalName(*op) == "errNilStack" {
									sentinel = true
								}
								// any error proven non-nil that is handed over here rejects the document just as well
								// (a richer error wrapping the sentinel, say)
								if op != nil && *op != nil && isErrorType((*op).Type()) && nc.nonNil(*op, in, 0) {
									switch in.(type) {
									case *ssa.Return, *ssa.Send, ssa.CallInstruction:
										sentinel = true
									}
								}
							}
						}
					}
					if canReach(nilSucc, scan.Block()) {
						sentinel = false
					}
				}
				if !sentinel {
					why = "the `stack == nil` side does not end the operation with the nil-stack error"
				}
			}
		}
		add("an item before the first root is an error", why, "live `stack == nil` test ending with errNilStack")
		// (f) attach to the same stack
		why = ""
		var dfs *ssa.Call
		allInstrs(fn, func(in ssa.Instruction) {
			if c, ok := in.(*ssa.Call); ok && c.Common().StaticCallee() != nil && fname(c.Common().StaticCallee()) == "dfs" {
				dfs = c
			}
		})
		if dfs == nil {
			why = "non-root items are never attached (no dfs call)"
		} else if !sameVar(dfs.Common().Args[1], node) {
			why = "dfs is not given the current node"
		} else if stackCell != nil {
			if ld, ok := isLoad(stripConv(dfs.Common().Args[0])); !ok || cellKey(ld) != cellKey(stackCell) {
				why = "dfs runs on a different stack than the one created for the current root"
			}
		}
		add("other items are attached to the current root's stack", why, "stack.dfs(node) on the stack created at the last root")
		}
		// (g) delivery
		why = ""
		if appendRoots {
			// the slice is returned
		} else if rootCell0 != nil || len(rootWeb) > 0 {
			key := "-"
			if rootCell0 != nil {
				key = cellKey(rootCell0)
			}
			var handovers []ssa.Instruction
			allInstrs(fn, func(in ssa.Instruction) {
				var v ssa.Value
				switch x := in.(type) {
				case *ssa.Call:
					if x.Common().StaticCallee() == nil && !x.Common().IsInvoke() && len(x.Common().Args) == 2 && isNodePtr(x.Common().Args[0].Type()) {
						v = x.Common().Args[0]
					}
				case *ssa.Send:
					v = x.X
				case *ssa.Select:
					for _, st := range x.States {
						if st.Dir == types.SendOnly && isNodePtr(st.Send.Type()) {
							v = st.Send
						}
					}
				case *ssa.Return:
					for _, rv := range rr(x) {
						if isNodePtr(rv.Type()) && !isNilConst(rv) {
							v = rv
						}
						// a small typed result (parsedBlock{root: root}): the node stored into a field of the struct
						// that is returned
						var al *ssa.Alloc
						if a, isA := rv.(*ssa.Alloc); isA {
							al = a
						} else if ld, isL := isLoad(rv); isL {
							al, _ = ld.(*ssa.Alloc)
						}
						// the struct that is returned holds the cell in which the current root is recorded
						if al != nil && rootCell0 != nil {
							if fa0, isFA0 := rootCell0.(*ssa.FieldAddr); isFA0 && fa0.X == ssa.Value(al) {
								handovers = append(handovers, in)
							}
						}
						if al != nil && al.Referrers() != nil {
							for _, r2 := range *al.Referrers() {
								fa, isFA := r2.(*ssa.FieldAddr)
								if !isFA || fa.Referrers() == nil {
									continue
								}
								for _, r3 := range *fa.Referrers() {
									if st, isSt := r3.(*ssa.Store); isSt && st.Addr == ssa.Value(fa) && isNodePtr(st.Val.Type()) && !isNilConst(st.Val) {
										v = st.Val
									}
								}
							}
						}
					}
				}
				if v == nil {
					return
				}
				if ld, ok := isLoad(stripConv(v)); ok && cellKey(ld) == key {
					handovers = append(handovers, in)
				} else if rootWeb[stripConv(v)] {
					handovers = append(handovers, in)
				}
			})
			after, before := false, false
			for _, h := range handovers {
				if !canReach(h.Block(), scan.Block()) || !inLoop(h) || !scan.Block().Dominates(h.Block()) || h.Block() == exitOf(scan) {
					// outside the line loop
				}
				if exit := exitOf(scan); exit != nil && (h.Block() == exit || exit.Dominates(h.Block())) {
					after = true
				} else {
					before = true
				}
			}
			perBlock := false
			if c, ok := resolve(scan.Common().Args[0]).(*ssa.Call); ok && calleeFullName(c.Common()) != "bufio.NewScanner" && inLoop(c) {
				if f := c.Common().StaticCallee(); f != nil && p.InModule(f) {
					perBlock = true // a scanner built per block by a module helper
				}
			}
			if c, ok := resolve(scan.Common().Args[0]).(*ssa.Call); ok && calleeFullName(c.Common()) == "bufio.NewScanner" {
				if inLoop(c) {
					perBlock = true // one root block per scanner (the splitter guarantees it)
				}
				if rd, ok := c.Common().Args[0].(*ssa.MakeInterface); ok {
					if sr, ok := rd.X.(*ssa.Call); ok && calleeFullName(sr.Common()) == "strings.NewReader" {
						if _, isPrm := sr.Common().Args[0].(*ssa.Parameter); isPrm {
							perBlock = true // a function that parses one block handed to it as a string
						}
					}
				}
			}
			switch {
			case !after:
				why = "the last root is never handed over after the line loop ends"
			case !before && !perBlock:
				why = "a root is overwritten by the next root without having been handed over"
			}
		} else {
			why = "roots are not collected"
		}
		add("every root is delivered", why, "recorded roots are all handed over (appended and returned, or yielded/sent before overwrite and after the loop)")
	})
	if n < 4 {
		l.undecided("-", "line loops", "-", fmt.Sprintf("%d functions call nodeGenerator.generate; 4 expected (simple, iterator, pipeline worker, tinywasm)", n), "line-loop")
	}
	return l.list
}

// exitOf: the block control reaches when Scan() returns false.
func exitOf(scan *ssa.Call) *ssa.BasicBlock {
	for _, r := range *scan.Referrers() {
		if iff, ok := r.(*ssa.If); ok {
			return iff.Block().Succs[1]
		}
	}
	return nil
}

// errorExit: the non-nil side of errv hands the same error over (return / yield / send / module call)
// and does not return to loopHead.
func errorExit(p *Prog, nc *nilCtx, errv ssa.Value, loopHead *ssa.BasicBlock) string {
	var fail *ssa.BasicBlock
	for _, r := range *errv.Referrers() {
		if b, ok := r.(*ssa.BinOp); ok {
			if _, nonNil, ok := nilTest(b, true); ok {
				for _, r2 := range *b.Referrers() {
					if iff, ok := r2.(*ssa.If); ok {
						if nonNil {
							fail = iff.Block().Succs[0]
						} else {
							fail = iff.Block().Succs[1]
						}
					}
				}
			}
		}
	}
	if fail == nil {
		return "the error is not tested"
	}
	handed := false
	for b := range blockReach(fail, map[*ssa.BasicBlock]bool{loopHead: true}) {
		for _, in := range b.Instrs {
			switch x := in.(type) {
			case *ssa.Return:
				for _, v := range rr(x) {
					if v == errv {
						handed = true
					}
				}
			case ssa.CallInstruction:
				for _, a := range x.Common().Args {
					if a == errv {
						handed = true
					}
				}
			case *ssa.Send:
				if x.X == errv {
					handed = true
				}
			}
		}
	}
	if !handed {
		return "the error side does not hand the error over"
	}
	if canReach(fail, loopHead) {
		return "after an error the loop goes on with the next line"
	}
	return ""
}


// phiWeb: the phis a value flows into (transitively) — the SSA form of a local variable assigned in a loop.
func phiWeb(fn *ssa.Function, v ssa.Value) map[ssa.Value]bool {
	web := map[ssa.Value]bool{}
	work := []ssa.Value{v}
	for len(work) > 0 {
		x := work[len(work)-1]
		work = work[:len(work)-1]
		if x.Referrers() == nil {
			continue
		}
		for _, r := range *x.Referrers() {
			if ph, ok := r.(*ssa.Phi); ok && !web[ph] {
				web[ph] = true
				work = append(work, ph)
			}
		}
	}
	return web
}

// hasNilGuard: the case lies on the side of a test where something is nil (a defensive early return).
func hasNilGuard(c vcase) bool {
	for a, pol := range c.conds {
		if pol && isNilTestAtom(a) {
			return true
		}
	}
	return false
}

// isNilTestAtom: "(x==nil)", or a phi of alternatives each of which is such a test.
func isNilTestAtom(a string) bool {
	if strings.HasPrefix(a, "phi{") && strings.HasSuffix(a, "}") {
		for _, alt := range strings.Split(a[4:len(a)-1], ";") {
			i := strings.LastIndex(alt, "?")
			if i < 0 || !strings.HasSuffix(alt[i+1:], "==nil)") {
				return false
			}
		}
		return true
	}
	return strings.HasPrefix(a, "(") && strings.HasSuffix(a, "==nil)")
}

// nonNilCaseTerms: the distinct terms a function returns on the paths where no nil guard fired.
func nonNilCaseTerms(p *Prog, fn *ssa.Function) []string {
	ev := newCaseEval(p, nil)
	set := map[string]bool{}
	allInstrs(fn, func(in ssa.Instruction) {
		r, ok := in.(*ssa.Return)
		if !ok || len(rr(r)) != 1 {
			return
		}
		for _, c := range ev.argCases([]ssa.Value{rr(r)[0]}, ev.guardConds(r.Block())) {
			if os.Getenv("GTCHECK_DEBUG") != "" {
				fmt.Fprintf(os.Stderr, "DEBUG %s: %v -> %s\n", p.FuncID(fn), c.conds, c.term)
			}
			if !hasNilGuard(c) {
				set[strings.ReplaceAll(c.term, "&", "")] = true
			}
		}
	})
	return sortedKeys(set)
}

type sib5Delegate struct {
	found     bool
	rootStack bool   // a root node gets a fresh stack (stored in the receiver's stack field) holding it
	nilCheck  bool   // a nil stack field ends in a non-nil error
	attach    bool   // dfs(stack field, node) with its failure reported
	why       string // a delegate's error does not end the operation
	rootFlag  ssa.Value // a bool result of the delegate call that is true exactly when the node is a root
}

// truncatedRowGuard: see (b') in ruleSIB5.  Returns "" when the obligation holds.
func truncatedRowGuard(p *Prog, fn *ssa.Function, scan, gen *ssa.Call) string {
	scv := scan.Common().Args[0]
	// how was this scanner made?
	var makers []ssa.Value
	if ld, isL := isLoad(stripConv(scv)); isL {
		switch a := ld.(type) {
		case *ssa.FieldAddr:
			// every store to that field in the module
			for _, g := range p.ModFuncs {
				allInstrs(g, func(in ssa.Instruction) {
					if st, ok := in.(*ssa.Store); ok {
						if f2, ok := st.Addr.(*ssa.FieldAddr); ok && f2.Field == a.Field && types.Identical(f2.X.Type(), a.X.Type()) {
							makers = append(makers, st.Val)
						}
					}
				})
			}
		default:
			if r := resolve(scv); r != scv {
				makers = append(makers, r)
			}
		}
	} else {
		makers = append(makers, resolve(scv))
	}
	if len(makers) == 0 {
		return "the construction of the row scanner could not be found"
	}
	inMemory := func(v ssa.Value) bool {
		c, ok := stripConv(resolve(v)).(*ssa.Call)
		if !ok {
			return false
		}
		switch calleeFullName(c.Common()) {
		case "strings.NewReader", "bytes.NewReader", "bytes.NewBufferString", "bytes.NewBuffer":
			return true
		}
		return false
	}
	var ownSplit func(f *ssa.Function, depth int) bool
	ownSplit = func(f *ssa.Function, depth int) bool {
		if f == nil || !p.InModule(f) || len(f.Blocks) == 0 || depth > 2 {
			return false
		}
		found := false
		allInstrs(f, func(in ssa.Instruction) {
			if c, ok := in.(*ssa.Call); ok {
				if calleeFullName(c.Common()) == "(*bufio.Scanner).Split" {
					// not merely bufio.ScanLines again
					if fv, isF := resolve(c.Common().Args[1]).(*ssa.Function); !isF || fv.String() != "bufio.ScanLines" {
						found = true
					}
				}
				if g := c.Common().StaticCallee(); g != nil && p.InModule(g) && ownSplit(g, depth+1) {
					found = true
				}
			}
		})
		return found
	}
	// a module helper that makes the scanner over an in-memory reader (newBlockScanner(block))
	memHelper := func(f *ssa.Function) bool {
		if f == nil || !p.InModule(f) || len(f.Blocks) == 0 {
			return false
		}
		nMem, nOther := 0, 0
		allInstrs(f, func(in ssa.Instruction) {
			if c, ok := in.(*ssa.Call); ok && calleeFullName(c.Common()) == "bufio.NewScanner" && len(c.Common().Args) == 1 {
				if inMemory(c.Common().Args[0]) {
					nMem++
				} else {
					nOther++
				}
			}
		})
		return nMem > 0 && nOther == 0
	}
	allOK := true
	for _, m := range makers {
		c, ok := stripConv(resolve(m)).(*ssa.Call)
		if !ok {
			allOK = false
			continue
		}
		switch {
		case calleeFullName(c.Common()) == "bufio.NewScanner" && len(c.Common().Args) == 1 && inMemory(c.Common().Args[0]):
		case memHelper(c.Common().StaticCallee()):
		case func() bool {
			// a pass-through configurator: limit(bufio.NewScanner(strings.NewReader(block)), n)
			f := c.Common().StaticCallee()
			if f == nil || !p.InModule(f) {
				return false
			}
			for _, a := range c.Common().Args {
				// a scanner constructor of the module handed an in-memory reader: newRowScanner(strings.NewReader(block), n)
				if inMemory(a) {
					return true
				}
				if ac, ok := stripConv(resolve(a)).(*ssa.Call); ok {
					if calleeFullName(ac.Common()) == "bufio.NewScanner" && len(ac.Common().Args) == 1 && inMemory(ac.Common().Args[0]) {
						return true
					}
					if g := ac.Common().StaticCallee(); g != nil && (memHelper(g) || ownSplit(g, 0)) {
						return true
					}
				}
			}
			return false
		}():
		case c.Common().StaticCallee() != nil && ownSplit(c.Common().StaticCallee(), 0):
		default:
			allOK = false
		}
	}
	if allOK {
		return ""
	}
	// the parse-error exit consults scanner.Err() first
	errv := siblingExtract(gen, 1)
	if errv != nil {
		consulted := false
		allInstrs(fn, func(in ssa.Instruction) {
			c, ok := in.(*ssa.Call)
			if !ok || calleeFullName(c.Common()) != "(*bufio.Scanner).Err" || valueKey(c.Common().Args[0]) != valueKey(scv) {
				return
			}
			for _, g := range guardsOf(c.Block()) {
				if tv, nonNil, ok := nilTest(g.Cond, g.Pol); ok && nonNil && (tv == errv || sameVar(tv, errv)) {
					consulted = true
				}
			}
		})
		if consulted {
			return ""
		}
	}
	return "the rows come from bufio.NewScanner over the caller's reader with the default line splitting, and the parse error of a row is returned without asking scanner.Err(): when the reader fails in the middle of a row (\"  - \" of \"  - child\") the remainder is parsed, and the format error (\"empty text\") is returned instead of the reader's error"
}

// sib5Delegates examines the module methods that the line loop hands the current node to and that keep the open stack
// in a field of their receiver.
func sib5Delegates(p *Prog, nc *nilCtx, fn *ssa.Function, node ssa.Value, scan *ssa.Call) *sib5Delegate {
	if node == nil || scan == nil {
		return nil
	}
	d := &sib5Delegate{}
	stackField := func(h *ssa.Function) (int, bool) {
		if h.Signature.Recv() == nil || len(h.Params) == 0 {
			return 0, false
		}
		rt := h.Params[0].Type()
		if pt, ok := rt.Underlying().(*types.Pointer); ok {
			rt = pt.Elem()
		}
		st, ok := rt.Underlying().(*types.Struct)
		if !ok {
			return 0, false
		}
		for i := 0; i < st.NumFields(); i++ {
			if pt, ok := st.Field(i).Type().(*types.Pointer); ok && isNamed(pt.Elem(), modulePath, "stack") {
				return i, true
			}
		}
		return 0, false
	}
	allInstrs(fn, func(in ssa.Instruction) {
		c, ok := in.(*ssa.Call)
		if !ok || c.Common().StaticCallee() == nil || !p.InModule(c.Common().StaticCallee()) || !scan.Block().Dominates(c.Block()) {
			return
		}
		h := c.Common().StaticCallee()
		fi, hasField := stackField(h)
		if !hasField || h.Blocks == nil {
			return
		}
		var hNode *ssa.Parameter
		for i, a := range c.Common().Args {
			if i < len(h.Params) && sameVar(a, node) {
				hNode = h.Params[i]
			}
		}
		if hNode == nil {
			return
		}
		d.found = true
		recv := h.Params[0]
		isStackField := func(v ssa.Value) bool {
			ld, ok := isLoad(stripConv(v))
			if !ok {
				return false
			}
			fa, ok := ld.(*ssa.FieldAddr)
			return ok && fa.Field == fi && sameVar(fa.X, recv)
		}
		// is this delegate called only for roots / does it test isRoot itself?
		calledOnRootSide := false
		for _, g := range guardsOf(c.Block()) {
			cc, pol := flattenCond(g.Cond, g.Pol)
			if rc, ok := cc.(*ssa.Call); ok && pol && rc.Common().StaticCallee() != nil && fname(rc.Common().StaticCallee()) == "isRoot" && sameVar(rc.Common().Args[0], node) {
				calledOnRootSide = true
			}
		}
		newStk, push := false, false
		allInstrs(h, func(in2 ssa.Instruction) {
			switch x := in2.(type) {
			case *ssa.Store:
				if fa, ok := x.Addr.(*ssa.FieldAddr); ok && fa.Field == fi && sameVar(fa.X, recv) {
					sc, ok := x.Val.(*ssa.Call)
					// a.open = newStack().push(node): push returns the stack it was called on
					if ok && sc.Common().StaticCallee() != nil && fname(sc.Common().StaticCallee()) == "push" && len(sc.Common().Args) == 2 && sameVar(sc.Common().Args[1], hNode) {
						if inner, isC := sc.Common().Args[0].(*ssa.Call); isC && inner.Common().StaticCallee() != nil && fname(inner.Common().StaticCallee()) == "newStack" {
							sc = inner
						}
					}
					if ok && sc.Common().StaticCallee() != nil && fname(sc.Common().StaticCallee()) == "newStack" {
						onRoot := calledOnRootSide
						for _, g := range guardsOf(x.Block()) {
							cc, pol := flattenCond(g.Cond, g.Pol)
							if rc, ok := cc.(*ssa.Call); ok && pol && rc.Common().StaticCallee() != nil && fname(rc.Common().StaticCallee()) == "isRoot" && sameVar(rc.Common().Args[0], hNode) {
								onRoot = true
							}
						}
						if onRoot {
							newStk = true
						}
					}
				}
			case *ssa.Call:
				if f := x.Common().StaticCallee(); f != nil && fname(f) == "push" && len(x.Common().Args) == 2 && sameVar(x.Common().Args[1], hNode) {
					push = true
				}
				if f := x.Common().StaticCallee(); f != nil && fname(f) == "dfs" && len(x.Common().Args) == 2 && isStackField(x.Common().Args[0]) && sameVar(x.Common().Args[1], hNode) {
					if failureLeadsToErrorExit(p, nc, x) == "" {
						d.attach = true
					}
				}
			case *ssa.Return:
				// nil side of a test of the stack field, returning a non-nil error
				if len(rr(x)) == 0 {
					return
				}
				ev := rr(x)[len(rr(x))-1]
				if !isErrorType(ev.Type()) || !nc.nonNil(ev, x, 0) {
					return
				}
				for _, g := range guardsOf(x.Block()) {
					if tv, nonNil, ok := nilTest(g.Cond, g.Pol); ok && !nonNil && isStackField(tv) {
						d.nilCheck = true
					}
				}
			}
		})
		if newStk && push {
			d.rootStack = true
		}
		// the delegate's error ends the operation
		if isErrorType(c.Type()) {
			if w := errorExit(p, nc, c, scan.Block()); w != "" && d.why == "" {
				d.why = "the error of " + fname(h) + " does not end the operation: " + w
			}
		}
		if tup, isTup := c.Type().(*types.Tuple); isTup && tup.Len() >= 2 && isErrorType(tup.At(tup.Len()-1).Type()) {
			if ev := siblingExtract(c, tup.Len()-1); ev == nil {
				if d.why == "" {
					d.why = "the error of " + fname(h) + " is discarded"
				}
			} else if w := errorExit(p, nc, ev, scan.Block()); w != "" && d.why == "" {
				d.why = "the error of " + fname(h) + " does not end the operation: " + w
			}
			// a bool result that reports "this node opened a new root": true exactly on the isRoot side of the delegate
			for i := 0; i < tup.Len()-1; i++ {
				if b, isB := tup.At(i).Type().Underlying().(*types.Basic); !isB || b.Kind() != types.Bool {
					continue
				}
				exact, n := true, 0
				allInstrs(h, func(in2 ssa.Instruction) {
					r, isR := in2.(*ssa.Return)
					if !isR || i >= len(rr(r)) {
						return
					}
					n++
					bv, isC := constBool(rr(r)[i])
					if !isC {
						exact = false
						return
					}
					onRoot := false
					for _, g := range guardsOf(r.Block()) {
						cc, pol := flattenCond(g.Cond, g.Pol)
						if rc, ok := cc.(*ssa.Call); ok && pol && rc.Common().StaticCallee() != nil && fname(rc.Common().StaticCallee()) == "isRoot" && sameVar(rc.Common().Args[0], hNode) {
							onRoot = true
						}
					}
					if bv != onRoot {
						exact = false
					}
				})
				if exact && n > 0 {
					if ex := siblingExtract(c, i); ex != nil {
						d.rootFlag = ex
					}
				}
			}
		}
	})
	if !d.found {
		return nil
	}
	return d
}
