package main

// EFF — effects, who-may-call, gates (call graph + dominance).

import (
	"fmt"
	"go/token"
	"go/types"
	"sort"
	"strings"

	"golang.org/x/tools/go/ssa"
)

func init() {
	register(&Rule{ID: "EFF-1", Doc: "read-only operations: from every exported library function other than Mkdir*, and from the CLI's output/verify/template commands, no filesystem-mutating, exec or unclassified OS call is reachable in the module call graph (CHA for interfaces, function values followed)", Run: ruleEFF1})
	register(&Rule{ID: "EFF-2", Doc: "creation is owned: every filesystem-mutating call site of the library lies in a method of a type implementing the mkdirer interfaces", Run: ruleEFF2})
	register(&Rule{ID: "EFF-3", Doc: "dry-run gate: on every call path from a creating entry point (Mkdir*, CLI mkdir) to a filesystem-mutating site some call edge is dominated by the false side of a branch on the dry-run option (config field stored by WithDryRun / CLI flag --dry-run)", Run: ruleEFF3})
	register(&Rule{ID: "EFF-4", Doc: "validation gate: in every function that enters the mkdirer or verifier, grower.enableValidation() dominates grower.grow, the stage is only entered on grow's nil-error side (or consumes grow's output channel); validatePath rejects on both atoms; its call is guarded by nothing but the validation flag; entries of mkdir/verify/walk force the default encoding so the grower is never the no-op", Run: ruleEFF4})
	register(&Rule{ID: "EFF-5", Doc: "path provenance: the path argument of every filesystem call in the mkdirer and verifier is filepath.Join(targetDir, …) whose remaining elements derive only from Node.path()/Node.name through lexical string functions; targetDir is fed from the WithTargetDir option", Run: ruleEFF5})
	register(&Rule{ID: "EFF-6", Doc: "exists-before-create: in the mkdirer every creating call is dominated by the false side of an existence test over the same roots, whose true side yields the path-exists sentinel; the test stats every root and treats every outcome but not-exist as existing", Run: ruleEFF6})
	register(&Rule{ID: "EFF-7", Doc: "the library never ends the process: no os.Exit/log.Fatal/runtime.Goexit and no explicit panic in library packages; no unsafe, reflect or linkname", Run: ruleEFF7})
	register(&Rule{ID: "EFF-8", Doc: "CLI stdout: on the output/mkdir/verify routes nothing in package main prints to stdout except by handing os.Stdout / color.Output to the library", Run: ruleEFF8})
}

type effSite struct {
	fn     *ssa.Function
	instr  ssa.CallInstruction
	callee string
	eff    Effect
}

// directSites: external effectful call sites per module function.
func directSites(p *Prog) map[*ssa.Function][]effSite {
	out := map[*ssa.Function][]effSite{}
	for _, fn := range p.ModFuncs {
		allInstrs(fn, func(in ssa.Instruction) {
			ci, ok := in.(ssa.CallInstruction)
			if !ok {
				return
			}
			f := ci.Common().StaticCallee()
			if f == nil || p.InModule(f) {
				return
			}
			e := classifyExternal(f)
			if e == EffPure {
				return
			}
			out[fn] = append(out[fn], effSite{fn, ci, f.String(), e})
		})
		// method values of effectful functions used as operands (e.g. os.Remove passed as a callback)
		allInstrs(fn, func(in ssa.Instruction) {
			for _, op := range in.Operands(nil) {
				if op == nil || *op == nil {
					continue
				}
				if f, ok := (*op).(*ssa.Function); ok && !p.InModule(f) {
					if ci, isCall := in.(ssa.CallInstruction); isCall && ci.Common().Value == ssa.Value(f) {
						continue
					}
					if e := classifyExternal(f); e == EffFSMutate || e == EffProcess || e == EffExec {
						if ci, isCall := in.(ssa.CallInstruction); isCall {
							out[fn] = append(out[fn], effSite{fn, ci, f.String() + " (as value)", e})
						}
					}
				}
			}
		})
	}
	return out
}

// succsOf: module functions called from fn, or whose value is created in fn.
type callEdge struct {
	to    *ssa.Function
	instr ssa.Instruction
}

func succsOf(p *Prog, fn *ssa.Function) []callEdge {
	var out []callEdge
	allInstrs(fn, func(in ssa.Instruction) {
		if c, ok := in.(ssa.CallInstruction); ok {
			for _, g := range p.ModCallees(c) {
				out = append(out, callEdge{g, in})
			}
		}
		for _, op := range in.Operands(nil) {
			if op == nil || *op == nil {
				continue
			}
			switch v := (*op).(type) {
			case *ssa.Function:
				if p.InModule(v) {
					out = append(out, callEdge{v, in})
				}
			case *ssa.MakeClosure:
				out = append(out, callEdge{v.Fn.(*ssa.Function), in})
			}
		}
	})
	return out
}

// findPath: BFS from root to any function satisfying hit, not following edges for which skip is true.
func findPath(p *Prog, root *ssa.Function, hit func(*ssa.Function) bool, skip func(from *ssa.Function, e callEdge) bool) []string {
	type item struct {
		fn   *ssa.Function
		path []string
	}
	seen := map[*ssa.Function]bool{root: true}
	q := []item{{root, []string{p.FuncID(root)}}}
	for len(q) > 0 {
		it := q[0]
		q = q[1:]
		if hit(it.fn) {
			return it.path
		}
		for _, e := range succsOf(p, it.fn) {
			if seen[e.to] || e.to.Blocks == nil {
				continue
			}
			if skip != nil && skip(it.fn, e) {
				continue
			}
			seen[e.to] = true
			np := append(append([]string{}, it.path...), p.FuncID(e.to))
			q = append(q, item{e.to, np})
		}
	}
	return nil
}

func exportedEntries(p *Prog) []*ssa.Function {
	var out []*ssa.Function
	for _, fn := range p.ModFuncs {
		if p.PkgPath(fn) != modulePath || fn.Parent() != nil || fn.Object() == nil || !fn.Object().Exported() {
			continue
		}
		if r := fn.Signature.Recv(); r != nil {
			if n := namedOf(r.Type()); n == nil || !n.Obj().Exported() {
				continue
			}
		}
		out = append(out, fn)
	}
	return out
}

func siteDesc(p *Prog, s effSite) string {
	return s.callee + " at " + p.InstrPos(s.instr)
}

func ruleEFF1(w *World) []Ob {
	l := &obs{rule: "EFF-1"}
	for _, p := range []*Prog{w.D(), w.W()} {
		l.cfg = p.Cfg.Name
		sites := directSites(p)
		bad := func(fn *ssa.Function) bool {
			for _, s := range sites[fn] {
				if s.eff == EffFSMutate || s.eff == EffExec || s.eff == EffUnclassified {
					return true
				}
			}
			return false
		}
		nCreating := 0
		for _, e := range exportedEntries(p) {
			fid := p.FuncID(e)
			path := findPath(p, e, bad, nil)
			creating := strings.HasPrefix(e.Name(), "Mkdir")
			switch {
			case creating && path != nil:
				nCreating++
				l.ok(fid, "creating entry point", p.Pos(e.Pos()), "reaches a filesystem-mutating site as expected (gated by EFF-3/4/6)", false, "entry-creating")
			case creating:
				l.undecided(fid, "creating entry point", p.Pos(e.Pos()), "Mkdir entry point does not reach any filesystem-mutating call: the effect table or the call graph lost the mkdirer", "entry-creating")
			case path != nil:
				last := path[len(path)-1]
				var what []string
				for fn, ss := range sites {
					if p.FuncID(fn) == last {
						for _, s := range ss {
							if s.eff == EffFSMutate || s.eff == EffExec || s.eff == EffUnclassified {
								what = append(what, siteDesc(p, s)+" ["+s.eff.String()+"]")
							}
						}
					}
				}
				sort.Strings(what)
				l.add(Ob{Func: fid, Construct: "read-only entry point", Pos: p.Pos(e.Pos()), Status: Violation, Nontrivial: true, Role: "entry-readonly", Path: path,
					Detail: "a filesystem-mutating / exec / unclassified OS call is reachable from an operation that must not change anything: " + strings.Join(what, ", ")})
			default:
				l.ok(fid, "read-only entry point", p.Pos(e.Pos()), "no filesystem-mutating, exec or unclassified OS call reachable", true, "entry-readonly")
			}
		}
		if p.Cfg.Name == "D" && nCreating == 0 {
			l.undecided("-", "creating entry points", "-", "none found", "entry-creating")
		}
		if p.Cfg.Name != "D" {
			continue
		}
		// CLI commands
		cmds := cliCommands(p)
		watch := watchRouteFuncs(p)
		for _, name := range []string{"output", "verify", "template"} {
			c := cmds[name]
			if c == nil || c.Action == nil {
				l.undecided("cmd/gtree", "command "+name, "-", "cli.Command literal not found", "cli-readonly")
				continue
			}
			path := findPath(p, c.Action, bad, func(from *ssa.Function, e callEdge) bool { return watch[outermost(e.to)] })
			if path != nil {
				l.add(Ob{Func: p.FuncID(c.Action), Construct: "command " + name, Pos: c.Pos, Status: Violation, Nontrivial: true, Role: "cli-readonly", Path: path,
					Detail: "a filesystem-mutating / exec call is reachable from a read-only subcommand"})
			} else {
				l.ok(p.FuncID(c.Action), "command "+name, c.Pos, "no filesystem-mutating or exec call reachable", true, "cli-readonly")
			}
		}
	}
	return l.list
}

// ownerTypes: named types of package gtree implementing an interface whose name starts with the given prefix, plus the types they embed.
func implementors(p *Prog, ifacePrefix string) map[string]bool {
	out := map[string]bool{}
	pk := p.ModPkgs[modulePath]
	if pk == nil {
		return out
	}
	scope := pk.Types.Scope()
	var ifaces []*types.Interface
	for _, n := range scope.Names() {
		if !strings.HasPrefix(n, ifacePrefix) {
			continue
		}
		if tn, ok := scope.Lookup(n).(*types.TypeName); ok {
			if it, ok := tn.Type().Underlying().(*types.Interface); ok {
				ifaces = append(ifaces, it)
			}
		}
	}
	for _, n := range scope.Names() {
		tn, ok := scope.Lookup(n).(*types.TypeName)
		if !ok {
			continue
		}
		if _, isIface := tn.Type().Underlying().(*types.Interface); isIface {
			continue
		}
		for _, it := range ifaces {
			if types.Implements(types.NewPointer(tn.Type()), it) || types.Implements(tn.Type(), it) {
				out[n] = true
				if st, ok := tn.Type().Underlying().(*types.Struct); ok {
					for i := 0; i < st.NumFields(); i++ {
						if st.Field(i).Embedded() {
							out[typeName(st.Field(i).Type())] = true
						}
					}
				}
			}
		}
	}
	return out
}

func ruleEFF2(w *World) []Ob {
	p := w.D()
	l := &obs{rule: "EFF-2", cfg: "D"}
	owners := implementors(p, "mkdirer")
	if len(owners) == 0 {
		l.undecided("-", "mkdirer types", "-", "no type implementing a mkdirer* interface found", "owner")
		return l.list
	}
	sites := directSites(p)
	n := 0
	// a private helper of the mkdirer: an unexported plain function all of whose call sites (and no other use of its
	// value) lie in mkdirer methods or in other such helpers — it runs behind the same gates as its callers
	helperMemo := map[*ssa.Function]bool{}
	var ownedHelper func(f *ssa.Function, depth int) bool
	ownedHelper = func(f *ssa.Function, depth int) bool {
		if v, ok := helperMemo[f]; ok {
			return v
		}
		helperMemo[f] = false
		if depth > 3 || f.Parent() != nil || f.Signature.Recv() != nil || (f.Object() != nil && f.Object().Exported()) {
			return false
		}
		callers := p.Callers(f)
		if len(callers) == 0 {
			return false
		}
		for _, ci := range callers {
			if _, isCall := ci.(*ssa.Call); !isCall {
				return false
			}
			c := outermost(ci.Parent())
			if owners[recvTypeName(c)] {
				continue
			}
			if !ownedHelper(c, depth+1) {
				return false
			}
		}
		// its value is not taken anywhere (passed as a callback, stored)
		for _, g := range p.ModFuncs {
			used := false
			allInstrs(g, func(in ssa.Instruction) {
				for _, op := range in.Operands(nil) {
					if op != nil && *op == ssa.Value(f) {
						if ci, isCall := in.(ssa.CallInstruction); !isCall || ci.Common().Value != ssa.Value(f) {
							used = true
						}
					}
				}
			})
			if used {
				return false
			}
		}
		helperMemo[f] = true
		return true
	}
	for _, fn := range libFuncs(p) {
		num := numbered{}
		for _, s := range sites[fn] {
			if s.eff != EffFSMutate && s.eff != EffUnclassified && s.eff != EffExec {
				continue
			}
			n++
			construct := num.name(s.callee)
			rt := recvTypeName(fn)
			if owners[rt] && s.eff == EffFSMutate {
				l.ok(p.FuncID(fn), construct, p.InstrPos(s.instr), "filesystem-mutating call inside mkdirer type "+rt, false, "site")
			} else if s.eff == EffFSMutate && ownedHelper(fn, 0) {
				l.ok(p.FuncID(fn), construct, p.InstrPos(s.instr), "filesystem-mutating call inside a private helper that only mkdirer methods call", false, "site")
			} else {
				l.bad(p.FuncID(fn), construct, p.InstrPos(s.instr), "a "+s.eff.String()+" call outside the mkdirer types ("+strings.Join(sortedKeys(owners), ", ")+"): creation must stay behind the mkdirer's existence test, validation and dry-run gates", "site")
			}
		}
	}
	if n == 0 {
		l.undecided("-", "filesystem-mutating sites", "-", "none found in the library: effect table lost the mkdirer", "site")
	}
	return l.list
}

// blockReachOnTrue: the blocks reachable from the point where the comparison b has come out true: the true successor of
// the If it decides, or — when it feeds an `||` phi — the successor taken when that phi is true.
func blockReachOnTrue(b *ssa.BinOp) map[*ssa.BasicBlock]bool {
	out := map[*ssa.BasicBlock]bool{}
	var start []*ssa.BasicBlock
	var visit func(v ssa.Value, d int)
	visit = func(v ssa.Value, d int) {
		if v.Referrers() == nil || d > 3 {
			return
		}
		for _, r := range *v.Referrers() {
			switch x := r.(type) {
			case *ssa.If:
				start = append(start, x.Block().Succs[0])
			case *ssa.Phi:
				visit(x, d+1)
			}
		}
	}
	visit(b, 0)
	for _, s := range start {
		for blk := range blockReach(s, map[*ssa.BasicBlock]bool{}) {
			out[blk] = true
		}
	}
	return out
}

// optionField: the config field stored by the closure that the given With* option returns.
func optionField(p *Prog, option string) string {
	for _, fn := range p.ModFuncs {
		if fn.Parent() == nil || fname(fn.Parent()) != option || p.PkgPath(fn) != modulePath {
			continue
		}
		f := ""
		allInstrs(fn, func(in ssa.Instruction) {
			if st, ok := in.(*ssa.Store); ok {
				if fa, ok := st.Addr.(*ssa.FieldAddr); ok {
					if tn, fld, _ := fieldOf(fa); tn == "config" {
						f = fld
					}
				}
			}
		})
		if f != "" {
			return f
		}
		// through a setter of the config: func (c *config) setX(v T) { …; c.x = v }
		allInstrs(fn, func(in ssa.Instruction) {
			c, ok := in.(*ssa.Call)
			if !ok || c.Common().StaticCallee() == nil || !p.InModule(c.Common().StaticCallee()) || recvTypeName(c.Common().StaticCallee()) != "config" {
				return
			}
			allInstrs(c.Common().StaticCallee(), func(in2 ssa.Instruction) {
				if st, ok := in2.(*ssa.Store); ok {
					if fa, ok := st.Addr.(*ssa.FieldAddr); ok {
						if tn, fld, _ := fieldOf(fa); tn == "config" {
							if _, fromParam := resolve(st.Val).(*ssa.Parameter); fromParam {
								f = fld
							}
						}
					}
				}
			})
		})
		if f != "" {
			return f
		}
	}
	return ""
}

// isConfigFieldLoad: v is a load of config.<field>.
func isConfigFieldLoad(v ssa.Value, field string) bool {
	ld, ok := isLoad(stripConv(v))
	if !ok {
		return false
	}
	fa, ok := ld.(*ssa.FieldAddr)
	if !ok {
		return false
	}
	tn, f, _ := fieldOf(fa)
	return tn == "config" && f == field
}

func isCLIFlagBool(v ssa.Value, flag string) bool {
	c, ok := stripConv(v).(*ssa.Call)
	if !ok || calleeFullName(c.Common()) != "(*github.com/urfave/cli/v2.Context).Bool" {
		return false
	}
	s, ok := constString(c.Common().Args[1])
	return ok && s == flag
}

func ruleEFF3(w *World) []Ob {
	p := w.D()
	l := &obs{rule: "EFF-3", cfg: "D"}
	dry := optionField(p, "WithDryRun")
	if dry == "" {
		l.undecided("gtree.WithDryRun", "dry-run field", "-", "the config field stored by WithDryRun's closure was not found", "anchor")
		return l.list
	}
	sites := directSites(p)
	mutates := func(fn *ssa.Function) bool {
		for _, s := range sites[fn] {
			if s.eff == EffFSMutate {
				return true
			}
		}
		return false
	}
	libGuarded := func(from *ssa.Function, e callEdge) bool {
		for _, g := range guardsOf(e.instr.Block()) {
			c, pol := flattenCond(g.Cond, g.Pol)
			if !pol && isConfigFieldLoad(c, dry) {
				return true
			}
		}
		return false
	}
	cliGuarded := func(from *ssa.Function, e callEdge) bool {
		for _, g := range guardsOf(e.instr.Block()) {
			c, pol := flattenCond(g.Cond, g.Pol)
			if !pol && isCLIFlagBool(c, "dry-run") {
				return true
			}
		}
		return false
	}
	n := 0
	for _, e := range exportedEntries(p) {
		if findPath(p, e, mutates, nil) == nil {
			continue
		}
		n++
		fid := p.FuncID(e)
		if path := findPath(p, e, mutates, libGuarded); path != nil {
			l.add(Ob{Func: fid, Construct: "dry-run gate", Pos: p.Pos(e.Pos()), Status: Violation, Nontrivial: true, Role: "gate", Path: path,
				Detail: "a filesystem-mutating call is reachable along a call path none of whose edges is on the false side of a branch on config." + dry + ": with WithDryRun the operation would still create entries"})
		} else {
			l.ok(fid, "dry-run gate", p.Pos(e.Pos()), "every call path to a filesystem-mutating site crosses an edge dominated by !config."+dry, true, "gate")
		}
	}
	if n == 0 {
		l.undecided("-", "creating entry points", "-", "no exported function reaches a filesystem-mutating site", "gate")
	}
	cmds := cliCommands(p)
	nc := 0
	for _, name := range sortedKeys(cmds) {
		c := cmds[name]
		if c.Action == nil || findPath(p, c.Action, mutates, nil) == nil {
			continue
		}
		nc++
		if path := findPath(p, c.Action, mutates, cliGuarded); path != nil {
			l.add(Ob{Func: p.FuncID(c.Action), Construct: "CLI --dry-run gate of command " + name, Pos: c.Pos, Status: Violation, Nontrivial: true, Role: "cli-gate", Path: path,
				Detail: "a filesystem-mutating call is reachable from the command without passing the false side of c.Bool(\"dry-run\")"})
		} else {
			l.ok(p.FuncID(c.Action), "CLI --dry-run gate of command "+name, c.Pos, "every path to a filesystem-mutating site crosses an edge dominated by !c.Bool(\"dry-run\")", true, "cli-gate")
		}
		// stray arguments must be rejected before the action runs: flags after a stray word are not parsed
		if c.Before == nil || !returnsErrorOnNArg(p, c.Before) {
			l.bad(p.FuncID(c.Action), "argument check of creating command "+name, c.Pos, "the command has no Before hook that rejects stray arguments (c.NArg() != 0): urfave/cli stops parsing flags at the first positional argument, so a --dry-run typed after it is ignored and directories are created", "cli-gate")
		} else {
			l.ok(p.FuncID(c.Action), "argument check of creating command "+name, c.Pos, "Before hook returns an error when c.NArg() != 0", true, "cli-gate")
		}
	}
	if nc == 0 {
		l.undecided("cmd/gtree", "creating commands", "-", "no CLI command reaches a filesystem-mutating site", "cli-gate")
	}
	return l.list
}

// returnsErrorOnNArg: fn branches on (*cli.Context).NArg() != 0 and returns a non-nil error on that side.
func returnsErrorOnNArg(p *Prog, fn *ssa.Function) bool {
	ok := false
	c := newNilCtx(p)
	allInstrs(fn, func(in ssa.Instruction) {
		r, isRet := in.(*ssa.Return)
		if !isRet || len(rr(r)) == 0 {
			return
		}
		if !c.nonNil(rr(r)[len(rr(r))-1], r, 0) {
			return
		}
		for _, g := range guardsOf(r.Block()) {
			cond, pol := flattenCond(g.Cond, g.Pol)
			b, isBin := cond.(*ssa.BinOp)
			if !isBin {
				continue
			}
			call, isCall := b.X.(*ssa.Call)
			if !isCall || calleeFullName(call.Common()) != "(*github.com/urfave/cli/v2.Context).NArg" {
				continue
			}
			k, isConst := constInt(b.Y)
			if !isConst {
				continue
			}
			op := b.Op
			if !pol {
				op = negateOp(op)
			}
			if (op == token.NEQ && k == 0) || (op == token.GTR && k == 0) || (op == token.GEQ && k == 1) {
				ok = true
			}
		}
	})
	return ok
}

// ---------------------------------------------------------------------------------------------
// EFF-4

// validatedGrowWrapper: an unexported module function whose every return hands back, unchanged and in order, the
// results of one grower.grow invoke that is dominated by enableValidation() on the same grower.
func validatedGrowWrapper(p *Prog, h *ssa.Function) bool {
	if !p.InModule(h) || len(h.Blocks) == 0 || h.Object() == nil || h.Object().Exported() {
		return false
	}
	var grow *ssa.Call
	n := 0
	allInstrs(h, func(in ssa.Instruction) {
		if c, ok := in.(*ssa.Call); ok && c.Common().IsInvoke() && methodName(c.Common().Method) == "grow" {
			grow = c
			n++
		}
	})
	if n != 1 {
		return false
	}
	ev := false
	allInstrs(h, func(in ssa.Instruction) {
		c, ok := in.(*ssa.Call)
		if !ok || !c.Common().IsInvoke() || methodName(c.Common().Method) != "enableValidation" || !sameVar(c.Common().Value, grow.Common().Value) {
			return
		}
		if c.Block() == grow.Block() && instrIndex(c) < instrIndex(grow) || (c.Block() != grow.Block() && c.Block().Dominates(grow.Block())) {
			ev = true
		}
	})
	if !ev || !sameSignatureResults(h.Signature.Results(), grow.Common().Signature().Results()) {
		return false
	}
	ok, nRet := true, 0
	allInstrs(h, func(in ssa.Instruction) {
		r, isRet := in.(*ssa.Return)
		if !isRet {
			return
		}
		nRet++
		for i, v := range rr(r) {
			v = resolve(v)
			if len(rr(r)) == 1 {
				if v != ssa.Value(grow) {
					ok = false
				}
				continue
			}
			ex, isEx := v.(*ssa.Extract)
			if !isEx || ex.Tuple != ssa.Value(grow) || ex.Index != i {
				ok = false
			}
		}
	})
	return ok && nRet > 0
}

func sameSignatureResults(a, b *types.Tuple) bool {
	if a.Len() != b.Len() {
		return false
	}
	for i := 0; i < a.Len(); i++ {
		if !types.Identical(a.At(i).Type(), b.At(i).Type()) {
			return false
		}
	}
	return true
}

func ruleEFF4(w *World) []Ob {
	l := &obs{rule: "EFF-4"}
	p := w.D()
	l.cfg = "D"
	mk := implementors(p, "mkdirer")
	vf := implementors(p, "verifier")
	stageOwners := map[string]bool{}
	for k := range mk {
		stageOwners[k] = true
	}
	for k := range vf {
		stageOwners[k] = true
	}
	// (a)+(b): gate functions = non-owner library functions invoking mkdir/verify of a stage owner
	nGates := 0
	// owner methods that (transitively) change the filesystem: every entry into one of them is an entry into the stage,
	// whatever it is called (a rollback / cleanup helper is gated like mkdir itself)
	mutReach := map[*ssa.Function]bool{}
	{
		ds := directSites(p)
		for fn, sites := range ds {
			for _, s := range sites {
				if s.eff == EffFSMutate {
					mutReach[fn] = true
				}
			}
		}
		for changed := true; changed; {
			changed = false
			for _, fn := range p.ModFuncs {
				if mutReach[fn] {
					continue
				}
				for _, e := range succsOf(p, fn) {
					if mutReach[e.to] {
						mutReach[fn] = true
						changed = true
						break
					}
				}
			}
		}
	}
	for _, fn := range libFuncs(p) {
		if stageOwners[recvTypeName(outermost(fn))] {
			continue
		}
		anon := fn.Parent() != nil && !strings.HasPrefix(fn.Synthetic, "range-over-func")
		fid := p.FuncID(fn)
		num := numbered{}
		allInstrs(fn, func(in ssa.Instruction) {
			bc, ok := in.(ssa.CallInstruction)
			if !ok {
				return
			}
			_, plainCall := in.(*ssa.Call)
			into := ""
			for _, g := range p.ModCallees(bc) {
				if !stageOwners[recvTypeName(g)] {
					continue
				}
				if (fname(g) == "mkdir" || fname(g) == "verify") && plainCall && !anon {
					into = fname(g)
				} else if mutReach[g] {
					into = fname(g)
				}
			}
			if into == "" {
				return
			}
			nGates++
			construct := num.name("entry into " + calleeString(bc.Common()))
			pos := p.InstrPos(bc)
			// the stage entry may sit in a small helper that the route calls after growing: the conditions are then
			// established at the helper's call sites (parameters mapped to the arguments there)
			var gate func(f *ssa.Function, site ssa.CallInstruction, args []ssa.Value, depth int) string
			gate = func(f *ssa.Function, site ssa.CallInstruction, args []ssa.Value, depth int) string {
				var grow *ssa.Call
				wrapped := false
				allInstrs(f, func(in2 ssa.Instruction) {
					c, ok := in2.(*ssa.Call)
					if !ok || !c.Block().Dominates(site.Block()) {
						return
					}
					if c.Common().IsInvoke() && methodName(c.Common().Method) == "grow" {
						grow, wrapped = c, false
					} else if h := c.Common().StaticCallee(); h != nil && grow == nil && validatedGrowWrapper(p, h) {
						// a helper that switches the validation on, grows and hands grow's results back unchanged
						grow, wrapped = c, true
					}
				})
				if grow == nil && f.Parent() != nil && depth < 3 {
					// a closure: the conditions are those at the place where the enclosing function calls, defers or
					// starts it
					var uses []ssa.CallInstruction
					allInstrs(f.Parent(), func(in2 ssa.Instruction) {
						ci, ok := in2.(ssa.CallInstruction)
						if !ok {
							return
						}
						if mc, isMC := resolve(ci.Common().Value).(*ssa.MakeClosure); isMC && mc.Fn == f {
							uses = append(uses, ci)
						}
					})
					if len(uses) == 0 {
						return "the " + into + " stage is entered from a function literal whose call cannot be located"
					}
					for _, u := range uses {
						if why := gate(f.Parent(), u, nil, depth+1); why != "" {
							if _, isDefer := u.(*ssa.Defer); isDefer {
								why += " (the function literal is deferred at " + p.InstrPos(u) + " and runs on every exit after that point)"
							}
							return why
						}
					}
					return ""
				}
				if grow == nil {
					callers := p.Callers(f)
					if depth < 2 && f.Parent() == nil && (f.Object() == nil || !f.Object().Exported()) && len(callers) > 0 {
						for _, ci := range callers {
							cs, ok := ci.(*ssa.Call)
							if !ok {
								return "the helper " + fname(f) + " that enters the " + into + " stage is started with go/defer"
							}
							var mapped []ssa.Value
							for _, a := range args {
								if prm, isP := resolve(a).(*ssa.Parameter); isP && paramIndex(f, prm) >= 0 && paramIndex(f, prm) < len(cs.Common().Args) {
									mapped = append(mapped, cs.Common().Args[paramIndex(f, prm)])
								} else {
									mapped = append(mapped, a)
								}
							}
							if why := gate(cs.Parent(), cs, mapped, depth+1); why != "" {
								return why
							}
						}
						return ""
					}
					return "no grower.grow call dominates the entry into the " + into + " stage: node paths are not assembled and names not validated"
				}
				// enableValidation on the same grower dominating grow
				evOK := wrapped
				allInstrs(f, func(in2 ssa.Instruction) {
					c, ok := in2.(*ssa.Call)
					if wrapped || !ok || !c.Common().IsInvoke() || methodName(c.Common().Method) != "enableValidation" {
						return
					}
					if !sameVar(c.Common().Value, grow.Common().Value) {
						return
					}
					if c.Block() == grow.Block() && instrIndex(c) < instrIndex(grow) || (c.Block() != grow.Block() && c.Block().Dominates(grow.Block())) {
						evOK = true
					}
				})
				if !evOK {
					return "grower.enableValidation() does not dominate grower.grow on this route: names such as '../x' or 'a/b' reach the " + into + " stage unvalidated"
				}
				// (b) error side / data dependence
				res := grow.Common().Signature().Results()
				switch {
				case res.Len() == 1 && isErrorType(res.At(0).Type()):
					if !guardedNil(grow, site) {
						return "the " + into + " stage is entered without being on the nil side of grow's error: a validation failure would not stop it"
					}
				default:
					ex := siblingExtract(grow, 0)
					dep := false
					for _, a := range args {
						if ex != nil && resolve(a) == ex {
							dep = true
						}
					}
					if !dep {
						return "the " + into + " stage does not consume the channel produced by the grow stage: roots can bypass validation"
					}
				}
				return ""
			}
			if why := gate(fn, bc, bc.Common().Args, 0); why != "" {
				l.bad(fid, construct, pos, why, "gate")
			} else {
				l.ok(fid, construct, pos, "enableValidation() dominates grow(); the stage runs only on grow's nil-error side / on grow's output stream", true, "gate")
			}
		})
	}
	if nGates == 0 {
		l.undecided("-", "entries into mkdirer/verifier", "-", "none found", "gate")
	}
	// pipeline grower worker: after a failed assemble the root must not be forwarded
	for _, fn := range libFuncs(p) {
		allInstrs(fn, func(in ssa.Instruction) {
			c, ok := in.(*ssa.Call)
			if !ok || !isErrorType(c.Type()) {
				return
			}
			f := c.Common().StaticCallee()
			if f == nil || fname(f) != "assemble" || fname(fn) != "worker" {
				return
			}
			root := c.Common().Args[len(c.Common().Args)-1]
			// every hand-over of that root must be on the nil side of the error
			nSend, bad := 0, ""
			allInstrs(fn, func(in2 ssa.Instruction) {
				switch x := in2.(type) {
				case *ssa.Send:
					if sameVar(x.X, root) {
						nSend++
						if !guardedNil(c, x) {
							bad = p.InstrPos(x)
						}
					}
				case *ssa.Select:
					for _, st := range x.States {
						if st.Dir == types.SendOnly && sameVar(st.Send, root) {
							nSend++
							if !guardedNil(c, x) {
								bad = p.InstrPos(x)
							}
						}
					}
				}
			})
			construct := "forwarding after " + calleeString(c.Common())
			if bad != "" {
				l.bad(p.FuncID(fn), construct, p.InstrPos(c), "the root is handed to the next stage at "+bad+" even when assembling (and validating) it failed", "forward")
			} else if nSend > 0 {
				l.ok(p.FuncID(fn), construct, p.InstrPos(c), fmt.Sprintf("%d hand-over(s) of the root, all on the nil-error side", nSend), true, "forward")
			}
		})
	}
	// (b2) every root that enters a grower stage is assembled: the per-root call of the recursive assembler is not
	// skipped for some roots (a fast path for "simple" roots skips their validation and cache reset as well)
	for _, pp := range []*Prog{p, w.W()} {
		l.cfg = pp.Cfg.Name
		for _, fn := range libFuncs(pp) {
			if pp.Cfg.Name == "W" && !wOnlyFunc(w, fn) {
				continue
			}
			if !strings.Contains(recvTypeName(fn), "rower") {
				continue
			}
			num := numbered{}
			allInstrs(fn, func(in ssa.Instruction) {
				c, ok := in.(*ssa.Call)
				if !ok || c.Common().StaticCallee() == nil || !pp.InModule(c.Common().StaticCallee()) {
					return
				}
				callee := c.Common().StaticCallee()
				if outermost(fn) == callee || !callsItself(callee) || !strings.Contains(recvTypeName(callee), "rower") || len(c.Common().Args) < 2 || !isNodePtr(c.Common().Args[1].Type()) {
					return
				}
				root := c.Common().Args[1]
				construct := num.name("every root goes through " + fname(callee))
				bad := ""
				for _, g := range guardsOf(c.Block()) {
					cond, _ := flattenCond(g.Cond, g.Pol)
					if isRangeLoopCond(cond) || isIndexLoopCond(cond) {
						continue
					}
					if tv, _, isNil := nilTest(g.Cond, g.Pol); isNil && sameVar(tv, root) {
						continue // a nil root is skipped
					}
					if dependsOnValue(cond, root, 0) {
						bad = "the call is made only when " + describeValue(cond) + " (a condition on the root itself) holds, at " + pp.InstrPos(g.If)
					}
				}
				if bad != "" {
					l.bad(pp.FuncID(fn), construct, pp.InstrPos(c), bad+": roots on the other side are handed on without branch assembly, cache reset and name validation", "grow-all")
				} else {
					l.ok(pp.FuncID(fn), construct, pp.InstrPos(c), "no condition on the root guards the per-root assembly", true, "grow-all")
				}
			})
		}
	}
	// (c) validatePath atoms, (d) guards of the validatePath call — in D and W
	for _, pp := range []*Prog{p, w.W()} {
		l.cfg = pp.Cfg.Name
		nc := newNilCtx(pp)
		for _, fn := range libFuncs(pp) {
			if pp.Cfg.Name == "W" && !wOnlyFunc(w, fn) {
				continue
			}
			// functions that call validatePath: whenever the validation flag is set, every return must
			// hand back validatePath's verdict (or another error); a nil return is allowed only on the
			// flag's false side or where the node itself is nil
			var vcalls []*ssa.Call
			allInstrs(fn, func(in ssa.Instruction) {
				if c, ok := in.(*ssa.Call); ok && c.Common().StaticCallee() != nil && fname(c.Common().StaticCallee()) == "validatePath" {
					vcalls = append(vcalls, c)
				}
			})
			if len(vcalls) == 0 {
				continue
			}
			node := vcalls[0].Common().Args[0]
			construct := "validation coverage of returns"
			var bad []string
			allInstrs(fn, func(in ssa.Instruction) {
				r, ok := in.(*ssa.Return)
				if !ok || len(rr(r)) == 0 {
					return
				}
				ev := rr(r)[len(rr(r))-1]
				if !isErrorType(ev.Type()) {
					return
				}
				if isValidateVerdict(ev, map[ssa.Value]bool{}) || nc.nonNil(ev, r, 0) {
					return
				}
				for _, g := range guardsOf(r.Block()) {
					cond, pol := flattenCond(g.Cond, g.Pol)
					if _, f, ok := fieldOfLoad(cond); ok && f == "enabledValidation" && !pol {
						return
					}
				}
				if guardedNil(node, r) {
					return
				}
				// the verdict was taken and found nil before this return (further, stricter checks may follow)
				for _, vc := range vcalls {
					if guardedNil(vc, r) {
						return
					}
				}
				// path form: every route from the entry to this return crosses the flag's false edge, the nil edge
				// of a validatePath verdict, or the nil edge of the node itself
				safeEdge := func(from *ssa.BasicBlock, k int) bool {
					if len(from.Instrs) == 0 || len(from.Succs) != 2 {
						return false
					}
					ifi, ok := from.Instrs[len(from.Instrs)-1].(*ssa.If)
					if !ok {
						return false
					}
					pol := k == 0
					cond, p2 := flattenCond(ifi.Cond, pol)
					if _, f, ok := fieldOfLoad(cond); ok && f == "enabledValidation" && !p2 {
						return true
					}
					if tv, nonNil, ok := nilTest(ifi.Cond, pol); ok && !nonNil {
						for _, vc := range vcalls {
							if resolve(tv) == ssa.Value(vc) || sameVar(tv, vc) {
								return true
							}
						}
						if sameVar(tv, node) {
							return true
						}
					}
					return false
				}
				seen := map[*ssa.BasicBlock]bool{}
				reached := false
				var walk func(b *ssa.BasicBlock)
				walk = func(b *ssa.BasicBlock) {
					if seen[b] || reached {
						return
					}
					seen[b] = true
					if b == r.Block() {
						reached = true
						return
					}
					for k, s2 := range b.Succs {
						if !safeEdge(b, k) {
							walk(s2)
						}
					}
				}
				walk(fn.Blocks[0])
				if !reached {
					return
				}
				bad = append(bad, pp.InstrPos(r))
			})
			if len(bad) > 0 {
				l.bad(pp.FuncID(fn), construct, pp.InstrPos(vcalls[0]), "with the validation flag set, the return(s) at "+strings.Join(bad, ", ")+" hand back nil without having called validatePath: some nodes (e.g. roots) escape validation", "validate-call")
			} else {
				l.ok(pp.FuncID(fn), construct, pp.InstrPos(vcalls[0]), fmt.Sprintf("%d validatePath call(s); every nil return lies on the flag's false side", len(vcalls)), true, "validate-call")
			}
			// callers must propagate this function's verdict: ERR-1 covers that
		}
		if pp.Cfg.Name == "W" {
			continue
		}
		vp := pp.Func("(*gtree.Node).validatePath")
		if vp == nil {
			l.undecided("(*gtree.Node).validatePath", "validatePath", "-", "function not found", "validate")
			continue
		}
		slashOK, validOK := false, false
		allInstrs(vp, func(in ssa.Instruction) {
			r, ok := in.(*ssa.Return)
			if !ok || !nc.nonNil(rr(r)[0], r, 0) {
				return
			}
			for _, g := range guardsOf(r.Block()) {
				cond, pol := flattenCond(g.Cond, g.Pol)
				// strings.Index*(n.name, "/") >= 0 (or != -1, > -1) is the same test
				if b, isB := cond.(*ssa.BinOp); isB {
					if ic, isC := b.X.(*ssa.Call); isC {
						switch calleeFullName(ic.Common()) {
						case "strings.IndexByte", "strings.Index", "strings.IndexRune", "strings.IndexAny":
							s, isStr := constString(ic.Common().Args[1])
							if !isStr {
								if k, isInt := constInt(stripConv(ic.Common().Args[1])); isInt && k == '/' {
									s = "/"
								}
							}
							_, f, isField := fieldOfLoad(ic.Common().Args[0])
							if k, isK := constInt(b.Y); isK && strings.Contains(s, "/") && isField && f == "name" {
								op := b.Op
								if !pol {
									op = negateOp(op)
								}
								if (op == token.GEQ && k == 0) || (op == token.NEQ && k == -1) || (op == token.GTR && k == -1) {
									slashOK = true
								}
							}
						}
					}
				}
				call, ok := cond.(*ssa.Call)
				if !ok {
					continue
				}
				// the path test moved into a helper of the node: func (n *Node) hasValidPath() bool { return fs.ValidPath(n.path()) }
				if h := call.Common().StaticCallee(); h != nil && pp.InModule(h) && recvTypeName(h) == "Node" && !pol && len(h.Blocks) > 0 {
					allInstrs(h, func(in2 ssa.Instruction) {
						r2, isR := in2.(*ssa.Return)
						if !isR || len(rr(r2)) != 1 {
							return
						}
						if vc, isC := stripConv(rr(r2)[0]).(*ssa.Call); isC && calleeFullName(vc.Common()) == "io/fs.ValidPath" {
							if pc, ok := vc.Common().Args[0].(*ssa.Call); ok && pc.Common().StaticCallee() != nil && fname(pc.Common().StaticCallee()) == "path" {
								validOK = true
							}
						}
					})
				}
				switch calleeFullName(call.Common()) {
				case "strings.ContainsAny", "strings.Contains", "strings.ContainsRune":
					s, isStr := constString(call.Common().Args[1])
					if !isStr {
						if k, isInt := constInt(call.Common().Args[1]); isInt && k == '/' {
							s = "/"
						}
					}
					if !isStr && calleeFullName(call.Common()) == "strings.ContainsAny" {
						// "/" + more characters chosen by an option: the set still contains '/'
						if bo, isB := stripConv(resolve(call.Common().Args[1])).(*ssa.BinOp); isB && bo.Op == token.ADD {
							for _, part := range []ssa.Value{bo.X, bo.Y} {
								if cs, isC := constString(part); isC && strings.Contains(cs, "/") {
									s = cs
								}
							}
						}
					}
					_, f, isField := fieldOfLoad(call.Common().Args[0])
					if pol && strings.Contains(s, "/") && isField && f == "name" {
						slashOK = true
					}
				case "io/fs.ValidPath":
					if !pol {
						if pc, ok := call.Common().Args[0].(*ssa.Call); ok && pc.Common().StaticCallee() != nil && fname(pc.Common().StaticCallee()) == "path" {
							validOK = true
						}
					}
				}
			}
		})
		if slashOK {
			l.ok("(*gtree.Node).validatePath", "rejecting atom: name contains '/'", pp.Pos(vp.Pos()), "a non-nil error is returned on the true side of strings.Contains*(n.name, …\"/\"…)", true, "validate")
		} else {
			l.bad("(*gtree.Node).validatePath", "rejecting atom: name contains '/'", pp.Pos(vp.Pos()), "no return of a non-nil error guarded by a test that the node name contains '/'", "validate")
		}
		// third atom: "." and ".." are no names of their own — path.Join resolves them away, so the joined path is valid
		// (a/.. = ".") although it is not the path of this node: the node is silently not created, or created elsewhere
		dotNames := map[string]bool{}
		allInstrs(vp, func(in ssa.Instruction) {
			r, ok := in.(*ssa.Return)
			if !ok || !nc.nonNil(rr(r)[0], r, 0) {
				return
			}
			for _, g := range guardsOf(r.Block()) {
				cond, pol := flattenCond(g.Cond, g.Pol)
				if b, isB := cond.(*ssa.BinOp); isB && ((b.Op == token.EQL && pol) || (b.Op == token.NEQ && !pol)) {
					for _, pair := range [][2]ssa.Value{{b.X, b.Y}, {b.Y, b.X}} {
						if _, f, isF := fieldOfLoad(pair[0]); isF && f == "name" {
							if sv, isS := constString(pair[1]); isS {
								dotNames[sv] = true
							}
						}
					}
				}
			}
		})
		// the same decided by a phi of the two comparisons (n.name == "." || n.name == "..")
		allInstrs(vp, func(in ssa.Instruction) {
			b, ok := in.(*ssa.BinOp)
			if !ok || b.Op != token.EQL {
				return
			}
			for _, pair := range [][2]ssa.Value{{b.X, b.Y}, {b.Y, b.X}} {
				if _, f, isF := fieldOfLoad(pair[0]); isF && f == "name" {
					if sv, isS := constString(pair[1]); isS && (sv == "." || sv == ".." || sv == "") {
						// does a true outcome lead to a non-nil error return?  (either directly or through the || phi)
						for blk := range blockReachOnTrue(b) {
							for _, i2 := range blk.Instrs {
								if r, isR := i2.(*ssa.Return); isR && nc.nonNil(rr(r)[0], r, 0) {
									dotNames[sv] = true
								}
							}
						}
					}
				}
			}
		})
		if dotNames["."] && dotNames[".."] {
			l.ok("(*gtree.Node).validatePath", "rejecting atom: name is \".\" or \"..\"", pp.Pos(vp.Pos()), "a non-nil error is returned when the node name is \".\" or \"..\"", true, "validate")
		} else {
			l.bad("(*gtree.Node).validatePath", "rejecting atom: name is \".\" or \"..\"", pp.Pos(vp.Pos()), "no return of a non-nil error for the names \".\" and \"..\": path.Join resolves them away, so the joined path passes fs.ValidPath although it is not this node's path — `a/..` is accepted and nothing (or the wrong directory) is made for it", "validate")
		}
		// fourth atom: the empty name — path.Join drops it, so the children of "" are made in its parent and the joined
		// path is valid although the tree holds a name that is no path element
		emptyOK := dotNames[""]
		allInstrs(vp, func(in ssa.Instruction) {
			b, ok := in.(*ssa.BinOp)
			if !ok {
				return
			}
			lc, isL := b.X.(*ssa.Call)
			k, isK := constInt(b.Y)
			if !isL || !isK || !isBuiltinCall(lc, "len") {
				return
			}
			if _, f, isF := fieldOfLoad(lc.Common().Args[0]); !isF || f != "name" {
				return
			}
			// the outcome of the comparison that means "empty"
			var emptyOn map[*ssa.BasicBlock]bool
			switch {
			case (b.Op == token.EQL && k == 0) || (b.Op == token.LSS && k == 1) || (b.Op == token.LEQ && k == 0):
				emptyOn = blockReachOnTrue(b)
			default:
				return
			}
			for blk := range emptyOn {
				for _, i2 := range blk.Instrs {
					if r, isR := i2.(*ssa.Return); isR && nc.nonNil(rr(r)[0], r, 0) {
						emptyOK = true
					}
				}
			}
		})
		if emptyOK {
			l.ok("(*gtree.Node).validatePath", "rejecting atom: name is empty", pp.Pos(vp.Pos()), "a non-nil error is returned when the node name is empty", true, "validate")
		} else {
			l.bad("(*gtree.Node).validatePath", "rejecting atom: name is empty", pp.Pos(vp.Pos()), "no return of a non-nil error for the empty name: path.Join drops an empty element, so the joined path passes fs.ValidPath and the children of \"\" are made in its parent — a tree holding a name that is no path element is accepted", "validate")
		}
		if validOK {
			l.ok("(*gtree.Node).validatePath", "rejecting atom: !fs.ValidPath(path)", pp.Pos(vp.Pos()), "a non-nil error is returned on the false side of fs.ValidPath(n.path())", true, "validate")
		} else {
			l.bad("(*gtree.Node).validatePath", "rejecting atom: !fs.ValidPath(path)", pp.Pos(vp.Pos()), "no return of a non-nil error guarded by !fs.ValidPath(n.path())", "validate")
		}
	}
	// (e) entries of operations that need grown nodes force the default encoding
	l.cfg = "D"
	encField := optionField(p, "WithEncodeJSON")
	if encField == "" {
		l.undecided("gtree.WithEncodeJSON", "encode field", "-", "the config field stored by WithEncodeJSON's closure was not found", "anchor")
		return l.list
	}
	needsGrown := func(fn *ssa.Function) bool {
		rt := recvTypeName(fn)
		return (stageOwners[rt] && (fname(fn) == "mkdir" || fname(fn) == "verify")) || (implementors(p, "walker")[rt] && (fname(fn) == "walk" || fname(fn) == "walkIter"))
	}
	nE := 0
	for _, e := range exportedEntries(p) {
		if findPath(p, e, needsGrown, nil) == nil {
			continue
		}
		// the initializeTree(cfg) calls in e and its closures
		var fam []*ssa.Function
		var coll func(f *ssa.Function)
		coll = func(f *ssa.Function) {
			fam = append(fam, f)
			for _, a := range f.AnonFuncs {
				coll(a)
			}
		}
		coll(e)
		for _, f := range fam {
			allInstrs(f, func(in ssa.Instruction) {
				c, ok := in.(*ssa.Call)
				if !ok || c.Common().StaticCallee() == nil || fname(c.Common().StaticCallee()) != "initializeTree" {
					return
				}
				nE++
				fid := p.FuncID(f)
				construct := "default encoding before initializeTree"
				if why, ok := fieldEstablished(p, c.Common().Args[0], c, encField, 0); ok {
					l.ok(fid, construct, p.InstrPos(c), why, true, "encode")
				} else {
					l.bad(fid, construct, p.InstrPos(c), "config."+encField+" is not forced to the default before the tree is built: with WithEncodeJSON/YAML/TOML the grower is the no-op, so paths are never assembled and names never validated on this mkdir/verify/walk route ("+why+")", "encode")
				}
			})
		}
	}
	if nE == 0 {
		l.undecided("-", "entries needing grown nodes", "-", "none found", "encode")
	}
	// conversely, the output entries must keep the encoding the caller asked for
	nK := 0
	for _, e := range exportedEntries(p) {
		if !strings.HasPrefix(e.Name(), "Output") {
			continue
		}
		allInstrs(e, func(in ssa.Instruction) {
			c, ok := in.(*ssa.Call)
			if !ok || c.Common().StaticCallee() == nil || fname(c.Common().StaticCallee()) != "initializeTree" {
				return
			}
			nK++
			construct := "encoding option reaches the tree"
			if why, forced := fieldEstablished(p, c.Common().Args[0], c, encField, 0); forced {
				l.bad(p.FuncID(e), construct, p.InstrPos(c), "the output entry point resets config."+encField+" to the default ("+why+"): WithEncodeJSON/YAML/TOML is silently ignored here", "encode-kept")
			} else {
				l.ok(p.FuncID(e), construct, p.InstrPos(c), "config."+encField+" is what the options set", true, "encode-kept")
			}
		})
	}
	if nK == 0 {
		l.undecided("-", "output entries", "-", "none found", "encode-kept")
	}
	return l.list
}

func fieldOfLoad(v ssa.Value) (string, string, bool) {
	v = stripConv(v)
	if ld, ok := isLoad(v); ok {
		return fieldOf(ld)
	}
	if f, ok := v.(*ssa.Field); ok {
		return fieldOf(f)
	}
	return "", "", false
}

// fieldEstablished: at instruction 'at', the object cfg has field set to the integer constant k by
// a dominating store in this function, or cfg is the result of a module constructor whose every
// return is dominated by such a store executed after the options were applied.
func fieldEstablished(p *Prog, cfg ssa.Value, at ssa.Instruction, field string, k int64) (string, bool) {
	fn := at.Parent()
	found := false
	allInstrs(fn, func(in ssa.Instruction) {
		st, ok := in.(*ssa.Store)
		if !ok {
			return
		}
		fa, ok := st.Addr.(*ssa.FieldAddr)
		if !ok {
			return
		}
		if _, f, _ := fieldOf(fa); f != field || !sameVar(fa.X, cfg) {
			return
		}
		if n, ok := constInt(st.Val); ok && n == k {
			if (st.Block() == at.Block() && instrIndex(st) < instrIndex(at)) || (st.Block() != at.Block() && st.Block().Dominates(at.Block())) {
				found = true
			}
		}
	})
	if found {
		return "a store of the default to config." + field + " dominates the call", true
	}
	call, ok := resolve(cfg).(*ssa.Call)
	var ctor *ssa.Function
	if !ok {
		// (cfg, err) := prepare(root, options, newCfg): the helper hands back what the constructor it was given (or
		// the one it calls itself) built
		ex, isEx := resolve(cfg).(*ssa.Extract)
		if !isEx {
			return "config value is " + describeValue(cfg), false
		}
		hc, isCall := ex.Tuple.(*ssa.Call)
		if !isCall || hc.Common().StaticCallee() == nil || !p.InModule(hc.Common().StaticCallee()) {
			return "config value is " + describeValue(cfg), false
		}
		h := hc.Common().StaticCallee()
		var inner *ssa.Function
		consistent := true
		allInstrs(h, func(in ssa.Instruction) {
			r, isRet := in.(*ssa.Return)
			if !isRet || ex.Index >= len(rr(r)) {
				return
			}
			v := rr(r)[ex.Index]
			if isNilConst(v) {
				return // the error return
			}
			c2, isC := resolve(v).(*ssa.Call)
			if !isC {
				consistent = false
				return
			}
			var f *ssa.Function
			if sc := c2.Common().StaticCallee(); sc != nil {
				f = sc
			} else if prm, isP := c2.Common().Value.(*ssa.Parameter); isP {
				if i := paramIndex(h, prm); i >= 0 && i < len(hc.Common().Args) {
					f, _ = hc.Common().Args[i].(*ssa.Function)
				}
			}
			if f == nil || (inner != nil && inner != f) {
				consistent = false
				return
			}
			inner = f
		})
		if !consistent || inner == nil {
			return "config value is " + describeValue(cfg), false
		}
		ctor = inner
	} else {
		ctor = call.Common().StaticCallee()
	}
	if ctor == nil || !p.InModule(ctor) {
		return "config comes from a constructor outside the module", false
	}
	// in ctor: every return is dominated by a store of k to field of the returned object, and after that
	// store no call receives the object (options could overwrite it)
	okAll, n := true, 0
	allInstrs(ctor, func(in ssa.Instruction) {
		r, isRet := in.(*ssa.Return)
		if !isRet {
			return
		}
		n++
		obj := rr(r)[0]
		good := false
		allInstrs(ctor, func(in2 ssa.Instruction) {
			st, ok := in2.(*ssa.Store)
			if !ok {
				return
			}
			fa, ok := st.Addr.(*ssa.FieldAddr)
			if !ok {
				return
			}
			if _, f, _ := fieldOf(fa); f != field || !sameVar(fa.X, obj) {
				return
			}
			if v, ok := constInt(st.Val); !ok || v != k {
				return
			}
			if !(st.Block() == r.Block() || st.Block().Dominates(r.Block())) {
				return
			}
			// nothing after the store may receive obj
			clean := true
			allInstrs(ctor, func(in3 ssa.Instruction) {
				ci, ok := in3.(ssa.CallInstruction)
				if !ok || !reachableAfter(st, in3) {
					return
				}
				for _, a := range ci.Common().Args {
					if sameVar(a, obj) {
						clean = false
					}
				}
			})
			if clean {
				good = true
			}
		})
		if !good {
			okAll = false
		}
	})
	if okAll && n > 0 {
		return "config built by " + relFunc(ctor) + ", which stores the default into ." + field + " after applying the options on every return path", true
	}
	return "constructor " + relFunc(ctor) + " does not force ." + field, false
}

// ---------------------------------------------------------------------------------------------
// EFF-5

type provLeaf struct {
	kind string // targetDir, node.path, node.name, const, walkrel, cfg.<field>, unknown
	desc string
}

func provenance(p *Prog, v ssa.Value, depth int, seen map[ssa.Value]bool) []provLeaf {
	if depth > 8 || seen[v] {
		return nil
	}
	seen[v] = true
	v = stripConv(v)
	switch x := v.(type) {
	case *ssa.Const:
		return []provLeaf{{"const", describeValue(x)}}
	case *ssa.Phi:
		var out []provLeaf
		for _, e := range x.Edges {
			out = append(out, provenance(p, e, depth+1, seen)...)
		}
		return out
	case *ssa.Parameter:
		fn := x.Parent()
		idx := -1
		for i, prm := range fn.Params {
			if prm == x {
				idx = i
			}
		}
		// fs.WalkDir callback parameters: relative path inside the walked root
		if fn.Parent() != nil && x.Type().String() == "string" && idx == 0 {
			if sig := fn.Signature; sig.Params().Len() == 3 && isNamed(sig.Params().At(1).Type(), "io/fs", "DirEntry") && isErrorType(sig.Params().At(2).Type()) {
				return []provLeaf{{"walkrel", x.Name()}}
			}
		}
		callers := p.Callers(fn)
		if len(callers) == 0 {
			return []provLeaf{{"unknown", "parameter " + x.Name() + " of " + relFunc(fn) + " (no module caller)"}}
		}
		var out []provLeaf
		for _, ci := range callers {
			com := ci.Common()
			var arg ssa.Value
			if com.IsInvoke() {
				if idx >= 1 && idx-1 < len(com.Args) {
					arg = com.Args[idx-1]
				}
			} else if idx < len(com.Args) {
				arg = com.Args[idx]
			}
			if arg == nil {
				out = append(out, provLeaf{"unknown", "argument not found at " + p.InstrPos(ci)})
				continue
			}
			out = append(out, provenance(p, arg, depth+1, seen)...)
		}
		return out
	case *ssa.Call:
		name := calleeFullName(x.Common())
		switch name {
		case "path/filepath.Join", "path.Join":
			elems, ok := variadicElems(x.Common().Args[0])
			if !ok {
				return []provLeaf{{"unknown", "Join with non-literal argument list"}}
			}
			var out []provLeaf
			for _, e := range elems {
				out = append(out, provenance(p, e, depth+1, seen)...)
			}
			return out
		case "strings.TrimSuffix", "strings.TrimPrefix", "path/filepath.Clean", "path/filepath.Dir", "path.Dir", "path.Clean", "path/filepath.FromSlash", "path/filepath.ToSlash":
			return provenance(p, x.Common().Args[0], depth+1, seen)
		}
		if f := x.Common().StaticCallee(); f != nil && p.InModule(f) && recvTypeName(f) == "Node" && fname(f) == "path" {
			return []provLeaf{{"node.path", describeValue(x.Common().Args[0]) + ".path()"}}
		}
		if f := x.Common().StaticCallee(); f != nil && p.InModule(f) && f.Blocks != nil && !callsItself(f) {
			var out []provLeaf
			allInstrs(f, func(in ssa.Instruction) {
				if r, ok := in.(*ssa.Return); ok && len(rr(r)) > 0 {
					out = append(out, provenance(p, rr(r)[0], depth+1, seen)...)
				}
			})
			if len(out) > 0 {
				return out
			}
		}
		return []provLeaf{{"unknown", calleeString(x.Common())}}
	case *ssa.UnOp:
		if x.Op == token.MUL {
			if r := resolve(x); r != ssa.Value(x) {
				return provenance(p, r, depth+1, seen)
			}
			if fa, ok := x.X.(*ssa.FieldAddr); ok {
				tn, f, _ := fieldOf(fa)
				switch {
				case tn != "config" && (f == "targetDir" || targetDirFields(p)[tn+"."+f]):
					return []provLeaf{{"targetDir", tn + "." + f}}
				case tn == "Node" && f == "name":
					return []provLeaf{{"node.name", "Node.name"}}
				case tn == "config":
					return []provLeaf{{"cfg." + f, "config." + f}}
				}
				return []provLeaf{{"unknown", "field " + tn + "." + f}}
			}
		}
	case *ssa.BinOp:
		if x.Op == token.ADD {
			return append(provenance(p, x.X, depth+1, seen), provenance(p, x.Y, depth+1, seen)...)
		}
	}
	return []provLeaf{{"unknown", describeValue(v)}}
}

// joinedUnderTarget: v (a path argument) is Join(targetDir, rest…) at every origin.
func joinedUnderTarget(p *Prog, v ssa.Value, depth int) (bool, string) {
	v = stripConv(resolve(v))
	if depth > 6 {
		return false, "too deep"
	}
	switch x := v.(type) {
	case *ssa.Phi:
		for _, e := range x.Edges {
			if ok, why := joinedUnderTarget(p, e, depth+1); !ok {
				return false, why
			}
		}
		return true, ""
	case *ssa.Parameter:
		fn := x.Parent()
		idx := -1
		for i, prm := range fn.Params {
			if prm == x {
				idx = i
			}
		}
		callers := p.Callers(fn)
		if len(callers) == 0 {
			return false, "parameter " + x.Name() + " has no module caller"
		}
		for _, ci := range callers {
			if idx >= len(ci.Common().Args) {
				return false, "argument not found"
			}
			if ok, why := joinedUnderTarget(p, ci.Common().Args[idx], depth+1); !ok {
				return false, why + " (call at " + p.InstrPos(ci) + ")"
			}
		}
		return true, ""
	case *ssa.Call:
		if calleeFullName(x.Common()) == "path/filepath.Join" {
			elems, ok := variadicElems(x.Common().Args[0])
			if !ok || len(elems) == 0 {
				return false, "Join with non-literal arguments"
			}
			first := provenance(p, elems[0], 0, map[ssa.Value]bool{})
			if len(first) != 1 || first[0].kind != "targetDir" {
				return false, "the first element of filepath.Join is not the target directory field"
			}
			for _, e := range elems[1:] {
				for _, lf := range provenance(p, e, 0, map[ssa.Value]bool{}) {
					switch lf.kind {
					case "node.path", "node.name", "const", "walkrel":
					default:
						return false, "a path element derives from " + lf.desc
					}
				}
			}
			return true, ""
		}
		if f := x.Common().StaticCallee(); f != nil && p.InModule(f) && f.Blocks != nil && !callsItself(f) && depth < 5 {
			// a helper that builds the path: every return must be Join(targetDir, …) of its arguments
			okAll, n := true, 0
			why := ""
			allInstrs(f, func(in ssa.Instruction) {
				r, isRet := in.(*ssa.Return)
				if !isRet || len(rr(r)) == 0 {
					return
				}
				n++
				if ok, w2 := joinedUnderTarget(p, rr(r)[0], depth+1); !ok {
					okAll, why = false, w2
				}
			})
			if okAll && n > 0 {
				return true, ""
			}
			if why != "" {
				return false, why + " (in helper " + relFunc(f) + ")"
			}
		}
		return false, "path is produced by " + calleeString(x.Common()) + ", not by filepath.Join(targetDir, …)"
	}
	return false, "path is " + describeValue(v)
}

func ruleEFF5(w *World) []Ob {
	p := w.D()
	l := &obs{rule: "EFF-5", cfg: "D"}
	owners := implementors(p, "mkdirer")
	for k := range implementors(p, "verifier") {
		owners[k] = true
	}
	sites := directSites(p)
	n := 0
	for _, fn := range libFuncs(p) {
		if !owners[recvTypeName(fn)] {
			continue
		}
		num := numbered{}
		for _, s := range sites[fn] {
			if s.eff != EffFSMutate && s.eff != EffFSRead {
				continue
			}
			args := s.instr.Common().Args
			var pathArg ssa.Value
			for _, a := range args {
				if b, ok := a.Type().Underlying().(*types.Basic); ok && b.Kind() == types.String {
					pathArg = a
					break
				}
			}
			if pathArg == nil {
				continue // os.IsNotExist(err), fs.WalkDir(fsys, ".", …) handled below
			}
			if s.callee == "io/fs.WalkDir" {
				if cs, ok := constString(pathArg); ok && cs == "." {
					continue
				}
			}
			n++
			construct := num.name("path argument of " + s.callee)
			if ok, why := joinedUnderTarget(p, pathArg, 0); ok {
				l.ok(p.FuncID(fn), construct, p.InstrPos(s.instr), "filepath.Join(targetDir, node path/name elements) at every origin", true, "path")
			} else {
				l.bad(p.FuncID(fn), construct, p.InstrPos(s.instr), "the path handed to the filesystem is not provably below the target directory: "+why, "path")
			}
		}
	}
	if n == 0 {
		l.undecided("-", "filesystem path arguments", "-", "none found in mkdirer/verifier", "path")
	}
	// targetDir fields are fed from the WithTargetDir option
	tf := optionField(p, "WithTargetDir")
	if tf == "" {
		l.undecided("gtree.WithTargetDir", "target-dir field", "-", "config field stored by WithTargetDir not found", "anchor")
		return l.list
	}
	for _, fn := range libFuncs(p) {
		allInstrs(fn, func(in ssa.Instruction) {
			st, ok := in.(*ssa.Store)
			if !ok {
				return
			}
			fa, ok := st.Addr.(*ssa.FieldAddr)
			if !ok {
				return
			}
			tn, f, _ := fieldOf(fa)
			if tn == "config" || !(f == "targetDir" || targetDirFields(p)[tn+"."+f]) {
				return
			}
			construct := "store to " + tn + "." + f
			var bad []string
			fromCfg := false
			for _, lf := range provenance(p, st.Val, 0, map[ssa.Value]bool{}) {
				switch lf.kind {
				case "const":
				case "cfg." + tf:
					fromCfg = true
				case "targetDir":
					fromCfg = true // copied from another target-directory field, which is judged where it is stored
				default:
					bad = append(bad, lf.desc)
				}
			}
			if len(bad) > 0 || !fromCfg {
				l.bad(p.FuncID(fn), construct, p.InstrPos(st), "the target directory of the stage is not (only) the WithTargetDir option value or a constant default: "+strings.Join(dedupSorted(bad), ", "), "target")
			} else {
				l.ok(p.FuncID(fn), construct, p.InstrPos(st), "fed from config."+tf+" (default constant otherwise)", true, "target")
			}
		})
	}
	return l.list
}

// ---------------------------------------------------------------------------------------------
// EFF-6

func ruleEFF6(w *World) []Ob {
	p := w.D()
	l := &obs{rule: "EFF-6", cfg: "D"}
	owners := implementors(p, "mkdirer")
	sites := directSites(p)
	direct := func(fn *ssa.Function, e Effect) bool {
		for _, s := range sites[fn] {
			if s.eff == e {
				return true
			}
		}
		return false
	}
	creating := map[*ssa.Function]bool{}
	for _, fn := range libFuncs(p) {
		if owners[recvTypeName(fn)] && findPath(p, fn, func(f *ssa.Function) bool { return direct(f, EffFSMutate) }, nil) != nil {
			creating[fn] = true
		}
	}
	nc := newNilCtx(p)
	n := 0
	for fn := range creating {
		// top-level creating functions: entered from outside the creating set or started by go
		top := false
		for _, ci := range p.Callers(fn) {
			if _, isGo := ci.(*ssa.Go); isGo || !creating[ci.Parent()] {
				top = true
			}
		}
		if !top {
			continue
		}
		fid := p.FuncID(fn)
		num := numbered{}
		allInstrs(fn, func(in ssa.Instruction) {
			c, ok := in.(*ssa.Call)
			if !ok {
				return
			}
			callee := c.Common().StaticCallee()
			if callee == nil || !creating[callee] || callee == fn {
				return
			}
			n++
			construct := num.name("creating call " + calleeString(c.Common()))
			pos := p.InstrPos(c)
			// guard: false side of a call to an existence test
			var test *ssa.Call
			var tg Guard
			for _, g := range guardsOf(c.Block()) {
				cond, pol := flattenCond(g.Cond, g.Pol)
				tc, ok := cond.(*ssa.Call)
				if !ok || pol {
					continue
				}
				tf := tc.Common().StaticCallee()
				if tf == nil || !p.InModule(tf) {
					continue
				}
				stats := findPath(p, tf, func(f *ssa.Function) bool {
					for _, s := range sites[f] {
						if s.callee == "os.Stat" || s.callee == "os.Lstat" {
							return true
						}
					}
					return false
				}, nil) != nil
				if stats && !creating[tf] {
					test, tg = tc, g
				}
			}
			if test == nil {
				l.bad(fid, construct, pos, "no existence test (a function that stats the roots) guards this creating call: existing roots would be written into instead of failing with the path-exists error", "exists")
				return
			}
			// the true side returns / sends a non-nil error
			trueSucc := tg.If.Block().Succs[0]
			if tg.Pol { // guard recorded with pol of original cond; find the side where test is true
				trueSucc = tg.If.Block().Succs[1]
			}
			c2, pol2 := flattenCond(tg.If.Cond, true)
			_ = c2
			if !pol2 {
				trueSucc = tg.If.Block().Succs[1]
			} else {
				trueSucc = tg.If.Block().Succs[0]
			}
			sentinel := false
			for b := range blockReach(trueSucc, map[*ssa.BasicBlock]bool{c.Block(): true}) {
				for _, in2 := range b.Instrs {
					switch x := in2.(type) {
					case *ssa.Return:
						if len(rr(x)) > 0 && nc.nonNil(rr(x)[len(rr(x))-1], x, 0) {
							sentinel = true
						}
					case *ssa.Send:
						if isErrorType(x.X.Type()) && nc.nonNil(x.X, x, 0) {
							sentinel = true
						}
					case ssa.CallInstruction:
						for _, a := range x.Common().Args {
							if isErrorType(a.Type()) && nc.nonNil(a, in2, 0) && len(p.ModCallees(x)) > 0 {
								sentinel = true
							}
						}
					}
				}
			}
			if !sentinel {
				l.bad(fid, construct, pos, "the 'exists' side of the test does not produce a non-nil error", "exists")
				return
			}
			// the tested collection covers the created node
			node := c.Common().Args[len(c.Common().Args)-1]
			targ := test.Common().Args[len(test.Common().Args)-1]
			if !coversNode(targ, node) {
				l.bad(fid, construct, pos, "the existence test is not applied to the collection the created root comes from (tested: "+describeValue(targ)+", created: "+describeValue(node)+")", "exists")
				return
			}
			isWorker := false
			for _, ci := range p.Callers(fn) {
				if _, isGo := ci.(*ssa.Go); isGo {
					isWorker = true
				}
			}
			if isWorker {
				// the pipeline's mkdirer tests and creates root by root inside its workers: the roots handled before
				// (or next to) a pre-existing one are created although the call fails, and a root that another worker
				// of the same call has just created (two roots of one name) counts as pre-existing
				l.bad(fid, "every root is tested before any root is created", pos, "the existence test "+relFunc(test.Common().StaticCallee())+" covers only the root this worker holds ("+describeValue(targ)+") and runs while other workers create theirs: when one root exists already the others are created all the same (the filesystem is not left unchanged), and with two roots of the same name the second is reported as existing depending on the schedule, whereas the simple mode tests all roots first", "exists-all")
			}
			if !isWorker && inLoop(c) && reachableAfter(c, test) {
				l.bad(fid, construct, pos, "the existence test runs inside the creation loop: roots handled before a pre-existing one are already created when the path-exists error is returned, so the filesystem is not left unchanged", "exists")
				return
			}
			if why := statsEveryElement(p, test.Common().StaticCallee(), nc); why != "" {
				l.bad(fid, construct, pos, "the existence test "+relFunc(test.Common().StaticCallee())+" is incomplete: "+why, "exists")
				return
			}
			l.ok(fid, construct, pos, "dominated by the not-exists side of "+relFunc(test.Common().StaticCallee())+" over the same roots; the exists side yields a non-nil error", true, "exists")
		})
	}
	// simple mode: the mkdirer is entered once with all the roots — entered root by root (a loop over the roots, the
	// body of a range over the root iterator) its existence test sees one root at a time and the roots before a
	// pre-existing one are made already when the path-exists error comes back
	{
		mk := implementors(p, "mkdirer")
		for _, fn := range libFuncs(p) {
			if mk[recvTypeName(outermost(fn))] {
				continue
			}
			num := numbered{}
			allInstrs(fn, func(in ssa.Instruction) {
				c, ok := in.(*ssa.Call)
				if !ok {
					return
				}
				simple := false
				for _, g := range p.ModCallees(c) {
					if mk[recvTypeName(g)] && fname(g) == "mkdir" && strings.HasSuffix(recvTypeName(g), "Simple") {
						simple = true
					}
				}
				if !simple {
					return
				}
				construct := num.name("all roots handed to " + calleeString(c.Common()) + " at once")
				if inLoop(c) || strings.HasPrefix(fn.Synthetic, "range-over-func") {
					l.bad(p.FuncID(fn), construct, p.InstrPos(c), "the simple mkdirer is entered once per root (inside a loop over the roots): its existence test covers only that root, so roots handled before a pre-existing one are created although the call fails with the path-exists error — the filesystem is not left unchanged", "exists-all")
				} else {
					l.ok(p.FuncID(fn), construct, p.InstrPos(c), "a single call outside any loop: the existence test sees every root before anything is created", true, "exists-all")
				}
			})
		}
	}
	if n == 0 {
		l.undecided("-", "creating calls in the mkdirer", "-", "none found", "exists")
	}
	return l.list
}

// coversNode: tested is the slice the node is taken from, or a slice literal containing the node.
func coversNode(tested, node ssa.Value) bool {
	if tested == node || sameVar(tested, node) || resolve(tested) == resolve(node) {
		return true // the test is applied to the node itself
	}
	if elems, ok := variadicElems(tested); ok {
		for _, e := range elems {
			if sameVar(e, node) {
				return true
			}
		}
		return false
	}
	// node = *(&tested[i]) or range element of tested
	n := resolve(node)
	if ld, ok := isLoad(n); ok {
		if ia, ok := ld.(*ssa.IndexAddr); ok && sameVar(ia.X, tested) {
			return true
		}
	}
	if ix, ok := n.(*ssa.Index); ok && sameVar(ix.X, tested) {
		return true
	}
	return false
}

// statsEveryElement: fn(param []*Node) stats an element reached with a non-constant index of the
// parameter inside a loop, and returns true exactly when !os.IsNotExist(err).
func statsEveryElement(p *Prog, fn *ssa.Function, nc *nilCtx) string {
	if fn == nil {
		return "test function unknown"
	}
	var slice *ssa.Parameter
	for _, prm := range fn.Params {
		if _, ok := prm.Type().Underlying().(*types.Slice); ok {
			slice = prm
		}
	}
	if slice == nil {
		// a predicate over one node
		if isExistencePredicate(fn) {
			return ""
		}
		return "no slice parameter"
	}
	// library form: slices.ContainsFunc(roots, <existence predicate>) handed back as the result
	libForm := ""
	allInstrs(fn, func(in ssa.Instruction) {
		c, ok := in.(*ssa.Call)
		if !ok || c.Common().StaticCallee() == nil {
			return
		}
		callee := c.Common().StaticCallee()
		if o := callee.Origin(); o != nil {
			callee = o
		}
		if callee.Pkg == nil || callee.Pkg.Pkg.Path() != "slices" || callee.Name() != "ContainsFunc" {
			return
		}
		if !sameVar(c.Common().Args[0], slice) {
			libForm = "slices.ContainsFunc is not applied to the whole roots parameter"
			return
		}
		var pred *ssa.Function
		switch f := resolve(c.Common().Args[1]).(type) {
		case *ssa.MakeClosure:
			pred = f.Fn.(*ssa.Function)
		case *ssa.Function:
			pred = f
		}
		// a method value (dm.isExist): the synthetic wrapper stands for the method it calls
		for d := 0; pred != nil && pred.Synthetic != "" && d < 2; d++ {
			var inner *ssa.Function
			allInstrs(pred, func(in2 ssa.Instruction) {
				if c2, ok := in2.(*ssa.Call); ok && c2.Common().StaticCallee() != nil {
					inner = c2.Common().StaticCallee()
				}
			})
			if inner == nil {
				break
			}
			pred = inner
		}
		if pred == nil || !isExistencePredicate(pred) {
			libForm = "the predicate given to slices.ContainsFunc is not an existence test (os.Stat, !os.IsNotExist)"
			return
		}
		allRet := true
		allInstrs(fn, func(in2 ssa.Instruction) {
			if r, ok := in2.(*ssa.Return); ok && (len(rr(r)) != 1 || rr(r)[0] != ssa.Value(c)) {
				allRet = false
			}
		})
		if allRet {
			libForm = "ok"
		} else {
			libForm = "the result of slices.ContainsFunc is not what the test returns"
		}
	})
	if libForm == "ok" {
		return ""
	}
	if libForm != "" {
		return libForm
	}
	var stat *ssa.Call
	var hit *ssa.Call // a call of a one-node existence predicate instead of a direct Stat
	allInstrs(fn, func(in ssa.Instruction) {
		if c, ok := in.(*ssa.Call); ok && (calleeFullName(c.Common()) == "os.Stat" || calleeFullName(c.Common()) == "os.Lstat") {
			stat = c
		}
		if c, ok := in.(*ssa.Call); ok && c.Common().StaticCallee() != nil && p.InModule(c.Common().StaticCallee()) && isExistencePredicate(c.Common().StaticCallee()) {
			hit = c
		}
	})
	if stat == nil && hit != nil {
		stat = hit
	}
	if stat == nil {
		return "no os.Stat call"
	}
	if !inLoop(stat) {
		return "os.Stat is not inside a loop over the roots (only one root is tested)"
	}
	// the loop indexes the parameter with a non-constant index
	indexed := false
	allInstrs(fn, func(in ssa.Instruction) {
		if ia, ok := in.(*ssa.IndexAddr); ok && sameVar(ia.X, slice) {
			if _, isConst := ia.Index.(*ssa.Const); !isConst && inLoop(ia) {
				indexed = true
			}
		}
	})
	if !indexed {
		return "the loop does not range over the roots parameter"
	}
	// range bound is len(param) — go/ssa lowers `range s` to a loop bounded by len(s); a sub-slice would show as *ssa.Slice
	sliced := false
	allInstrs(fn, func(in ssa.Instruction) {
		if sl, ok := in.(*ssa.Slice); ok && sameVar(sl.X, slice) {
			sliced = true
		}
	})
	if sliced {
		return "the roots parameter is re-sliced before the loop (not all roots are tested)"
	}
	errv := siblingExtract(stat, 1)
	// returns of true are guarded by !IsNotExist(err); returns of false are not inside the loop body after a stat hit
	okTrue := false
	bad := ""
	allInstrs(fn, func(in ssa.Instruction) {
		r, ok := in.(*ssa.Return)
		if !ok || len(rr(r)) != 1 {
			return
		}
		b, isConst := constBool(rr(r)[0])
		if !isConst {
			bad = "result is not a constant"
			return
		}
		if b {
			for _, g := range guardsOf(r.Block()) {
				cond, pol := flattenCond(g.Cond, g.Pol)
				if c, ok := cond.(*ssa.Call); ok && calleeFullName(c.Common()) == "os.IsNotExist" && !pol && errv != nil && c.Common().Args[0] == errv {
					okTrue = true
				}
				if c, ok := cond.(*ssa.Call); ok && hit != nil && c == hit && pol {
					okTrue = true
				}
			}
		} else if inLoop(r) {
			bad = "returns false from inside the loop (later roots are not tested)"
		}
	})
	if bad != "" {
		return bad
	}
	if !okTrue {
		return "no `return true` on the !os.IsNotExist(err) side of the Stat error"
	}
	return ""
}

// ---------------------------------------------------------------------------------------------
// EFF-7 / EFF-8

func ruleEFF7(w *World) []Ob {
	l := &obs{rule: "EFF-7"}
	eachModFunc(w, func(p *Prog, fn *ssa.Function) {
		if scopeOf(p, fn) == "cli" {
			return
		}
		l.cfg = p.Cfg.Name
		fid := p.FuncID(fn)
		num := numbered{}
		allInstrs(fn, func(in ssa.Instruction) {
			switch x := in.(type) {
			case *ssa.Panic:
				if x.Pos().IsValid() {
					l.bad(fid, num.name("panic("+describeValue(x.X)+")"), p.InstrPos(x), "explicit panic in library code", "panic")
				}
			case ssa.CallInstruction:
				if f := x.Common().StaticCallee(); f != nil && !p.InModule(f) && classifyExternal(f) == EffProcess {
					l.bad(fid, num.name(f.String()), p.InstrPos(in), "library code ends the process/goroutine", "process")
				}
			}
		})
	})
	for _, p := range []*Prog{w.D(), w.W()} {
		for _, path := range sortedKeys(p.ModPkgs) {
			if !isLibPath(path) {
				continue
			}
			pk := p.ModPkgs[path]
			var bad []string
			for imp := range pk.Imports {
				if imp == "unsafe" || imp == "reflect" || imp == "C" || imp == "plugin" {
					bad = append(bad, "imports "+imp)
				}
			}
			for _, f := range pk.Syntax {
				for _, cg := range f.Comments {
					for _, c := range cg.List {
						if strings.HasPrefix(c.Text, "//go:linkname") {
							bad = append(bad, "go:linkname at "+p.Pos(c.Pos()))
						}
					}
				}
			}
			o := Ob{Cfg: p.Cfg.Name, Func: strings.TrimPrefix(path, modulePath), Construct: "package " + path + " uses no unsafe/reflect/cgo/linkname", Pos: "-", Role: "pkg"}
			if o.Func == "" {
				o.Func = "gtree"
			}
			if len(bad) > 0 {
				sort.Strings(bad)
				o.Status, o.Detail, o.Nontrivial = Violation, strings.Join(bad, ", ")+": the call graph and the nil/effect analyses are no longer sound for this package", true
			} else {
				o.Status, o.Detail = OK, "assumption of the analyses holds"
			}
			l.add(o)
		}
	}
	return l.list
}

func ruleEFF8(w *World) []Ob {
	p := w.D()
	l := &obs{rule: "EFF-8", cfg: "D"}
	cmds := cliCommands(p)
	watch := watchRouteFuncs(p)
	sites := directSites(p)
	for _, name := range []string{"output", "mkdir", "verify"} {
		c := cmds[name]
		if c == nil || c.Action == nil {
			l.undecided("cmd/gtree", "command "+name, "-", "cli.Command literal not found", "stdout")
			continue
		}
		hit := func(fn *ssa.Function) bool {
			if p.PkgPath(fn) != cliPkgPath {
				return false
			}
			for _, s := range sites[fn] {
				if s.eff == EffStdout {
					return true
				}
				if s.eff == EffWriteGiven && !isStderrWrite(s.instr.Common()) {
					return true
				}
			}
			return false
		}
		path := findPath(p, c.Action, hit, func(from *ssa.Function, e callEdge) bool {
			return watch[outermost(e.to)] || p.PkgPath(e.to) != cliPkgPath
		})
		if path != nil {
			l.add(Ob{Func: p.FuncID(c.Action), Construct: "stdout of command " + name, Pos: c.Pos, Status: Violation, Nontrivial: true, Role: "stdout", Path: path,
				Detail: "package main itself prints on this route: stdout would no longer be exactly what the library writes"})
		} else {
			l.ok(p.FuncID(c.Action), "stdout of command "+name, c.Pos, "no print to stdout in package main on this route", true, "stdout")
		}
	}
	// the writer handed to the library on these routes is os.Stdout or color.Output, unwrapped
	n := 0
	set, _ := cliScopeFuncs(p)
	for fn := range set {
		if p.PkgPath(fn) != cliPkgPath {
			continue
		}
		allInstrs(fn, func(in ssa.Instruction) {
			c, ok := in.(*ssa.Call)
			if !ok {
				return
			}
			f := c.Common().StaticCallee()
			if f == nil || p.PkgPath(f) != modulePath || !strings.HasPrefix(fname(f), "Output") {
				return
			}
			n++
			wv := stripConv(c.Common().Args[0])
			okW := false
			if ld, ok := isLoad(wv); ok {
				if g, ok := ld.(*ssa.Global); ok {
					if (g.Pkg.Pkg.Path() == "os" && g.Name() == "Stdout") || (g.Pkg.Pkg.Path() == "github.com/fatih/color" && g.Name() == "Output") {
						okW = true
					}
				}
			}
			construct := "writer handed to " + fname(f)
			if okW {
				l.ok(p.FuncID(fn), construct, p.InstrPos(c), "os.Stdout / color.Output passed directly: every write error reaches the library's caller", true, "writer")
			} else {
				l.bad(p.FuncID(fn), construct, p.InstrPos(c), "the library is given "+describeValue(wv)+" instead of os.Stdout/color.Output: an intermediate writer (buffer) can hide a failed write from the exit status", "writer")
			}
		})
	}
	if n == 0 {
		l.undecided("cmd/gtree", "library output calls", "-", "none found", "writer")
	}
	return l.list
}


// isValidateVerdict: v is the result of a validatePath call (possibly through phis).
func isValidateVerdict(v ssa.Value, seen map[ssa.Value]bool) bool {
	if seen[v] {
		return true
	}
	seen[v] = true
	switch x := v.(type) {
	case *ssa.Call:
		return x.Common().StaticCallee() != nil && fname(x.Common().StaticCallee()) == "validatePath"
	case *ssa.Phi:
		for _, e := range x.Edges {
			if !isValidateVerdict(e, seen) {
				return false
			}
		}
		return true
	}
	return false
}

// isExistencePredicate: a function returning one bool that stats a path and answers "something is there" exactly when
// the Stat error is not a not-exist error: the result is !os.IsNotExist(err), or constants selected by that test.
func isExistencePredicate(fn *ssa.Function) bool {
	if fn == nil || fn.Blocks == nil || fn.Signature.Results().Len() != 1 {
		return false
	}
	if b, ok := fn.Signature.Results().At(0).Type().Underlying().(*types.Basic); !ok || b.Kind() != types.Bool {
		return false
	}
	var stat *ssa.Call
	nStat := 0
	allInstrs(fn, func(in ssa.Instruction) {
		if c, ok := in.(*ssa.Call); ok && (calleeFullName(c.Common()) == "os.Stat" || calleeFullName(c.Common()) == "os.Lstat") {
			stat = c
			nStat++
		}
	})
	if nStat != 1 || inLoop(stat) {
		return false
	}
	errv := siblingExtract(stat, 1)
	if errv == nil {
		return false
	}
	ok := true
	n := 0
	allInstrs(fn, func(in ssa.Instruction) {
		r, isR := in.(*ssa.Return)
		if !isR {
			return
		}
		n++
		v := rr(r)[0]
		if u, isU := v.(*ssa.UnOp); isU && u.Op == token.NOT {
			if c, isC := u.X.(*ssa.Call); isC && calleeFullName(c.Common()) == "os.IsNotExist" && c.Common().Args[0] == errv {
				return
			}
		}
		if b, isC := constBool(v); isC {
			for _, g := range guardsOf(r.Block()) {
				cond, pol := flattenCond(g.Cond, g.Pol)
				if c, isCall := cond.(*ssa.Call); isCall && calleeFullName(c.Common()) == "os.IsNotExist" && c.Common().Args[0] == errv && pol == !b {
					return
				}
			}
		}
		ok = false
	})
	return ok && n > 0
}

// targetDirFields: struct fields (outside config) that hold the operation's target directory, by role: every value
// stored into the field comes from the config field that WithTargetDir sets (directly, through constructor parameters,
// or from another such field) or is a constant default.  The field named targetDir is always one.
var targetDirFieldsCache = map[*Prog]map[string]bool{}

func targetDirFields(p *Prog) map[string]bool {
	if m, ok := targetDirFieldsCache[p]; ok {
		return m
	}
	m := map[string]bool{}
	targetDirFieldsCache[p] = m // (recursion through provenance sees the partial result)
	tf := optionField(p, "WithTargetDir")
	if tf == "" {
		return m
	}
	type fstore struct {
		key string
		val ssa.Value
	}
	var stores []fstore
	for _, fn := range libFuncs(p) {
		allInstrs(fn, func(in ssa.Instruction) {
			st, ok := in.(*ssa.Store)
			if !ok {
				return
			}
			fa, ok := st.Addr.(*ssa.FieldAddr)
			if !ok {
				return
			}
			if b, isB := st.Val.Type().Underlying().(*types.Basic); !isB || b.Info()&types.IsString == 0 {
				return
			}
			tn, f, _ := fieldOf(fa)
			if tn == "config" || tn == "Node" {
				return
			}
			stores = append(stores, fstore{tn + "." + f, st.Val})
		})
	}
	for round := 0; round < 3; round++ {
		byKey := map[string][]ssa.Value{}
		for _, s := range stores {
			byKey[s.key] = append(byKey[s.key], s.val)
		}
		for k, vals := range byKey {
			if m[k] {
				continue
			}
			all, from := true, false
			for _, v := range vals {
				for _, lf := range provenance(p, v, 0, map[ssa.Value]bool{}) {
					switch lf.kind {
					case "const":
					case "cfg." + tf, "targetDir":
						from = true
					default:
						all = false
					}
				}
			}
			if all && from {
				m[k] = true
			}
		}
	}
	return m
}
