#!/bin/bash
# usage: ./run.sh <property-id> quick|thorough
# Decides the structural clauses of one property by static analysis of /repo's current working tree.
cd "$(dirname "$0")"
ID="$1"; TIER="${2:-${VERIF_TIER:-quick}}"
REPO="${GTCHECK_REPO:-/repo}"
export PATH=/opt/veriftools/go1.26.8/bin:$PATH GOTOOLCHAIN=local GOFLAGS=-mod=mod GOPROXY=off GOSUMDB=off
unset GOWORK
BIN="${GTCHECK_BIN:-bin/gtcheck}"   # test drivers pin a snapshot of the binary so that the checker can be edited meanwhile
if [ -n "$GTCHECK_BIN" ]; then :; elif [ ! -x bin/gtcheck ] || [ -n "$(find checker -newer bin/gtcheck -name '*.go' -print -quit 2>/dev/null)" ]; then
  ./build.sh || { echo "CHECK-ERROR build failed"; exit 2; }
fi
EVD="${GTCHECK_EVIDENCE:-evidence}"
mkdir -p "$EVD"
if [ "$TIER" = thorough ] && [ -x ./thorough.sh ]; then
  exec ./thorough.sh "$ID" "$REPO"
fi
exec "$BIN" -prop "$ID" -tier "$TIER" -repo "$REPO" -evidence "$EVD" -known known_findings.txt
