#!/bin/bash
# runs every claimed check (quick) on /repo; prints one line per property
cd /verif
for p in $(python3 -c "import json;print(' '.join(c['property_id'] for c in json.load(open('MANIFEST.json'))['checks']))"); do
  out=$(./run.sh $p quick 2>&1); rc=$?
  echo "$p exit=$rc viol=$(echo "$out" | grep -c '^VIOLATION') known=$(echo "$out" | grep -c KNOWN-FINDING) $(echo "$out" | tail -1 | cut -c1-120)"
  [ $rc -ne 0 ] && echo "$out" | grep -E 'violated|UNDECIDED' | cut -c1-300
done
