#!/bin/bash
# usage: confirm_refactor.sh <dir with patch.diff>   — applies to a scratch copy of /repo HEAD; all build variants must compile and the
# whole existing suite must pass.  Prints one line; exit 0 iff confirmed.
export PATH=/opt/veriftools/go1.26.8/bin:$PATH GOTOOLCHAIN=local GOFLAGS=-mod=mod GOPROXY=off GOSUMDB=off; unset GOWORK
S="$(cd "$1" && pwd)"; NAME=$(basename "$S")
W=$(mktemp -d /tmp/refconf.XXXXXX); trap 'rm -rf "$W"' EXIT
git -C /repo archive HEAD | tar -x -C "$W"; cd "$W"
if ! patch -p1 -s < "$S/patch.diff"; then echo "REFACTOR $NAME: patch does not apply"; exit 1; fi
if ls $(grep -E '^\+\+\+ b/' "$S/patch.diff" | sed 's|+++ b/||') 2>/dev/null | grep -q '_test.go$'; then echo "REFACTOR $NAME: touches test files"; exit 1; fi
if ! go build . ./markdown ./cmd/gtree 2>build.err || ! go build -tags tinywasm . 2>>build.err || ! GOOS=js GOARCH=wasm go build -tags tinywasm -o /dev/null ./cmd/gtree-wasm 2>>build.err; then echo "REFACTOR $NAME: does not compile"; head -5 build.err; exit 1; fi
if ! go test -vet=off -count=1 . ./markdown ./cmd/gtree > suite.out 2>&1; then echo "REFACTOR $NAME: suite fails"; tail -5 suite.out; exit 1; fi
echo "REFACTOR $NAME: confirmed (applies, 3 builds, suite passes)"
