#!/bin/bash
# usage: seedtest.sh [seed-name ...]   — applies each seeded patch to a scratch copy of /repo HEAD and runs
# every claimed check (quick) against it.  Prints, per seed, which properties raised an alarm.
# GTREE_SRC=<dir> uses a scratch tree instead of /repo HEAD as the base.
cd /verif
[ -x bin/gtcheck ] || ./build.sh
SNAP=$(mktemp /tmp/gtcheck.snap.XXXXXX); cp bin/gtcheck $SNAP; chmod +x $SNAP; export GTCHECK_BIN=$SNAP; trap "rm -f $SNAP" EXIT
PROPS=$(python3 -c "import json;print(' '.join(c['property_id'] for c in json.load(open('MANIFEST.json'))['checks']))" 2>/dev/null)
[ -n "$SEEDTEST_PROPS" ] && PROPS="$SEEDTEST_PROPS"
SEEDS="$@"; [ -z "$SEEDS" ] && SEEDS=$(cd seeded && ls -d */ | tr -d /)
one() {
  s=$1
  W=$(mktemp -d /tmp/seedrun.XXXXXX)
  if [ -n "$GTREE_SRC" ]; then cp -a $GTREE_SRC/. $W/; else git -C /repo archive HEAD | tar -x -C $W; fi
  if ! (cd $W && patch -p1 -s < /verif/seeded/$s/patch.diff); then echo "$s: PATCH FAILED"; rm -rf $W; return; fi
  hits=""; rules=""
  for p in $PROPS; do
    out=$(GTCHECK_REPO=$W GTCHECK_EVIDENCE=$W/.ev ./run.sh $p quick 2>&1); rc=$?
    if [ $rc -eq 1 ]; then r=$(echo "$out" | grep -oE 'rule [A-Z0-9]+-[A-Za-z0-9]+' | sort -u | tr '\n' ',' | sed 's/rule //g; s/,$//'); hits="$hits $p($r)"; fi
    if [ $rc -ge 2 ]; then hits="$hits $p(ERR)"; fi
  done
  own=$(python3 -c "import json;print(json.load(open('/verif/seeded/$s/meta.json'))['property'])")
  echo "$s [breaks $own]: flagged by:${hits:- NONE}"
  rm -rf $W
}
export -f one; export PROPS
printf '%s\n' $SEEDS | xargs -P 8 -I{} bash -c 'one {}' | sort
