#!/bin/bash
# applies each behaviour-preserving refactoring in selftest/refactors to a scratch copy of /repo HEAD and runs every
# claimed check (quick): all must stay silent.  usage: refactortest.sh [-v] [name ...]
# GTREE_SRC=<dir> uses a scratch tree instead of /repo HEAD as the base.
cd /verif
[ -x bin/gtcheck ] || ./build.sh
SNAP=$(mktemp /tmp/gtcheck.snap.XXXXXX); cp bin/gtcheck $SNAP; chmod +x $SNAP; export GTCHECK_BIN=$SNAP; trap "rm -f $SNAP" EXIT
VERB=0; [ "$1" = "-v" ] && { VERB=1; shift; }
PROPS=$(python3 -c "import json;print(' '.join(c['property_id'] for c in json.load(open('MANIFEST.json'))['checks']))")
[ -n "$REFTEST_PROPS" ] && PROPS="$REFTEST_PROPS"
CORPUS="${CORPUS:-selftest/refactors}"; LIST="$@"; [ -z "$LIST" ] && LIST=$(cd $CORPUS && ls -d */ | tr -d /)
one() {
  r=$1
  W=$(mktemp -d /tmp/refrun.XXXXXX)
  if [ -n "$GTREE_SRC" ]; then cp -a $GTREE_SRC/. $W/; else git -C /repo archive HEAD | tar -x -C $W; fi
  if ! (cd $W && patch -p1 -s < /verif/$CORPUS/$r/patch.diff); then echo "$r: PATCH FAILED"; rm -rf $W; return; fi
  hits=""
  for p in $PROPS; do
    out=$(GTCHECK_REPO=$W GTCHECK_EVIDENCE=$W/.ev ./run.sh $p quick 2>&1); rc=$?
    if [ $rc -ne 0 ]; then
      rules=$(echo "$out" | grep -oE 'rule [A-Z0-9]+-[A-Za-z0-9]+' | sort -u | tr '\n' ',' | sed 's/rule //g; s/,$//')
      hits="$hits $p($rules)"
      [ $VERB = 1 ] && echo "$out" | grep -E "violated|UNDECIDED|CHECK-ERROR" | sed "s/^/    [$r $p] /" | cut -c1-420
    fi
  done
  echo "$r: alarms:${hits:- none}"
  rm -rf $W
}
export -f one; export PROPS VERB CORPUS
printf '%s\n' $LIST | xargs -P ${REFTEST_JOBS:-8} -I{} bash -c 'one {}' | sort
