#!/usr/bin/env python3
# regenerates /verif/MANIFEST.json from the property specs compiled into gtcheck (bin/gtcheck -list) and tools/manifest_meta.json
import json, subprocess, sys
props=[json.loads(l) for l in open('/verif/properties.jsonl')]
meta=json.load(open('/verif/tools/manifest_meta.json'))
claimed=meta['claimed']
checks=[]
for p in props:
    pid=p['id']
    if pid not in claimed: continue
    m=claimed[pid]
    checks.append({
      "property_id":pid,
      "quick_cmd":"./run.sh %s quick"%pid,
      "thorough_cmd":"./run.sh %s thorough"%pid,
      "evidence_file":"/verif/evidence/%s.json"%pid,
      "replay_cmd_template":"./bin/gtcheck -replay {path} -known known_findings.txt",
      "engine":"gtcheck",
      "level_claimed":{"category":"other","text":m['text'],"design_ref":m['design_ref']},
      "level_note":m['note'],
      "technique":m['technique'],
    })
na=[{"property_id":p['id'],"reason":meta['not_applicable'].get(p['id'],"no check registered yet")} for p in props if p['id'] not in claimed]
man={"version":1,
 "setup_cmd":"./build.sh",
 "hooks":{"guard":"verif","enable":"no hooks exist: the checker reads /repo's source (go/packages, go/ssa) and never builds or runs gtree, so there is nothing to instrument","baseline_off_cmd":"cd /repo && go test -mod=mod -json -vet=off -count=1 -timeout 25m ./...","source_commits":[],"add_only":True},
 "engines":[{"name":"gtcheck","path":"/verif/checker","serves_properties":sorted(claimed),"kind_free_text":"repository-specific static analyser (Go, x/tools v0.50.0): type-checked syntax + SSA + dominance + CHA call graph; rule families ERR/CONC/NIL/EFF/GLOB/PAIR/TAB/SIB; nothing is executed"}],
 "checks":checks,
 "not_applicable":na,
 "notes":meta['notes']}
json.dump(man,open('/verif/MANIFEST.json','w'),indent=1,ensure_ascii=False)
print(len(checks),'checks',len(na),'not applicable')
