#!/bin/bash
# usage: rebase_patch.sh <patch.diff> <old-base-commit>   — re-expresses a corpus patch made against an older /repo commit as a diff
# against /repo HEAD (apply on the old base in a scratch worktree, cherry-pick the commits since, diff against HEAD).
# Prints the new diff to stdout; exit 1 if the cherry-pick conflicts.
P="$(cd "$(dirname "$1")" && pwd)/$(basename "$1")"; OLD="$2"
W=$(mktemp -d /tmp/rebasewt.XXXXXX); rmdir "$W"
git -C /repo worktree add --detach "$W" "$OLD" -q >/dev/null 2>&1 || exit 2
trap 'git -C /repo worktree remove --force "$W" >/dev/null 2>&1' EXIT
cd "$W"
git apply "$P" 2>/dev/null || patch -p1 -s < "$P" || exit 3
git add -A && git -c user.name=x -c user.email=x@x commit -q -m tmp
HEADC=$(git -C /repo rev-parse HEAD)
for c in $(git -C /repo rev-list --reverse "$OLD..$HEADC"); do
  git -c user.name=x -c user.email=x@x cherry-pick "$c" >/dev/null 2>&1 || { git cherry-pick --abort 2>/dev/null; exit 1; }
done
git diff "$HEADC" HEAD
