#!/bin/bash
# usage: confirm_seed.sh <seed-dir>     (dir with patch.diff, demo_test.go|demo.sh, meta.json)
# Confirms, in scratch copies outside /repo and /verif: patch applies to /repo HEAD, both build variants
# compile, the full existing suite passes with the patch, the demo FAILS with the patch and PASSES without.
# Prints one summary line; exit 0 iff all confirmed.  Scratch dirs are removed.
export PATH=/opt/veriftools/go1.26.8/bin:$PATH GOTOOLCHAIN=local GOFLAGS=-mod=mod GOPROXY=off GOSUMDB=off; unset GOWORK
S="$(cd "$1" && pwd)"; NAME=$(basename "$S")
W=$(mktemp -d /tmp/seedconf.XXXXXX)
trap 'rm -rf "$W"' EXIT
git -C /repo archive HEAD | tar -x -C "$W"
cd "$W"
res() { echo "SEED $NAME: $*"; }
run_demo() {  # runs demo in cwd; returns its exit status
  if [ -f "$S/demo.sh" ]; then
    timeout 600 sh "$S/demo.sh" > "$W/../$NAME.demo.out" 2>&1; return $?
  fi
  local pkgdir="."
  local f="zz_seed_${NAME//-/_}_test.go"
  if grep -q '^package markdown' "$S/demo_test.go"; then pkgdir=markdown; fi
  if grep -q '^package main' "$S/demo_test.go"; then pkgdir=cmd/gtree; fi
  cp "$S/demo_test.go" "$pkgdir/$f"
  local extra=""
  grep -q '"needs_race": *true' "$S/meta.json" 2>/dev/null && extra="-race"
  local names=$(grep -oE '^func (Test[A-Za-z0-9_]+)' "$S/demo_test.go" | awk '{print $2}' | paste -sd'|')
  (cd $pkgdir && timeout 900 go test -vet=off -count=1 $extra -run "^($names)\$" . ) > "$W/../$NAME.demo.out" 2>&1
  local rc=$?
  rm -f "$pkgdir/$f"
  return $rc
}
# 1. demo on HEAD must pass
run_demo; rc0=$?
if [ $rc0 -ne 0 ]; then res "demo FAILS on unmodified HEAD (rc=$rc0) -> rejected"; tail -5 "$W/../$NAME.demo.out"; rm -f "$W/../$NAME.demo.out"; exit 1; fi
# 2. apply
if ! git apply --unsafe-paths --directory="$W" "$S/patch.diff" 2>/dev/null && ! patch -p1 -s < "$S/patch.diff"; then res "patch does not apply -> rejected"; exit 1; fi
# 3. builds
if ! go build . ./markdown ./cmd/gtree 2>"$W/build.err" || ! go build -tags tinywasm . 2>>"$W/build.err"; then res "does not compile -> rejected"; head -5 "$W/build.err"; exit 1; fi
# 4. suite
if ! go test -vet=off -count=1 . ./markdown > "$W/suite.out" 2>&1; then res "existing suite FAILS with patch -> rejected"; tail -5 "$W/suite.out"; exit 1; fi
rm -rf root* Primate gtree 2>/dev/null
# 5. demo with patch must fail
run_demo; rc1=$?
rm -f "$W/../$NAME.demo.out"
if [ $rc1 -eq 0 ]; then res "demo PASSES with patch -> rejected"; exit 1; fi
res "confirmed (applies, builds x2, suite passes, demo passes on HEAD and fails with patch rc=$rc1)"
exit 0
