#!/bin/bash
# builds /verif/bin/gtcheck from /verif/checker (vendored x/tools v0.50.0, go1.26.8), offline
set -e
cd "$(dirname "$0")/checker"
export PATH=/opt/veriftools/go1.26.8/bin:$PATH GOTOOLCHAIN=local GOPROXY=off GOSUMDB=off GOWORK=off
if [ -d vendor ]; then export GOFLAGS=-mod=vendor; else export GOFLAGS=-mod=mod; fi
mkdir -p ../bin
go build -o ../bin/gtcheck .
