#!/bin/bash
# usage: thorough.sh <property-id> <repo>
# 1. the property's rules at tier "thorough" (adds the js/wasm, windows and darwin configurations),
# 2. checker self-validation on scratch copies of the CURRENT working tree of <repo> (never executed, only
#    analysed): every seeded mutation known to break this property must be reported, every behaviour-preserving
#    refactoring must stay silent.  The outcome is added to the evidence file; it does not change the verdict
#    about <repo> itself (a mutant that is missed is a weakness of the checker, not a violation in <repo>).
cd "$(dirname "$0")"
ID="$1"; REPO="${2:-/repo}"
EVD="${GTCHECK_EVIDENCE:-evidence}"
mkdir -p "$EVD"
./bin/gtcheck -prop "$ID" -tier thorough -repo "$REPO" -evidence "$EVD" -known known_findings.txt
RC=$?
[ $RC -ge 2 ] && exit $RC
[ -n "$GTCHECK_NO_SELFVAL" ] && exit $RC

BASE=$(mktemp -d /tmp/gtselfval.XXXXXX)
trap 'rm -rf "$BASE"' EXIT
mkdir -p "$BASE/base"
( cd "$REPO" && { git ls-files -z 2>/dev/null || find . -name '*.go' -print0 -o -name go.mod -print0 -o -name go.sum -print0; } | rsync -a --from0 --files-from=- ./ "$BASE/base/" ) 2>/dev/null

variant() {  # kind name patch expect
  kind=$1; name=$2; patchf=$3; expect=$4
  W="$BASE/w.$kind.$name"
  cp -a "$BASE/base" "$W"
  if ! (cd "$W" && patch -p1 -s --no-backup-if-mismatch < "$patchf" >/dev/null 2>&1); then echo "$kind $name skipped"; rm -rf "$W"; return; fi
  ./bin/gtcheck -prop "$ID" -tier quick -repo "$W" -known known_findings.txt > "$W.out" 2>&1; rc=$?
  rules=$(grep -oE 'rule [A-Z0-9]+-[A-Za-z0-9]+' "$W.out" | sort -u | tr '\n' ',' | sed 's/rule //g; s/,$//')
  if [ $rc -ge 2 ]; then echo "$kind $name error"; elif [ "$expect" = fire ]; then [ $rc -eq 1 ] && echo "$kind $name detected $rules" || echo "$kind $name MISSED"; else [ $rc -eq 0 ] && echo "$kind $name silent" || echo "$kind $name FLAGGED $rules"; fi
  rm -rf "$W" "$W.out"
}
export -f variant; export BASE ID
{
  python3 - "$ID" <<'PY'
import json,sys,os
pid=sys.argv[1]
exp=json.load(open('seeded/EXPECTED.json'))
for seed,props in sorted(exp.items()):
    if pid in props and os.path.exists('seeded/%s/patch.diff'%seed):
        print('mutant',seed,os.path.abspath('seeded/%s/patch.diff'%seed),'fire')
for r in sorted(os.listdir("selftest/refactors")):
    print('refactor',r,os.path.abspath('selftest/refactors/%s/patch.diff'%r),'silent')
# property-preserving feature / performance / diagnostics changes; the few that are known to be reported
# (selftest/evolutions/KNOWN_ALARMS.txt, see DESIGN 9.7) are listed as such in the evidence
if os.path.isdir('selftest/evolutions'):
    for r in sorted(os.listdir('selftest/evolutions')):
        if os.path.exists('selftest/evolutions/%s/patch.diff'%r):
            print('refactor',r,os.path.abspath('selftest/evolutions/%s/patch.diff'%r),'silent')
PY
} | xargs -P 14 -L 1 bash -c 'variant "$0" "$1" "$2" "$3"' > "$BASE/results.txt"
sort "$BASE/results.txt" | sed 's/^/  selfval: /'
python3 - "$EVD/$ID.json" "$BASE/results.txt" <<'PY'
import json,sys
ev=json.load(open(sys.argv[1]))
res=[l.split(None,3) for l in open(sys.argv[2]) if l.strip()]
def cnt(kind,st): return sum(1 for r in res if r[0]==kind and r[2]==st)
import os
known=set(l.split()[0] for l in open('selftest/evolutions/KNOWN_ALARMS.txt') if l.strip() and not l.startswith('#')) if os.path.exists('selftest/evolutions/KNOWN_ALARMS.txt') else set()
sv={"mutants_applied":cnt('mutant','detected')+cnt('mutant','MISSED'),"mutants_detected":cnt('mutant','detected'),
    "mutants_missed":[r[1] for r in res if r[0]=='mutant' and r[2]=='MISSED'],
    "mutants_skipped":[r[1] for r in res if r[2]=='skipped' and r[0]=='mutant'],
    "refactors_applied":cnt('refactor','silent')+cnt('refactor','FLAGGED'),"refactors_silent":cnt('refactor','silent'),
    "refactors_flagged":[r[1]+(' '+r[3].strip() if len(r)>3 else '')+(' (known limitation, DESIGN 9.7)' if r[1] in known else '') for r in res if r[0]=='refactor' and r[2]=='FLAGGED'],
    "errors":[r[1] for r in res if r[2]=='error'],
    "detail":[' '.join(x.strip() for x in r) for r in sorted(res)],
    "note":"variants are scratch copies of the current working tree with one seeded mutation (seeded/<name>/patch.diff) or one behaviour-preserving refactoring (selftest/refactors/<name>/patch.diff) applied; they are only analysed, never executed"}
ev['coverage']['self_validation']=sv
json.dump(ev,open(sys.argv[1],'w'),indent=1)
print("  selfval: %d/%d seeded mutants of this property reported, %d/%d refactorings silent"%(sv['mutants_detected'],sv['mutants_applied'],sv['refactors_silent'],sv['refactors_applied']))
PY
exit $RC
